#!/usr/bin/env python3
"""Run every claimed check against every seeded change (scratch copy of /repo/gbasis + patch) and record which checks catch it:
updates meta.json["caught_by"] and writes seeded/MATRIX.md."""
import json
import os
import shutil
import subprocess
import tempfile
from concurrent.futures import ThreadPoolExecutor

VERIF = os.path.dirname(os.path.dirname(os.path.abspath(__file__)))
claimed = [c["property_id"] for c in json.load(open(os.path.join(VERIF, "MANIFEST.json")))["checks"]]
seeded = os.path.join(VERIF, "seeded")
ids = sorted(d for d in os.listdir(seeded) if os.path.exists(os.path.join(seeded, d, "patch.diff")))


def run(sid):
    d = tempfile.mkdtemp(prefix="gbsa-seed.")
    try:
        shutil.copytree("/repo/gbasis", os.path.join(d, "gbasis"))
        r = subprocess.run(["patch", "-s", "-p1", "-i", os.path.join(seeded, sid, "patch.diff")], cwd=d, capture_output=True, text=True)
        if r.returncode:
            return sid, None
        out = {}
        for c in claimed:
            r = subprocess.run([os.path.join(VERIF, "check"), c, "--repo", d, "--no-evidence"], capture_output=True, text=True)
            rule = ""
            for l in r.stdout.split("\n"):
                if ": [" in l:
                    rule = l.split(": [", 1)[1].split("]", 1)[0]
                    break
            out[c] = (r.returncode, rule)
        return sid, out
    finally:
        shutil.rmtree(d, ignore_errors=True)


rows = []
with ThreadPoolExecutor(max_workers=12) as ex:
    for sid, out in ex.map(run, ids):
        mp = os.path.join(seeded, sid, "meta.json")
        meta = json.load(open(mp))
        if out is None:
            rows.append((sid, meta, None))
            continue
        caught = sorted(c for c, (rc, _r) in out.items() if rc == 1)
        errs = sorted(c for c, (rc, _r) in out.items() if rc == 2)
        meta["caught_by"] = caught
        meta["caught_rules"] = {c: out[c][1] for c in caught}
        meta["analysis_error_in"] = errs
        json.dump(meta, open(mp, "w"), indent=1)
        rows.append((sid, meta, out))
with open(os.path.join(seeded, "MATRIX.md"), "w") as fh:
    fh.write("# Seeded changes vs checks\n\nEach row: a change produced by an independent sub-agent for the named property (patch.diff, demo.py, meta.json in the "
             "directory), confirmed by me to pass the unedited suite and to fail its demonstration. `caught by` = checks that exit 1 on a scratch copy with "
             "the patch (rule in brackets); `exit 2` = checks that stop with ANALYSIS-ERROR (neither pass nor alarm).\n\n")
    fh.write("| seed | breaks | summary | caught by | exit 2 |\n|---|---|---|---|---|\n")
    for sid, meta, out in rows:
        if out is None:
            fh.write(f"| {sid} | {meta.get('property')} | patch does not apply to the current tree | | |\n")
            continue
        cb = ", ".join(f"{c} [{meta['caught_rules'][c]}]" for c in meta["caught_by"]) or "**not caught**"
        fh.write(f"| {sid} | {meta.get('property')} | {str(meta.get('summary', ''))[:150].replace('|', '/')} | {cb} | {', '.join(meta['analysis_error_in'])} |\n")
n = sum(1 for _s, m, o in rows if o and m["caught_by"])
print(f"{n}/{len(rows)} seeded changes caught")
for sid, meta, out in rows:
    if out and not meta["caught_by"]:
        print("NOT CAUGHT:", sid, meta.get("summary", "")[:120], "| exit2:", meta["analysis_error_in"])
