#!/bin/bash
# usage: trypatch.sh <patch.diff> <ID> [ID...]   - run checks against a scratch copy of /repo/gbasis with the patch applied
P=$(readlink -f "$1"); shift
D=$(mktemp -d /tmp/tp.XXXXXX)
cp -r /repo/gbasis "$D/gbasis"
(cd "$D" && patch -s -p1 < "$P") || { echo "patch failed"; rm -rf "$D"; exit 3; }
for id in "$@"; do
  out=$(/verif/check "$id" --repo "$D" --no-evidence 2>&1); rc=$?
  echo "== $id rc=$rc"; echo "$out" | grep -v "^VIOLATION" | cut -c1-400 | head -${TP_LINES:-12}
done
rm -rf "$D"
