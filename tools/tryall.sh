#!/bin/bash
# usage: tryall.sh <patch.diff>  - apply to a scratch copy of /repo/gbasis and run every claimed check (16 jobs); prints one line per check
P=$(readlink -f "$1")
D=$(mktemp -d /tmp/ta.XXXXXX)
cp -r /repo/gbasis "$D/gbasis"
( cd "$D" && patch -s -p1 -i "$P" ) || { echo "patch does not apply"; rm -rf "$D"; exit 3; }
for id in C01 C02 C03 C04 C05 C06 C07 C08 C09 C11 C12 C13 C14 C15 C16 C18 C19 C20; do echo $id; done | \
  xargs -P 16 -I{} bash -c 'out=$(/verif/check {} --repo '"$D"' --no-evidence 2>&1); rc=$?; if [ $rc -ne 0 ]; then echo "{} rc=$rc $(echo "$out" | grep -E "\[[A-Z0-9-]+\]|ANALYSIS-ERROR" | head -2 | cut -c1-220 | tr "\n" "|")"; fi'
rm -rf "$D"
