# Claims table, exec'd by tools/mkmanifest.py: claim(pid, technique, text, note, design) / na(pid, reason)

claim("C19",
      "alias/ownership dataflow + interprocedural mutation summaries (effect analysis)",
      "Static effect analysis over every function of gbasis/ except libcint.py: a flow-sensitive alias/ownership lattice per "
      "function and mutate/return summaries iterated to a fixpoint over the call graph show that no public function writes into "
      "memory reachable from a parameter (E1), that every construct_array_contraction kernel returns a fresh array although the "
      "assembly multiplies it in place (E2), that nothing stores to module/class/closure state (E3), that process-wide error "
      "state is changed only through context managers or finally-paired calls on normal and exceptional exits (E4), and that a "
      "shell's norm is computed from its stored parameters and never from the stale norm_cont (E5). Purity is compositional, so "
      "these per-function facts hold for every call sequence - the quantifier the tests cannot reach. Structural clauses only: "
      "bit-for-bit repeatability additionally needs numpy's determinism, which is trusted.",
      "Trusted: the numpy/python API table (view vs copy, mutating methods) in gbsa/effects.py; caller-supplied callables "
      "(boys_func) are pure; libcint.py excluded; class-hierarchy resolution of method calls by name.",
      "DESIGN.md 2.3, 3 (C19)")

_pending = "check not built yet in this round (design in DESIGN.md section 3); not claimed until its rules run"
for _p in ["C01", "C02", "C03", "C04", "C05", "C06", "C07", "C08", "C09", "C11", "C12", "C13", "C14", "C15", "C16", "C18", "C20"]:
    if _p not in CLAIMED:
        na(_p, _pending)
na("C10", "quantifies over the numerical values of the transformation matrices (harmonicity, orthonormality, phases for every l<=10); "
          "no clause is visible in the shape of the code - deciding it means computing the matrices, which is not static analysis")
na("C17", "positive semi-definiteness and Schwarz inequalities are numerical consequences of exact integrals; no structural clause exists")
