# Claims table, exec'd by tools/mkmanifest.py: claim(pid, technique, text, note, design) / na(pid, reason)

claim("C19",
      "alias/ownership dataflow + interprocedural mutation summaries (effect analysis)",
      "Static effect analysis over every function of gbasis/ except libcint.py: a flow-sensitive alias/ownership lattice per "
      "function and mutate/return summaries iterated to a fixpoint over the call graph show that no public function writes into "
      "memory reachable from a parameter (E1), that every construct_array_contraction kernel returns a fresh array although the "
      "assembly multiplies it in place (E2), that nothing stores to module/class/closure state (E3), that process-wide error "
      "state is changed only through context managers or finally-paired calls on normal and exceptional exits (E4), and that a "
      "shell's norm is computed from its stored parameters and never from the stale norm_cont (E5). Setters and initialisers may rebind fields of their own object but never write into an array the object already holds (it is the caller's); memoising decorators, closure and module-level caches are E3 findings. Purity is compositional, so "
      "these per-function facts hold for every call sequence - the quantifier the tests cannot reach. Structural clauses only: "
      "bit-for-bit repeatability additionally needs numpy's determinism, which is trusted.",
      "Trusted: the numpy/python API table (view vs copy, mutating methods) in gbsa/effects.py; caller-supplied callables "
      "(boys_func) are pure; libcint.py excluded; class-hierarchy resolution of method calls by name.",
      "DESIGN.md 2.3, 3 (C19)")


claim("C18",
      "regex-AST and record-layout lints + effect analysis (custom syntax-tree rules)",
      "Rules over the parsed regular expressions (re._parser) and the record layouts of parse_nwchem, parse_gbs, make_contractions "
      "and from_pyscf: split stride = capture groups + 1 with every record field consumed once from the first match (P1); the text "
      "before the first element is dropped unconditionally and the element pattern can match at offset 0 of its subject (P2); "
      "number tokens admit 0-9.DE+- and every float() argument is Fortran-D normalised (P3); the constant-folded shell-letter table "
      "is s..k -> 0..7, consulted case-insensitively (P4); producers, the consumer loop and the shell constructor agree on "
      "(angmom, exps, coeffs) and SP column i goes with letter i (P5); shells are built atom-major with that atom's row and index "
      "(P6); each shell receives the next coordinate type in construction order (P7); coord_types is used through the Sequence "
      "protocol only (P8); the shell keeps the atom index and angular momentum it is given - the scalar setters are decided by a finite case analysis over None / 0 / positive / negative / non-integral / string arguments, and __init__ hands each argument to its own property (STORE); every line of a record's text is tried against the row pattern - complete split, non-matching lines skipped, never ending the loop (P9); from_pyscf unpacks the PySCF record layout; EFFECTS shows that none of the five import functions mutates "
      "an argument. These hold for all inputs because they are facts about the patterns and the dataflow, not about sampled files. "
      "Round-trip of arbitrary generated files is not decided.",
      "Trusted: python re semantics, the NWChem/Gaussian94/PySCF format facts stated in the evidence assumptions, EFFECTS API table.",
      "DESIGN.md 2.7, 3 (C18)")

claim("C14",
      "backward slices + path conditions + computer-algebra normal form of the result expression",
      "On electrostatic_potential the whole return value is extracted symbolically; its per-nucleus term must be 0 exactly under "
      "`d < threshold_dist` and +Z/d otherwise, with d proven to be sqrt(sum((point-nucleus)^2)), the drop condition free of the "
      "charge and of any modification of the threshold (D1), and a dropped nucleus never divided by its distance (D1-DEF: no "
      "0/0 on a nucleus); every size comparison of the density matrix is against transform.shape[0] on the transform path and "
      "against the AO count only without one (D2, path conditions); the returned expression equals +sum Z/d (thresholded) - sum "
      "P*I as a symbolic identity given point_charge_integral(q) = -q*I (SIGN); basis, points, transform are forwarded and the "
      "probe charges are -1 (FWD); boolean-mask reads are tracked as selections, so filtering the nuclei may only drop zero charges. Holds for all charges, thresholds and transformations because nothing is sampled. The values "
      "of the point-charge integrals are decided by running every rule of C03 inside this check (prefix C03/; the nuclear-attraction wrapper, not used here, excluded).",
      "Trusted: elementwise abstraction (broadcast adapters dropped, np.sum linear), sympy simplify; what C03 trusts.",
      "DESIGN.md 2.4, 2.6, 3 (C14)")

claim("C20",
      "closed-form extraction + computer algebra; comparison normal form; dispatch/keyword-forwarding rules",
      "is_integral_screened's cutoff is extracted as an expression and proven equal to the documented sqrt(-(a_min+b_min)/(a_min "
      "b_min) ln tol) with the minimum taken over the right shell's exponents; the decision is the strict `distance > cutoff` with "
      "the Euclidean centre distance; None is decided before any use and bool is rejected; the screened block's four axes are the "
      "segment/component counts of the respective shells; kept blocks have no dependence on the tolerance; overlap_integral "
      "forwards tol_screen identically on its four assembly branches (dispatch predicates checked) and neither the wrapper, the kernel nor the predicate replaces the tolerance on any path (no global switch-off). Monotonicity in the tolerance "
      "follows from the formula (derivative sign recorded). The magnitude bound on removed elements is numerical and not decided.",
      "Trusted: sympy; assembly forwards **kwargs (C09/A1); a block depends only on its own shells (C11/G1).",
      "DESIGN.md 2.4, 2.6, 3 (C20)")

claim("C09",
      "axis-provenance abstract interpretation (type-and-effect system over numpy axes) + dispatch rules",
      "An abstract interpreter runs construct_array_{cartesian,spherical,mix,lincomb} of the four assembly base classes on symbolic, "
      "pairwise-distinct shells, with every array axis carrying a provenance tag (segment/Cartesian/spherical component of shell s "
      "at kernel position k) instead of a size; two axes are interchangeable only if their tags agree, so one run covers all shapes. "
      "For every coordinate-type pattern up to the shell bound it proves, per block: kernel called with the loop's shells and the "
      "caller's kwargs; per index exactly one multiply by that shell's contraction norm on its own (M,L) axes, then - iff spherical "
      "- one tensordot with that shell's own Cartesian->spherical matrix contracting its L axis; segment-major flattening; blocks "
      "concatenated in shell-list order, reused blocks permuted like their grid index; lincomb applies T to every basis index in "
      "place and dispatches by type; mix agrees with the dedicated paths; a basis axis carries spherical components exactly for the shells declared spherical (an identity in place of the transformation is accepted only on a path where that shell is an s shell - comparisons on angular momenta are explored over consistent candidate values); a per-segment norm column spread with np.repeat over the shell's own components is the same factor (norm_cont does not depend on the component), spread with np.tile it is mis-ordered. The 9 public wrappers + 2 special ones obey the dispatch "
      "and keyword-forwarding rule. Numerical equality to rounding and the content of the transformation matrix (C10) are not decided.",
      "Trusted: numpy axis semantics as modelled in gbsa/axtype.py; bound on the NUMBER of shells (sizes unbounded); kernels honour "
      "contract K.",
      "DESIGN.md 2.1, 3 (C09)")

claim("C11",
      "axis-provenance abstract interpretation (permutation-group check of block reuse) + adjoint classification of kernels",
      "From the same abstract runs as C09: every grid cell is assigned exactly the kernel block of its own shells; a reused block has "
      "its axes permuted exactly like its grid index and the permutation lies in the symmetry group of the array kind (S2 for "
      "symmetric two-index, the 8-element group for the four-index array), the enumeration leaving no cell unassigned (G4). The "
      "mirror operation of the symmetric fill is classified swap/adjoint from the conjugation flag carried by mirrored blocks and "
      "must be adjoint whenever some kernel's phase class (real / imaginary-unit x real / complex, computed from its return "
      "expression) is not real (G2); kernels of the other kinds are real (G3); kernels are static/class methods that read no "
      "instance data and get exactly the loop's shells, so a block depends only on its own shells and reordering shells permutes "
      "indices (G1). Equality of independently computed orientations is numerical and not decided.",
      "Trusted: as C09; Hermiticity of momentum-type operators in exact arithmetic.",
      "DESIGN.md 2.1, 2.8, 3 (C11)")

claim("C05",
      "closed-form extraction + computer algebra against the calculus definition; guard/domain and dispatch rules",
      "The direct back-end's hand-expanded first/second derivative factors are extracted (elementwise abstraction, masked stores -> "
      "Piecewise) as expressions in a SYMBOLIC angular exponent n and proven equal to d/dx and d2/dx2 of x^n exp(-a x^2) for n=0, "
      "n=1 and symbolic n=N+k (N>=0), which together cover every n; in the branch selected for each n no power of the coordinate "
      "difference can have a negative exponent (exact values on centres/planes); its order classes {<=0,==1,==2} are disjoint, "
      "gap-free and routed to the matching helper for every combination. The general back-end's Leibniz/Hermite sum is partially "
      "evaluated with constant formula parameters (orders 0..4 x n 0..6, the term index enumerated; x and a symbolic) and equals the "
      "same definition, with no surviving negative power. The direct back-end is dominated by a raising guard that excludes exactly "
      "the orders its classes do not cover, the deriv_type dispatch ends in a raising else, both back-ends receive the shell's own "
      "attributes, and the wrappers forward orders/deriv_type on all branches. Both back-ends equal the definition, hence each "
      "other. Machine-precision accuracy is not decided; the general back-end claim is bounded by the enumerated (m, n).",
      "Trusted: sympy diff/simplify; scipy comb/perm/eval_hermite are the binomial, falling factorial and Hermite polynomial; "
      "`if mask.any()` guards analysed as taken (component array of a full shell).",
      "DESIGN.md 2.4, 2.6, 3 (C05)")

claim("C06",
      "abstract interpretation in a Leibniz term algebra (formal sums of G(p,q)) + path/normal-form rule for the threshold",
      "density.py is interpreted in a formal term algebra: orbital-level plumbing (P.dot(B(q))*B(p), sums over the orbital axis, the "
      "Hessian's full/tensordot/einsum/swapaxes/triu pipeline with labelled axes) yields for each routine a formal sum of "
      "G(p,q) = d1^p d2^q gamma atoms, compared with its definition: density G(0,0); reduced-density-matrix derivative G(p,q); "
      "gradient R(e_k) as (points,3); Laplacian sum_k R(2e_k); Hessian R(e_a+e_b), symmetric, trace = Laplacian; posdef KED 1/2 sum_k "
      "G(e_k,e_k); general KED = posdef + alpha LAP with the alpha != 0 guard at a root of its coefficient; evaluate_deriv_density(L) "
      "= Leibniz expansion for all 125 order triples with components 0..4 (decides the l_x shortcut and its factor 1/2), orders "
      "above 2 routed to the general back-end for BOTH order vectors; orbital arrays have object identity, so in-place writes (`x *= ..`, `out=x`) are seen through every alias. The two threshold checks raise exactly when some value is negative with magnitude above the threshold - the checking code touches values only through comparisons, abs, selections and min/max, so it is decided by enumerating every ordering of up to three values against 0 and +-threshold "
      "(finite-orderings argument) and otherwise return clip(min=0) of the checked array (scaled by 1/2 for "
      "the KED); transform/deriv_type are forwarded at all internal call sites. Values that went through a non-linear operation (a clipping routine, clip/abs/maximum, an orbital selection derived from the density matrix) are marked and equal no defining sum, except the clipped t+ inside the general kinetic-energy density; result buffers must not take their dtype from the points (PITFALL). 'To rounding error' and non-negativity for PSD "
      "matrices are numerical and not decided; orders bounded at 4 per axis for the Leibniz rule.",
      "Composed: the rules of C05 are run inside this check (prefix C05/): densities are products of the evaluated orbitals and derivatives. Trusted: evaluate_basis/evaluate_deriv_basis return arrays with axes (orbitals, points); "
      "G(p,q)=G(q,p) for symmetric P; sympy.",
      "DESIGN.md 2.5, 2.6, 3 (C06)")

claim("C15",
      "abstract interpretation in a Leibniz term algebra over Q[alpha,beta] with a guard-root rule",
      "The three functions of stress_tensor.py are interpreted in the formal algebra generated by G(p,q) with alpha, beta symbolic "
      "(loops over np.identity(3) unrolled as constants). The extracted sigma_ij equals the documented -alpha G(e_i,e_j) + (1-alpha) "
      "G(e_i+e_j,0) - 1/2 delta_ij beta LAP and is symmetric; the extracted force equals minus the divergence of the EXTRACTED sigma "
      "and the extracted Hessian the Jacobian of the EXTRACTED force, derived with d_k G(p,q) = G(p+e_k,q)+G(p,q+e_k), so the "
      "relations do not rest on a transcription of the expanded formulas; symmetric=True is (H+H^T)/2; every guarded update (14) has "
      "a coefficient with a root at its special-cased parameter value, so skipping it is exact; output layouts (points,3[,3]); "
      "one_density_matrix, basis, points, transform forwarded at all 14 call sites. Holds for all real alpha, beta. Nothing "
      "numerical is claimed; that G, R, LAP are what the density routines return is decided by running C06's rules for the routines called here (and through C06, C05's) inside this check (prefixes C06/, C06/C05/).",
      "Trusted: Leibniz laws of the term algebra; what C06/C05 trust; sympy expand/simplify on polynomials in alpha, beta.",
      "DESIGN.md 2.5, 3 (C15)")

_KERNEL_NOTE = ("Trusted: the Obara-Saika/HGP recurrences as written in DESIGN.md 2.2 (target-relative form in gbsa/stencil_spec.py); numpy "
                "indexing/broadcasting semantics as modelled by the label-carrying evaluator gbsa/stencil.py; sympy simplify; assembly is C09's. "
                "COVER (that every table entry reaching the result is computed - a deleted recursion step is not a wrong store) is decided by replaying the "
                "extracted index regions of stores/loads/gathers for all size parameters up to 3 (2 for the ERI kernel; 4 in the thorough tier): bounded in the sizes. "
                "A recursion step written as a common part followed by in-place increments on sub-slices is checked region by region (sum of the parts covering each region).")

claim("C01",
      "recurrence (stencil) extraction + coefficient-wise conformance by computer algebra; axis-provenance typing of the kernel; closed-form check of the norms",
      "A label-carrying symbolic evaluator runs Overlap.construct_array_contraction through its private call chain on symbolic shells (never "
      "executing it): each store into the recursion table becomes a stencil (offsets of the table references from the target index, "
      "coefficients as sympy expressions in the centres/exponents, np.arange factors resolved to the target index, the loop index kept "
      "symbolic) and is compared term by term with the Obara-Saika start value and steps Sa/Sb - so the claim covers every angular "
      "momentum; each table axis is driven by one centre and is later selected with that shell's component list; primitives are "
      "contracted once with their own shell's coefficients and primitive norms; the kernel's axes are (M_1, L_1, M_2, L_2). A "
      "stability lint rejects start values/coefficients that cancel squares of absolute positions. norm_prim_cart equals "
      "(int g^2)^(-1/2) by computer algebra; the contraction norm is the -1/2 power of the 'ijij' diagonal of the shell's own overlap "
      "block, decided on the value that is finally stored in norm_cont; OverlapAsymmetric reuses the same kernel object. The public wrapper(s) are covered too: parameters are used as given on every path (no filtered, re-ordered, scaled or defaulted copy; INPUTS), the Cartesian / spherical / mixed / transformed routes are dispatched through the four assembly methods with identical keywords (DISPATCH), and every return of the kernel chain derives from the recursion (MPT). The 1e-8 accuracy claim itself is numerical and not decided.",
      _KERNEL_NOTE, "DESIGN.md 2.1, 2.2, 2.4, 3 (C01)")

claim("C02",
      "recurrence (stencil) extraction + conformance; padding/validity inequality; must-pass-through rule",
      "Same engine on the kinetic-energy chain: the five stores of the derivative table conform to D[k] = 2 alpha_a D[k-1,i+1] - i "
      "D[k-1,i-1] with the exponent of the FIRST shell; order 0 is the overlap table of (A, alpha) vs (B, beta) padded by the maximum "
      "order, and the returned cut satisfies size >= cut + max order symbolically (every entry read is still valid after that many "
      "steps); the returned expression is -1/2 times the sum over exactly {2e_x, 2e_y, 2e_z} of x/y/z products selected with the "
      "shells' own components, contracted once per shell, axes (M_1, L_1, M_2, L_2); every return of the kernel and of the private "
      "functions under it is derived from the recursion (no data-dependent early return); table entries are stored once, never rescaled or masked afterwards. The public wrapper(s) are covered too: parameters are used as given on every path (no filtered, re-ordered, scaled or defaulted copy; INPUTS), the Cartesian / spherical / mixed / transformed routes are dispatched through the four assembly methods with identical keywords (DISPATCH), and every return of the kernel chain derives from the recursion (MPT). Accuracy is not decided.",
      _KERNEL_NOTE, "DESIGN.md 2.2, 3 (C02)")

claim("C07",
      "recurrence (stencil) extraction + conformance; axis-provenance typing; gather rule",
      "Same engine on the moment chain with a symbolic origin and order table: the eight stores that raise the moment order conform to the "
      "Obara-Saika moment recurrence (origin = the given moment centre; coupling to both angular indices and to the order); the x/y/z "
      "factors are selected with (requested order component, shell two's components, shell one's components, component) on the axes "
      "whose recursion used those centres; the order triples end up as the last axis in the given order; the table is sized by the "
      "largest requested order; arguments are validated before use. Order (0,0,0) = overlap and the binomial origin shift follow from "
      "the recurrence. The public wrapper(s) are covered too: parameters are used as given on every path (no filtered, re-ordered, scaled or defaulted copy; INPUTS), the Cartesian / spherical / mixed / transformed routes are dispatched through the four assembly methods with identical keywords (DISPATCH), and every return of the kernel chain derives from the recursion (MPT). Accuracy is not decided.",
      _KERNEL_NOTE, "DESIGN.md 2.2, 3 (C07)")

claim("C08",
      "adjoint classification (phase analysis of return expressions + conjugation flags from the abstract assembly run) + stencil/typing of the kernels",
      "Both kernels' return expressions are classified (imaginary unit) x (real) with constant prefactor exactly -i; the abstract "
      "assembly runs show every mirrored block of the symmetric two-index fill carrying a conjugation and no un-mirrored block carrying "
      "one (adjoint fill, not in place). The momentum kernel is the first-derivative table (recurrence D, overlap start, padding) "
      "selected with rows e_x, e_y, e_z in this order as the last axis; the three stacked components of the angular-momentum kernel are, "
      "as formal products of 1-D integrals, S_k (M1_{k+1} D1_{k+2} - M1_{k+2} D1_{k+1}) with first moments about the literal coordinate "
      "origin and every factor selected with its own direction's component columns; contraction once per shell; contract K. Scalar branches over shell data are followed on both outcomes; a path that computes the momentum integrals with the two shells exchanged must restore the sign of the integration by parts (PARITY). A positive-threshold flush of an intermediate of the shared recursion is a finding (FLUSH). The public wrapper(s) are covered too: parameters are used as given on every path (no filtered, re-ordered, scaled or defaulted copy; INPUTS), the Cartesian / spherical / mixed / transformed routes are dispatched through the four assembly methods with identical keywords (DISPATCH), and every return of the kernel chain derives from the recursion (MPT). Exactness as "
      "numbers is not decided.",
      _KERNEL_NOTE + " Hermiticity of -i grad and -i r x grad in exact arithmetic.", "DESIGN.md 2.2, 2.8, 3 (C08)")

claim("C03",
      "recurrence (stencil) extraction + conformance for both orientations; gather rule through composed table views; formula check with numeric refutation for the Boys wrapper",
      "Same engine on the point-charge chain, run for both outcomes of the L_a >= L_b swap: the start value (Boys order = the m index, argument "
      "p|P-C|^2, prefactor 2pi/p, exp(-mu|A-B|^2)), the six vertical and three horizontal stores conform to the Obara-Saika / transfer "
      "recurrences for x, y, z with symbolic l; the contraction between them is once per shell with that shell's coefficients and "
      "(2a/pi)^(3/4)(4a)^(l/2) at m = 0; through the two composed transposes the final selection indexes every table axis with the exponent "
      "column of the shell and direction that axis counts, segment and charge axes by identity; the result is -q times that times both "
      "shells' component normalisation, charge axis last and unreduced; both branches return (M_1, L_1, M_2, L_2, N), so every a/b pair is "
      "exchanged consistently and un-swapped. boys_func is extracted as a closed form and equals 1F1(m+1/2;m+3/2;-x)/(2m+1) symbolically, "
      "else it is refuted by 40-digit evaluation of the two formulas (not of gbasis) or left undecided. The nuclear attraction sums over the "
      "charge axis with all arguments forwarded and the charge/coordinate arrays used as given (a filter may only skip zero charges); every return passes through the recursion. The public wrapper(s) are covered too: parameters are used as given on every path (no filtered, re-ordered, scaled or defaulted copy; INPUTS), the Cartesian / spherical / mixed / transformed routes are dispatched through the four assembly methods with identical keywords (DISPATCH), and every return of the kernel chain derives from the recursion (MPT). Accuracy and hyp1f1's behaviour are not decided.",
      _KERNEL_NOTE, "DESIGN.md 2.2, 3 (C03)")

claim("C04",
      "recurrence (stencil) extraction + conformance over six tables; axis-meaning propagation; gather rule; contraction normal form",
      "Same engine on the electron-repulsion chain, both dispatch branches: the thirty stores of the six recursion tables conform to the start "
      "value, the vertical, electron-transfer and horizontal (to shell 4 and to shell 2) recurrences for x, y and z; the meaning of every "
      "table axis (shell, direction | component list | segment) is propagated through the initialisation stores, and each index array of "
      "the four component selections must be the exponent column of exactly the shell/direction its axis counts, component-list axes "
      "paired by identity; primitives are contracted once per shell with that shell's coefficients and exponent normalisation; the final "
      "component normalisation covers all four shells once; the kernel returns (M_1, L_1, ..., M_4, L_4). The all-s closed form equals "
      "the same start value at m = 0, contracted once per shell, and is dispatched exactly when all four l are 0. notation is validated and "
      "the physicists' array is the chemists' with axes (0,2,1,3). The public wrapper(s) are covered too: parameters are used as given on every path (no filtered, re-ordered, scaled or defaulted copy; INPUTS), the Cartesian / spherical / mixed / transformed routes are dispatched through the four assembly methods with identical keywords (DISPATCH), and every return of the kernel chain derives from the recursion (MPT). The 1e-6-of-Schwarz accuracy and the electron transfer's "
      "ill-conditioning are numerical and not decided.",
      _KERNEL_NOTE, "DESIGN.md 2.2, 3 (C04)")

claim("C12",
      "computer algebra on extracted recurrence stencils (shift invariance, cancellation lint), sibling comparison of the written-out x/y/z passes, closure of literal tables",
      "From the stencils extracted for every recursion kernel: each start value and coefficient is invariant under a common shift of all centres "
      "(shell centres, point charges, moment origin) - by induction every table entry is translation invariant in exact arithmetic - and no "
      "sum cancels terms quadratic in absolute positions (a floating-point translation lint). The written-out x, y and z passes of the one- "
      "and two-electron recursions have identical signatures (offsets relative to the incremented axis, coefficients with the component "
      "made generic, each pass using a single component): mutual consistency rather than conformance, so this check fires only when "
      "covariance under axis permutations itself is broken. The separable kernels never single out a component; the literal order tables of "
      "kinetic energy, momentum, density gradient and Laplacian are closed/equivariant under the six coordinate permutations; both "
      "evaluation back-ends depend on point minus centre only; the angular momentum's moments are about the literal origin; no approximate "
      "comparison of centres (np.isclose/np.allclose, whose relative tolerance scales with the distance from the origin) selects between formulas; "
      "data-dependent scalar branches inside kernels are explored both ways. Reflections, "
      "general rotations, the representation matrices of spherical shells and all numerical equalities are not decided.",
      _KERNEL_NOTE, "DESIGN.md 2.2, 3 (C12)")

claim("C13",
      "normal-form analysis of the kernels' symbolic return values (multilinearity), axis-use discipline lint (KSEP), assembly typing",
      "For all nine kernel runs (both orientations / dispatch branches included) the symbolic return value contains each shell's coefficient "
      "matrix exactly once, inside the contraction over that shell's own primitive axis with exponent-only factors, and the segment axis of "
      "each shell is the free index directly before its component axis: blocks are multilinear in the coefficients and a generalized shell "
      "is the union of its columns in order. No primitive axis is ever indexed, sliced or partially reduced (events logged by the "
      "evaluator; a boolean selection of primitives is accepted only when it drops primitives whose coefficients are all zero; no unbuffered accumulation through np.unique's inverse), the screening uses exponents through min() only, the evaluation back-ends use the coefficients once in "
      "tensordot(...,(0,0)) and only broadcast the exponents: invariance under reordering and splitting primitives. The contraction norm "
      "is exactly the -1/2 power of the shell's own overlap diagonal, decided on the value finally stored (degree-0 homogeneity in each column); assembly applies it once per index "
      "before the spherical transform and flattens segment-major. Scale invariance over 12 orders of magnitude as a floating-point "
      "statement is not decided.",
      _KERNEL_NOTE, "DESIGN.md 3 (C13)")

claim("C16",
      "axis-provenance typing of the kernels and assemblies + closed-form sibling comparison + composition of the exactness checks of both halves",
      "Decided: (1) the structural premise - both halves of the library obtain primitive norms, component order, contraction "
      "norms and the Cartesian->spherical matrix from the same shell API and apply them identically - the overlap, moment and kinetic-energy kernel runs (the operators the property names) are "
      "well-typed with type K (a wrong shell's attribute in a slot is a provenance mismatch), both evaluation back-ends receive the "
      "shell's own attributes in matching slots, the one-index and two-index assemblies satisfy the same per-index contract A, and "
      "norm_prim_cart is symbolically the closed form that the one-/two-electron kernels apply in two pieces. (2) exactness of each half, by running inside this check the rules of C01, C02, C07 (integral side), "
      "C05 for orders <= 1 and C06 for the density and the positive-definite kinetic-energy density (evaluation side): integrating exact evaluations reproduces exact integrals, and a defect on one "
      "side only breaks the agreement. The quadrature statement "
      "itself (numerical agreement of integrated evaluations with the analytic integrals) is NOT decided by this family.",
      _KERNEL_NOTE, "DESIGN.md 3 (C16), 4")

na("C10", "quantifies over the numerical values of the transformation matrices (harmonicity, orthonormality, phases for every l<=10); "
          "no clause is visible in the shape of the code - deciding it means computing the matrices, which is not static analysis")
na("C17", "positive semi-definiteness and Schwarz inequalities are numerical consequences of exact integrals; no structural clause exists")

_pending = "check not built yet in this round (design in DESIGN.md section 3); not claimed until its rules run"
for _p in ["C01", "C02", "C03", "C04", "C05", "C06", "C07", "C08", "C09", "C11", "C12", "C13", "C14", "C15", "C16", "C18", "C20"]:
    if _p not in CLAIMED:
        na(_p, _pending)
