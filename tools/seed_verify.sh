#!/bin/bash
# usage: seed_verify.sh <PID> <A|B> [srcdir] [stored-letter]   - confirm an agent's seeded change myself and keep it under /verif/seeded/
# Confirms: patch applies to /repo HEAD; demo passes without it and fails with it; the unedited suite passes with it.
set -u
PID=$1; L=$2; SRC=${3:-/tmp/wt_$PID}
OL=${4:-$L}
ID="${PID}${OL}"
WT=/tmp/sv_$ID
OUT=/verif/seeded/$ID
rm -rf "$WT"; git -C /repo worktree prune
git -C /repo worktree add -q --detach "$WT" HEAD || exit 3
cp "$SRC/demo$L.py" "$WT/demo.py"
cd "$WT"
PYTHONPATH=$WT /venv/bin/python demo.py > /tmp/sv_$ID.clean.log 2>&1; clean=$?
if ! git apply "$SRC/patch$L.diff"; then echo "$ID: PATCH DOES NOT APPLY"; git -C /repo worktree remove --force "$WT"; exit 3; fi
PYTHONPATH=$WT /venv/bin/python demo.py > /tmp/sv_$ID.patched.log 2>&1; patched=$?
suite=$(PYTHONPATH=$WT /venv/bin/python -m pytest -q -p no:cacheprovider --timeout=900 2>&1 | tail -1)
where=$(PYTHONPATH=$WT /venv/bin/python -c "import gbasis; print(gbasis.__file__)" 2>/dev/null)
cd /
git -C /repo worktree remove --force "$WT"
ok=no
case "$suite" in *"192 passed"*) if [ $clean -eq 0 ] && [ $patched -ne 0 ]; then ok=yes; fi;; esac
echo "$ID: demo clean=$clean patched=$patched suite='$suite' import=$where confirmed=$ok"
if [ $ok = yes ]; then
  mkdir -p "$OUT"
  cp "$SRC/patch$L.diff" "$OUT/patch.diff"; cp "$SRC/demo$L.py" "$OUT/demo.py"
  python3 - "$SRC/meta$L.json" "$OUT/meta.json" "$PID" "$suite" <<'PY'
import json, sys
src, dst, pid, suite = sys.argv[1:5]
try:
    m = json.load(open(src))
except Exception:
    m = {}
m["property"] = pid
m["confirmed_by_me"] = {
    "what_i_ran": "tools/seed_verify.sh: fresh worktree of /repo HEAD; demo.py exit 0 without the patch; git apply patch.diff; "
                  "demo.py exit != 0 with it; full unedited pytest suite with the patch",
    "suite_with_patch": suite,
}
json.dump(m, open(dst, "w"), indent=1)
PY
  tail -3 /tmp/sv_$ID.patched.log > "$OUT/demo_output_with_patch.txt"
fi
rm -f /tmp/sv_$ID.clean.log /tmp/sv_$ID.patched.log
