#!/usr/bin/env python3
"""Regenerate /verif/MANIFEST.json from the table below (kept in one place so that the manifest,
the claimed checks and the not_applicable list never drift apart)."""
import json
import os

HERE = os.path.dirname(os.path.dirname(os.path.abspath(__file__)))

# property -> dict(text, note, technique, design)  for claimed checks
CLAIMED = {}
NOT_APPLICABLE = {}


def claim(pid, technique, text, note, design):
    CLAIMED[pid] = dict(technique=technique, text=text, note=note, design=design)


def na(pid, reason):
    NOT_APPLICABLE[pid] = reason


exec(open(os.path.join(HERE, "tools", "claims.py")).read())

# properties whose statement implies another property run that property's rules inside their own check (rule prefix `<ID>/`, evidence
# coverage.composed); DESIGN.md 10.9, 10.12
COMPOSED = {
    "C01": "C09 restricted to the two-index symmetric and asymmetric assembly (the property is stated for Cartesian, spherical, mixed and transformed bases)",
    "C02": "C09 restricted to the two-index symmetric assembly", "C03": "C09 restricted to the two-index symmetric assembly",
    "C04": "C09 restricted to the four-index assembly", "C05": "C09 restricted to the one-index assembly",
    "C07": "C09 restricted to the two-index symmetric assembly", "C08": "C09 restricted to the two-index symmetric assembly",
    "C09": "the transform-forwarding (FWD) rules of C06, C14 and C15 (`every quantity`)",
}
for _pid in ("C01", "C02", "C03", "C04", "C05", "C06", "C07", "C08", "C14", "C15", "C18", "C20"):
    COMPOSED[_pid] = (COMPOSED.get(_pid, "") + "; " if _pid in COMPOSED else "") + \
        "the persistent-state rules of C19 (E3 caches / memoising decorators, E5, per-instance attribute caches) for the modules this property's quantities are computed in"
for _pid, _what in COMPOSED.items():
    if _pid in CLAIMED:
        CLAIMED[_pid]["text"] += " Composed into this check: " + _what + "."

BASELINE = ("cd /repo && /venv/bin/python -m pytest -ra -q -p no:cacheprovider --timeout=900 "
            "--continue-on-collection-errors")

manifest = {
    "version": 1,
    "setup_cmd": "python3-vt -c \"import ast, sympy, networkx; print('gbsa: nothing to build')\"",
    "hooks": {
        "guard": "GBASIS_VERIF",
        "enable": "no source hooks: the checks are static analyses that parse /repo's working tree; GBASIS_VERIF is reserved and unused",
        "baseline_off_cmd": BASELINE,
        "source_commits": [],
        "add_only": True,
    },
    "engines": [
        {"name": "gbsa", "path": "gbsa/", "serves_properties": sorted(CLAIMED),
         "kind_free_text": "repository-specific static analyses over Python ast (python3-vt, sympy as normal-form engine): "
                           "EFFECTS alias/mutation summaries, FLOW dispatch/guard/slice rules, PARSE regex-AST rules, HERM adjoint "
                           "classes, AXTYPE axis-provenance abstract interpretation, STENCIL recurrence extraction, FORMULA closed "
                           "forms vs calculus, TERMALG Leibniz term algebra"}
    ],
    "checks": [],
    "not_applicable": [{"property_id": p, "reason": r} for p, r in sorted(NOT_APPLICABLE.items())],
    "notes": "Technique family: static analysis. Every check parses /repo's current source on every run, never imports or "
             "runs gbasis, and reports file:line + rule + construct. Exit 0 = all obligations discharged, 1 = VIOLATION, "
             "2 = ANALYSIS-ERROR (anchor missing / unknown construct / count under floor). Fix commits in /repo and the "
             "findings they repaired are listed in known_findings.txt; probes in findings/.",
}
for pid in sorted(CLAIMED):
    c = CLAIMED[pid]
    manifest["checks"].append({
        "property_id": pid,
        "quick_cmd": f"./check {pid} --tier quick",
        "thorough_cmd": f"./check {pid} --tier thorough",
        "evidence_file": f"/verif/evidence/{pid}.json",
        "replay_cmd_template": f"./check {pid} --replay {{path}}",
        "engine": "gbsa",
        "level_claimed": {"category": "other", "text": c["text"], "design_ref": c["design"]},
        "level_note": c["note"],
        "technique": c["technique"],
    })
with open(os.path.join(HERE, "MANIFEST.json"), "w") as fh:
    json.dump(manifest, fh, indent=1)
print("claimed:", sorted(CLAIMED), "n/a:", sorted(NOT_APPLICABLE))
