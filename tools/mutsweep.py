#!/usr/bin/env python3
"""Mutation sweep of the *verifier*: generate standard small mutants of gbasis (statement deletion, operator / comparison swaps, off-by-one
constants), keep those that the repository's own tests do not kill, and run every claimed check on the survivors.  A survivor on which all
checks are silent is either an equivalent mutant or a gap in the checks: the list is for triage (tools/mutsweep_triage.md).

Works on scratch copies under /tmp only; nothing is written to /repo.  Usage:
    python3 tools/mutsweep.py gen  > /tmp/mutants.jsonl
    python3 tools/mutsweep.py run /tmp/mutants.jsonl /tmp/mutsweep_out.jsonl [--jobs 16]
"""
import ast
import json
import os
import random
import shutil
import subprocess
import sys
import tempfile
from concurrent.futures import ThreadPoolExecutor

REPO = "/repo"
VERIF = os.path.dirname(os.path.dirname(os.path.abspath(__file__)))
FILES = [
    "gbasis/base.py", "gbasis/base_one.py", "gbasis/base_two_symm.py", "gbasis/base_two_asymm.py", "gbasis/base_four_symm.py",
    "gbasis/contractions.py", "gbasis/utils.py", "gbasis/parsers.py", "gbasis/wrappers.py",
    "gbasis/evals/_deriv.py", "gbasis/evals/density.py", "gbasis/evals/electrostatic_potential.py", "gbasis/evals/eval.py", "gbasis/evals/eval_deriv.py",
    "gbasis/evals/stress_tensor.py",
    "gbasis/integrals/_diff_operator_int.py", "gbasis/integrals/_moment_int.py", "gbasis/integrals/_one_elec_int.py", "gbasis/integrals/_two_elec_int.py",
    "gbasis/integrals/angular_momentum.py", "gbasis/integrals/electron_repulsion.py", "gbasis/integrals/kinetic_energy.py", "gbasis/integrals/moment.py",
    "gbasis/integrals/momentum.py", "gbasis/integrals/nuclear_electron_attraction.py", "gbasis/integrals/overlap.py", "gbasis/integrals/overlap_asymm.py",
    "gbasis/integrals/point_charge.py",
]
CHECKS = ["C01", "C02", "C03", "C04", "C05", "C06", "C07", "C08", "C09", "C11", "C12", "C13", "C14", "C15", "C16", "C18", "C19", "C20"]


def gen():
    rnd = random.Random(20260928)
    out = []
    for rel in FILES:
        src = open(os.path.join(REPO, rel)).read()
        tree = ast.parse(src)
        lines = src.split("\n")
        offs = [0]
        for l in lines:
            offs.append(offs[-1] + len(l) + 1)

        def pos(n):
            return offs[n.lineno - 1] + n.col_offset, offs[n.end_lineno - 1] + n.end_col_offset

        cands = {"D": [], "O": [], "C": [], "S": []}
        for fn in ast.walk(tree):
            if not isinstance(fn, (ast.FunctionDef,)):
                continue
            for n in ast.walk(fn):
                if isinstance(n, (ast.Assign, ast.AugAssign)) or (isinstance(n, ast.Expr) and isinstance(n.value, ast.Call)):
                    a, b = pos(n)
                    cands["D"].append((a, b, "pass", "delete"))
                if isinstance(n, ast.BinOp) and isinstance(n.op, (ast.Add, ast.Sub, ast.Mult, ast.Div)):
                    # the operator token lies between left and right
                    la, lb = pos(n.left)
                    ra, rb = pos(n.right)
                    mid = src[lb:ra]
                    sym = {ast.Add: "+", ast.Sub: "-", ast.Mult: "*", ast.Div: "/"}[type(n.op)]
                    new = {"+": "-", "-": "+", "*": "/", "/": "*"}[sym]
                    if mid.count(sym) == 1 and "**" not in mid and "//" not in mid:
                        k = lb + mid.index(sym)
                        cands["O"].append((k, k + 1, new, f"{sym}->{new}"))
                if isinstance(n, ast.Constant) and isinstance(n.value, int) and not isinstance(n.value, bool) and 0 <= n.value <= 3:
                    a, b = pos(n)
                    for nv in ({0: [1], 1: [0, 2], 2: [1, 3], 3: [2]}[n.value]):
                        cands["C"].append((a, b, str(nv), f"{n.value}->{nv}"))
                if isinstance(n, ast.Compare) and len(n.ops) == 1:
                    la, lb = pos(n.left)
                    ra, rb = pos(n.comparators[0])
                    mid = src[lb:ra]
                    table = {ast.Lt: ("<", "<="), ast.LtE: ("<=", "<"), ast.Gt: (">", ">="), ast.GtE: (">=", ">"), ast.Eq: ("==", "!="), ast.NotEq: ("!=", "==")}
                    if type(n.ops[0]) in table:
                        sym, new = table[type(n.ops[0])]
                        if mid.count(sym) == 1:
                            k = lb + mid.index(sym)
                            cands["S"].append((k, k + len(sym), new, f"{sym}->{new}"))
        quota = {"D": 10 ** 6, "O": int(os.environ.get("MUT_QUOTA", 30)), "C": int(os.environ.get("MUT_QUOTA", 30)), "S": 10 ** 6}
        for kind, lst in cands.items():
            lst = sorted(set(lst))
            if len(lst) > quota[kind]:
                lst = sorted(rnd.sample(lst, quota[kind]))
            for a, b, new, what in lst:
                mutated = src[:a] + new + src[b:]
                try:
                    compile(mutated, rel, "exec")
                except SyntaxError:
                    continue
                line = src.count("\n", 0, a) + 1
                out.append(dict(id=f"{os.path.basename(rel)}:{line}:{kind}:{what}:{a}", file=rel, start=a, end=b, new=new, kind=kind, what=what, line=line,
                                old=src[a:b][:120]))
    for m in out:
        print(json.dumps(m))


def gen2():
    """typo-like mutants: sibling-name swaps (_a/_b, _one/_two, x/y/z suffixes), axis=k changes, slice-bound changes, argument swaps"""
    import re
    rnd = random.Random(20260929)
    out = []
    for rel in FILES:
        src = open(os.path.join(REPO, rel)).read()
        tree = ast.parse(src)
        lines = src.split("\n")
        offs = [0]
        for l in lines:
            offs.append(offs[-1] + len(l) + 1)

        def pos(n):
            return offs[n.lineno - 1] + n.col_offset, offs[n.end_lineno - 1] + n.end_col_offset
        cands = {"V": [], "A": [], "L": [], "G": []}
        for fn in ast.walk(tree):
            if not isinstance(fn, ast.FunctionDef):
                continue
            names = {n.id for n in ast.walk(fn) if isinstance(n, ast.Name)} | {a.arg for a in fn.args.args}
            for n in ast.walk(fn):
                if isinstance(n, ast.Name) and isinstance(n.ctx, ast.Load):
                    for a_, b_ in (("_a", "_b"), ("_b", "_a"), ("_one", "_two"), ("_two", "_one"), ("_c", "_d"), ("_d", "_c"), ("_x", "_y"), ("_y", "_z"), ("_z", "_x"),
                                   ("_1", "_2"), ("_2", "_1")):
                        if n.id.endswith(a_) and n.id[: -len(a_)] + b_ in names:
                            a, b = pos(n)
                            cands["V"].append((a, b, n.id[: -len(a_)] + b_, f"{n.id}->{n.id[:-len(a_)] + b_}"))
                if isinstance(n, ast.keyword) and n.arg == "axis" and isinstance(n.value, ast.Constant) and isinstance(n.value.value, int):
                    a, b = pos(n.value)
                    for nv in (n.value.value + 1, n.value.value - 1):
                        cands["A"].append((a, b, str(nv), f"axis {n.value.value}->{nv}"))
                if isinstance(n, ast.Slice):
                    for part, nm in ((n.lower, "lower"), (n.upper, "upper")):
                        if isinstance(part, ast.Constant) and isinstance(part.value, int):
                            a, b = pos(part)
                            cands["L"].append((a, b, str(part.value + 1), f"slice {nm} {part.value}->{part.value + 1}"))
                        if isinstance(part, ast.UnaryOp) and isinstance(part.op, ast.USub) and isinstance(part.operand, ast.Constant):
                            a, b = pos(part)
                            cands["L"].append((a, b, str(-(part.operand.value + 1)), f"slice {nm} -{part.operand.value}->-{part.operand.value + 1}"))
                if isinstance(n, ast.Call) and len(n.args) >= 2 and not any(isinstance(x, ast.Starred) for x in n.args):
                    # swap two adjacent positional arguments
                    k = rnd.randrange(len(n.args) - 1)
                    a1, b1 = pos(n.args[k])
                    a2, b2 = pos(n.args[k + 1])
                    if b1 <= a2 and src[a1:b1] != src[a2:b2]:
                        cands["G"].append((a1, b2, src[a2:b2] + src[b1:a2] + src[a1:b1], f"swap args {k},{k + 1}"))
        q_ = os.environ.get("MUT_QUOTA")
        quota = {"V": 40, "A": 20, "L": 30, "G": 25} if q_ is None else {"V": int(q_), "A": int(q_), "L": int(q_), "G": int(q_)}
        for kind, lst in cands.items():
            lst = sorted(set(lst))
            if len(lst) > quota[kind]:
                lst = sorted(rnd.sample(lst, quota[kind]))
            for a, b, new, what in lst:
                mutated = src[:a] + new + src[b:]
                try:
                    compile(mutated, rel, "exec")
                except SyntaxError:
                    continue
                line = src.count("\n", 0, a) + 1
                out.append(dict(id=f"{os.path.basename(rel)}:{line}:{kind}:{what}:{a}", file=rel, start=a, end=b, new=new, kind=kind, what=what, line=line,
                                old=src[a:b][:120]))
    for m in out:
        print(json.dumps(m))


def import_closure():
    """test file -> set of gbasis modules it (transitively) imports"""
    mods = {}
    for root, _d, fs in os.walk(os.path.join(REPO, "gbasis")):
        for f in fs:
            if f.endswith(".py"):
                p = os.path.join(root, f)
                rel = os.path.relpath(p, REPO)
                name = rel[:-3].replace("/", ".")
                if name.endswith(".__init__"):
                    name = name[: -len(".__init__")]
                mods[name] = rel

    def imports(path):
        out = set()
        try:
            tree = ast.parse(open(path).read())
        except SyntaxError:
            return out
        for n in ast.walk(tree):
            if isinstance(n, ast.ImportFrom) and n.module and n.module.startswith("gbasis"):
                out.add(n.module)
                for a in n.names:
                    out.add(n.module + "." + a.name)
            if isinstance(n, ast.Import):
                for a in n.names:
                    if a.name.startswith("gbasis"):
                        out.add(a.name)
        return {m for m in out if m in mods}
    direct = {m: imports(os.path.join(REPO, rel)) for m, rel in mods.items()}
    clo = {}
    for m in mods:
        seen, work = set(), [m]
        while work:
            x = work.pop()
            if x in seen:
                continue
            seen.add(x)
            work.extend(direct.get(x, ()))
        clo[m] = seen
    tests = {}
    for f in sorted(os.listdir(os.path.join(REPO, "tests"))):
        if f.startswith("test_") and f.endswith(".py"):
            ms = set()
            for m in imports(os.path.join(REPO, "tests", f)):
                ms |= clo.get(m, {m})
            tests[f] = {mods[m] for m in ms if m in mods}
    return tests


PHASE = "both"


def run_one(args):
    m, tests_for = args
    d = tempfile.mkdtemp(prefix="mutsweep.")
    try:
        shutil.copytree(os.path.join(REPO, "gbasis"), os.path.join(d, "gbasis"), ignore=shutil.ignore_patterns("__pycache__"))
        os.symlink(os.path.join(REPO, "tests"), os.path.join(d, "tests"))
        p = os.path.join(d, m["file"])
        src = open(p).read()
        open(p, "w").write(src[: m["start"]] + m["new"] + src[m["end"]:])
        env = dict(os.environ, PYTHONPATH=d, PYTHONDONTWRITEBYTECODE="1")
        base = os.path.basename(m["file"])[:-3].lstrip("_")
        files = tests_for.get(m["file"], [])
        files = sorted(files, key=lambda f: (0 if base in f else 1, f))
        res = dict(m)
        if PHASE == "checks":
            pass  # test outcome already known (m["tests"])
        elif not files:
            res["tests"] = "no-tests"
        else:
            try:
                r = subprocess.run(["/venv/bin/python", "-m", "pytest", "-q", "-x", "-p", "no:cacheprovider", "--timeout=600"] + [os.path.join("tests", f) for f in files],
                                   cwd=d, env=env, capture_output=True, text=True, timeout=1500)
                res["tests"] = "survived" if r.returncode == 0 else "killed"
                res["tests_tail"] = r.stdout.strip().split("\n")[-1][:160]
            except subprocess.TimeoutExpired:
                res["tests"] = "timeout"
        if PHASE != "tests" and res["tests"] in ("survived", "no-tests"):
            # remove the symlink so that checks see only the package
            os.unlink(os.path.join(d, "tests"))
            out = {}
            for c in CHECKS:
                r = subprocess.run([os.path.join(VERIF, "check"), c, "--repo", d, "--no-evidence"], capture_output=True, text=True)
                rule = ""
                for l in r.stdout.split("\n"):
                    if ": [" in l:
                        rule = l.split(": [", 1)[1].split("]", 1)[0]
                        break
                    if l.startswith("ANALYSIS-"):
                        rule = l[:120]
                        break
                out[c] = [r.returncode, rule]
            res["checks"] = out
        return res
    finally:
        shutil.rmtree(d, ignore_errors=True)


def run(inp, outp, jobs):
    muts = [json.loads(l) for l in open(inp)]
    done = set()
    if os.path.exists(outp):
        done = {json.loads(l)["id"] for l in open(outp)}
    muts = [m for m in muts if m["id"] not in done]
    closure = import_closure()
    tests_for = {}
    for rel in FILES:
        tests_for[rel] = [t for t, ms in closure.items() if rel in ms]
    with open(outp, "a") as fh, ThreadPoolExecutor(max_workers=jobs) as ex:
        if PHASE == "checks":
            muts = [m for m in muts if m.get("tests") in ("survived", "no-tests")]
        for res in ex.map(run_one, [(m, tests_for) for m in muts]):
            fh.write(json.dumps(res) + "\n")
            fh.flush()


if __name__ == "__main__":
    if sys.argv[1] == "gen":
        gen()
    elif sys.argv[1] == "gen2":
        gen2()
    else:
        if "--phase" in sys.argv:
            PHASE = sys.argv[sys.argv.index("--phase") + 1]
        jobs = int(sys.argv[sys.argv.index("--jobs") + 1]) if "--jobs" in sys.argv else 16
        run(sys.argv[2], sys.argv[3], jobs)
