"""Print a python file with docstrings elided (reading aid only)."""
import ast, sys
for path in sys.argv[1:]:
    src = open(path).read()
    lines = src.split("\n")
    tree = ast.parse(src)
    drop = set()
    for node in ast.walk(tree):
        if isinstance(node, (ast.FunctionDef, ast.ClassDef, ast.Module, ast.AsyncFunctionDef)):
            b = node.body
            if b and isinstance(b[0], ast.Expr) and isinstance(b[0].value, ast.Constant) and isinstance(b[0].value.value, str):
                for l in range(b[0].lineno, b[0].end_lineno + 1):
                    drop.add(l)
    print("=== ", path)
    for i, l in enumerate(lines, 1):
        if i not in drop and l.strip():
            print(f"{i:4d} {l}")
