"""Program model shared by all analyses: parsed modules, symbol tables, classes, call graph."""
import ast
import hashlib
import os

from .report import REPO, AnalysisError

EXCLUDED = {
    # ctypes wrapper around a shared library that is absent here; its tests are skipped in the
    # baseline and no property anchors it.  Parsed for the call graph, carries no obligations.
    "gbasis.integrals.libcint": "ctypes wrapper for an absent shared library; not anchored by any property",
}


class Func:
    def __init__(self, module, node, cls=None, outer=None):
        self.module = module
        self.node = node
        self.cls = cls  # ClassInfo or None
        self.outer = outer  # enclosing Func (nested defs) or None
        self.name = node.name
        self.kind = "function"
        for d in node.decorator_list:
            t = ast.unparse(d)
            if t == "staticmethod":
                self.kind = "staticmethod"
            elif t == "classmethod":
                self.kind = "classmethod"
            elif t == "property":
                self.kind = "property"
            elif t.endswith(".setter"):
                self.kind = "setter"
            elif t == "abc.abstractmethod":
                self.abstract = True
        if cls is not None and self.kind == "function":
            self.kind = "method"

    abstract = False

    @property
    def qualname(self):
        parts = [self.module.name]
        if self.outer is not None:
            return self.outer.qualname + ".<locals>." + (
                (self.cls.name + ".") if self.cls is not None else "") + self.name
        if self.cls is not None:
            parts.append(self.cls.name)
        parts.append(self.name)
        return ".".join(parts)

    @property
    def site(self):
        q = self.qualname
        return q[len("gbasis."):] if q.startswith("gbasis.") else q

    def where(self, node=None):
        n = node if node is not None else self.node
        return f"{self.module.relpath}:{getattr(n, 'lineno', '?')}"

    @property
    def params(self):
        a = self.node.args
        return [x.arg for x in a.posonlyargs + a.args + a.kwonlyargs]

    @property
    def public(self):
        return not self.name.startswith("_") or (self.name.startswith("__") and self.name.endswith("__"))

    def __repr__(self):
        return f"<Func {self.qualname}>"


class ClassInfo:
    def __init__(self, module, node, outer=None):
        self.module = module
        self.node = node
        self.name = node.name
        self.outer = outer
        self.methods = {}  # name -> Func
        self.attrs = {}  # class-level assignments name -> ast expr
        self.base_exprs = [ast.unparse(b) for b in node.bases]
        self.bases = []  # resolved ClassInfo

    @property
    def qualname(self):
        if self.outer is not None:
            return self.outer.qualname + ".<locals>." + self.name
        return self.module.name + "." + self.name

    def mro(self):
        out = [self]
        for b in self.bases:
            for c in b.mro():
                if c not in out:
                    out.append(c)
        return out

    def lookup(self, name):
        for c in self.mro():
            if name in c.methods:
                return c.methods[name]
            if name in c.attrs:
                return c.attrs[name]
        return None

    def __repr__(self):
        return f"<Class {self.qualname}>"


class Module:
    def __init__(self, name, path, relpath, src):
        self.name = name
        self.path = path
        self.relpath = relpath
        self.src = src
        self.tree = ast.parse(src, filename=path)
        self.functions = {}  # top-level name -> Func
        self.classes = {}  # top-level name -> ClassInfo
        self.imports = {}  # local name -> ("module", modname) | ("symbol", modname, symbol)
        self.globals = {}  # module-level assigned names -> ast expr
        self.all_funcs = []  # every Func, nested ones included


class Repo:
    def __init__(self, root=None, package="gbasis"):
        self.root = root or REPO
        self.package = package
        self.modules = {}
        self.digests = {}
        pkgdir = os.path.join(self.root, package)
        if not os.path.isdir(pkgdir):
            raise AnalysisError("MODEL", f"package directory {pkgdir} not found")
        for dirpath, _dirs, files in sorted(os.walk(pkgdir)):
            for f in sorted(files):
                if not f.endswith(".py"):
                    continue
                path = os.path.join(dirpath, f)
                rel = os.path.relpath(path, self.root)
                name = rel[:-3].replace(os.sep, ".")
                if name.endswith(".__init__"):
                    name = name[: -len(".__init__")]
                src = open(path).read()
                try:
                    m = Module(name, path, rel, src)
                except SyntaxError as e:
                    raise AnalysisError("MODEL", f"cannot parse {rel}: {e}")
                self.modules[name] = m
                self.digests[rel] = hashlib.sha256(src.encode()).hexdigest()[:16]
        for m in self.modules.values():
            self._index(m)
        for m in self.modules.values():
            for c in self._all_classes(m):
                for b in c.base_exprs:
                    r = self.resolve_name(m, b)
                    if isinstance(r, ClassInfo):
                        c.bases.append(r)

    # ---- indexing
    def _all_classes(self, m):
        out = list(m.classes.values())
        for f in m.all_funcs:
            out.extend(getattr(f, "local_classes", {}).values())
        return out

    def _index(self, m):
        for node in m.tree.body:
            self._index_stmt(m, node, None, None)

    def _index_stmt(self, m, node, cls, outer):
        if isinstance(node, (ast.FunctionDef, ast.AsyncFunctionDef)):
            f = Func(m, node, cls, outer)
            m.all_funcs.append(f)
            if cls is not None:
                # property getter/setter share a name: keep getter under name, setter under name.setter
                key = node.name + (".setter" if f.kind == "setter" else "")
                cls.methods[key] = f
            elif outer is None:
                m.functions[node.name] = f
            else:
                outer.local_funcs[node.name] = f
            f.local_funcs = {}
            f.local_classes = {}
            f.local_imports = {}
            for sub in ast.walk(node):
                if isinstance(sub, ast.Import):
                    for a in sub.names:
                        f.local_imports[a.asname or a.name.split(".")[0]] = (
                            "module", a.name if a.asname else a.name.split(".")[0])
                elif isinstance(sub, ast.ImportFrom):
                    for a in sub.names:
                        f.local_imports[a.asname or a.name] = ("symbol", sub.module, a.name)
            self._index_body(m, node.body, f)
        elif isinstance(node, ast.ClassDef):
            c = ClassInfo(m, node, outer)
            if outer is None and cls is None:
                m.classes[node.name] = c
            elif outer is not None:
                outer.local_classes[node.name] = c
            for sub in node.body:
                if isinstance(sub, (ast.FunctionDef, ast.AsyncFunctionDef)):
                    self._index_stmt(m, sub, c, outer)
                elif isinstance(sub, ast.Assign):
                    for t in sub.targets:
                        if isinstance(t, ast.Name):
                            c.attrs[t.id] = sub.value
        elif isinstance(node, ast.Import) and cls is None and outer is None:
            for a in node.names:
                m.imports[a.asname or a.name.split(".")[0]] = ("module", a.name if a.asname else a.name.split(".")[0])
        elif isinstance(node, ast.ImportFrom) and cls is None and outer is None:
            for a in node.names:
                m.imports[a.asname or a.name] = ("symbol", node.module, a.name)
        elif isinstance(node, ast.Assign) and cls is None and outer is None:
            for t in node.targets:
                if isinstance(t, ast.Name):
                    m.globals[t.id] = node.value

    def _index_body(self, m, body, f):
        """Find nested defs/classes (direct or inside compound statements) of function f."""
        for node in body:
            if isinstance(node, (ast.FunctionDef, ast.AsyncFunctionDef, ast.ClassDef)):
                self._index_stmt(m, node, None, f)
            else:
                for fld in ("body", "orelse", "finalbody", "handlers"):
                    sub = getattr(node, fld, None)
                    if isinstance(sub, list):
                        stmts = []
                        for s in sub:
                            if isinstance(s, ast.ExceptHandler):
                                stmts.extend(s.body)
                            elif isinstance(s, ast.stmt):
                                stmts.append(s)
                        self._index_body(m, stmts, f)

    # ---- lookup
    def module(self, name):
        if name not in self.modules:
            raise AnalysisError("ANCHOR", f"module {name} not found")
        return self.modules[name]

    def func(self, qual):
        """'gbasis.integrals.overlap.Overlap.construct_array_contraction' or 'gbasis.parsers.parse_gbs'."""
        parts = qual.split(".")
        for k in range(len(parts), 0, -1):
            mn = ".".join(parts[:k])
            if mn in self.modules:
                m = self.modules[mn]
                rest = parts[k:]
                if len(rest) == 1 and rest[0] in m.functions:
                    return m.functions[rest[0]]
                if len(rest) == 2 and rest[0] in m.classes:
                    r = m.classes[rest[0]].lookup(rest[1])
                    if isinstance(r, ast.AST):
                        r = self.resolve_alias(m, r)
                    if isinstance(r, Func):
                        return r
                break
        raise AnalysisError("ANCHOR", f"function {qual} not found")

    def cls(self, qual):
        mn, _, cn = qual.rpartition(".")
        m = self.module(mn)
        if cn not in m.classes:
            raise AnalysisError("ANCHOR", f"class {qual} not found")
        return m.classes[cn]

    def resolve_name(self, m, dotted, func=None):
        """Resolve a dotted name used in module m (optionally inside func) to Func/ClassInfo/Module/
        ('external', 'numpy.xyz') / None."""
        parts = dotted.split(".")
        head = parts[0]
        cur = None
        f = func
        while f is not None and cur is None:
            if head in getattr(f, "local_funcs", {}):
                cur = f.local_funcs[head]
            elif head in getattr(f, "local_classes", {}):
                cur = f.local_classes[head]
            f = f.outer
        limp = None
        f = func
        while f is not None and limp is None:
            limp = getattr(f, "local_imports", {}).get(head)
            f = f.outer
        if cur is None:
            if head in m.functions and limp is None:
                cur = m.functions[head]
            elif head in m.classes and limp is None:
                cur = m.classes[head]
            elif head in m.imports or limp is not None:
                imp = limp if limp is not None else m.imports[head]
                if imp[0] == "module":
                    cur = self.modules.get(imp[1]) or ("external", imp[1])
                else:
                    src = self.modules.get(imp[1])
                    if src is None:
                        cur = ("external", imp[1] + "." + imp[2])
                    elif imp[2] in src.functions:
                        cur = src.functions[imp[2]]
                    elif imp[2] in src.classes:
                        cur = src.classes[imp[2]]
                    elif imp[1] + "." + imp[2] in self.modules:
                        cur = self.modules[imp[1] + "." + imp[2]]
                    elif imp[2] in src.globals:
                        cur = ("global", src, imp[2])
                    elif imp[2] in src.imports:
                        cur = self.resolve_name(src, imp[2])
                    else:
                        return None
            else:
                return None
        for p in parts[1:]:
            if isinstance(cur, tuple) and cur[0] == "external":
                cur = ("external", cur[1] + "." + p)
            elif isinstance(cur, Module):
                if p in cur.functions:
                    cur = cur.functions[p]
                elif p in cur.classes:
                    cur = cur.classes[p]
                elif cur.name + "." + p in self.modules:
                    cur = self.modules[cur.name + "." + p]
                else:
                    return None
            elif isinstance(cur, ClassInfo):
                r = cur.lookup(p)
                if r is None:
                    return None
                if isinstance(r, ast.AST):
                    # class attribute alias, e.g. boys_func = PointChargeIntegral.boys_func,
                    # construct_array_contraction = staticmethod(Overlap.construct_array_contraction)
                    r = self.resolve_alias(cur.module, r)
                cur = r
            else:
                return None
        return cur

    def resolve_alias(self, m, expr):
        if isinstance(expr, ast.Call) and ast.unparse(expr.func) in ("staticmethod", "classmethod") and expr.args:
            expr = expr.args[0]
        if isinstance(expr, (ast.Name, ast.Attribute)):
            return self.resolve_name(m, ast.unparse(expr))
        return None

    def subclasses(self, cls):
        out = []
        for m in self.modules.values():
            for c in self._all_classes(m):
                if c is not cls and cls in c.mro():
                    out.append(c)
        return out

    def all_functions(self, include_excluded=False):
        for m in self.modules.values():
            if m.name in EXCLUDED and not include_excluded:
                continue
            for f in m.all_funcs:
                yield f

    def concrete_overrides(self, base_cls, method):
        """All (class, Func) where a strict subclass of base_cls resolves `method` to a concrete
        (non-abstract) Func."""
        out = []
        for c in self.subclasses(base_cls):
            r = c.lookup(method)
            if isinstance(r, ast.AST):
                r = self.resolve_alias(c.module, r)
            if isinstance(r, Func) and not r.abstract:
                out.append((c, r))
        return out

    def digest_for(self, relpaths=None):
        if relpaths is None:
            return dict(self.digests)
        return {r: self.digests[r] for r in relpaths if r in self.digests}
