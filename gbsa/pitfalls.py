"""PITFALL: numpy constructs whose result silently depends on the dtype or on repeated indices of user data.

Each pattern is a definite defect whenever its trigger input occurs (integer / unsigned / complex arrays, repeated entries) and
every trigger is a legitimate input of the property that reports it; the patterns are matched on resolved names (function
parameters, results of np.unique), not on text.

  DTYPE-OUT   a result buffer takes its dtype from an input parameter: np.zeros_like(P) / np.empty(..., dtype=P.dtype).
              Integer input (e.g. integer grid points, 0/1 selection matrices) truncates every value written into it.
  CAST-IN     a transformation matrix is cast to a real dtype (np.asarray(T, dtype=float), T.astype(float)): a complex
              transformation loses its imaginary part.
  ACCUM       `x[idx] += v` with idx the inverse mapping of np.unique: numpy applies only the last of the repeated updates.
  SCATTER     results are written back through the first-occurrence indices of np.unique (return_index): repeated entries of
              the request are never filled.
  TOL-GEOM    an approximate comparison of centre coordinates (np.isclose / np.allclose / abs(d) < eps) chooses between formulas:
              the integrals jump for nearly coincident centres, and with numpy's default relative tolerance the choice depends on
              how far the centres are from the origin (translation invariance is lost).
"""
import ast

from .astutil import dotted, walk_no_nested

LIKE = {"zeros_like", "empty_like", "ones_like", "full_like"}
ALLOC = {"zeros", "empty", "ones", "full"}
CASTS = {"asarray", "ascontiguousarray", "array", "asfarray", "require", "asanyarray"}
REAL = {"float", "np.float64", "np.float32", "int", "np.int64", "np.double", "'float'", "'float64'", "'d'"}


def _np(call):
    d = dotted(call.func) or ""
    if d.startswith(("np.", "numpy.")):
        return d.split(".", 1)[1]
    return None


USER_DATA = ("points", "transform", "density_matrix", "coords", "charge", "moment_coord", "orders")


def scan_function(f):
    """-> list of (rule, node, message)"""
    out = []
    fn = f.node
    # arrays that come from the caller with a dtype of the caller's choosing (shell parameters are validated to be float)
    params = {p for p in f.params if p not in ("self", "cls") and any(u in p for u in USER_DATA)}
    rebound = {}
    for n in walk_no_nested(fn):
        if isinstance(n, ast.Assign):
            for t in n.targets:
                for x in ast.walk(t):
                    if isinstance(x, ast.Name):
                        rebound.setdefault(x.id, []).append(n)
    # names bound to outputs of np.unique
    uniq_inverse, uniq_index = set(), set()
    for n in walk_no_nested(fn):
        if isinstance(n, ast.Assign) and isinstance(n.value, ast.Call) and _np(n.value) == "unique":
            kws = {k.arg: k.value for k in n.value.keywords}
            flags = [k for k in ("return_index", "return_inverse", "return_counts") if isinstance(kws.get(k), ast.Constant) and kws[k].value is True]
            tg = n.targets[0]
            if isinstance(tg, (ast.Tuple, ast.List)) and len(tg.elts) == 1 + len(flags):
                for name_node, flag in zip(tg.elts[1:], flags):
                    if isinstance(name_node, ast.Name):
                        if flag == "return_inverse":
                            uniq_inverse.add(name_node.id)
                        elif flag == "return_index":
                            uniq_index.add(name_node.id)
    for n in walk_no_nested(fn):
        if isinstance(n, ast.Call):
            short = _np(n)
            if short in LIKE and n.args and isinstance(n.args[0], ast.Name) and n.args[0].id in params and n.args[0].id not in rebound \
                    and not any(k.arg == "dtype" for k in n.keywords):
                out.append(("DTYPE-OUT", n, f"`{ast.unparse(n)[:60]}` allocates the result with the dtype of the input `{n.args[0].id}`: integer input "
                                           "(e.g. integer grid points) truncates every value stored in it"))
            if short in ALLOC:
                for k in n.keywords:
                    if k.arg == "dtype" and isinstance(k.value, ast.Attribute) and k.value.attr == "dtype" and isinstance(k.value.value, ast.Name) \
                            and k.value.value.id in params and k.value.value.id not in rebound:
                        out.append(("DTYPE-OUT", n, f"`{ast.unparse(n)[:70]}` allocates the result with the dtype of the input `{k.value.value.id}`: an "
                                                   "integer-typed input (selection / permutation / +-1 matrix, integer points) truncates the result"))
            if short in CASTS and n.args and isinstance(n.args[0], ast.Name) and n.args[0].id in params and "transform" in n.args[0].id:
                dt = [k.value for k in n.keywords if k.arg == "dtype"] + list(n.args[1:2])
                if dt and ast.unparse(dt[0]) in REAL:
                    out.append(("CAST-IN", n, f"`{ast.unparse(n)[:70]}` casts the transformation to a real dtype: a complex transformation silently loses "
                                             "its imaginary part"))
            if isinstance(n.func, ast.Attribute) and n.func.attr == "astype" and isinstance(n.func.value, ast.Name) and n.func.value.id in params \
                    and "transform" in n.func.value.id and n.args and ast.unparse(n.args[0]) in REAL:
                out.append(("CAST-IN", n, f"`{ast.unparse(n)[:70]}` casts the transformation to a real dtype: a complex transformation silently loses its "
                                         "imaginary part"))
        if isinstance(n, ast.Call) and isinstance(n.func, ast.Name) and n.func.id == "isinstance" and len(n.args) == 2 \
                and isinstance(n.args[0], (ast.Tuple, ast.List)) and n.args[0].elts and all(isinstance(x, (ast.Name, ast.Attribute)) for x in n.args[0].elts) \
                and isinstance(n.args[1], ast.Name):
            out.append(("ISINST", n, f"`{ast.unparse(n)[:70]}` has its arguments swapped: the second argument of isinstance must be the type(s); this raises "
                                     "TypeError whenever the test is reached"))
        if isinstance(n, ast.Call) and (_np(n) in ("isclose", "allclose") or (dotted(n.func) or "") == "math.isclose"):
            txt = " ".join(ast.unparse(a) for a in n.args[:2])
            if "coord" in txt or "center" in txt or "centre" in txt or "rel_dist" in txt:
                out.append(("TOL-GEOM", n, f"`{ast.unparse(n)[:70]}` decides between formulas by an approximate comparison of centres: the result is "
                                          "discontinuous for nearly coincident centres and, through the relative tolerance, depends on the distance "
                                          "from the origin"))
        if isinstance(n, ast.AugAssign) and isinstance(n.target, ast.Subscript):
            idx_names = {x.id for x in ast.walk(n.target.slice) if isinstance(x, ast.Name)}
            hit = idx_names & uniq_inverse
            if hit:
                out.append(("ACCUM", n, f"`{ast.unparse(n)[:70]}` accumulates through the inverse mapping `{sorted(hit)[0]}` of np.unique, which repeats indices: "
                                       "numpy applies only the last update per index (use np.add.at): merged entries lose contributions"))
        if isinstance(n, ast.Assign) and any(isinstance(t, ast.Subscript) for t in n.targets):
            for t in n.targets:
                if isinstance(t, ast.Subscript):
                    idx_names = {x.id for x in ast.walk(t.slice) if isinstance(x, ast.Name)}
                    hit = idx_names & uniq_index
                    if hit:
                        out.append(("SCATTER", n, f"`{ast.unparse(n)[:70]}` writes the results back through the first-occurrence indices `{sorted(hit)[0]}` of "
                                                 "np.unique: every repeated entry of the request stays unfilled (the inverse mapping is needed)"))
    return out


def only_feeds_higher_rows(fn, node):
    """Does the branch decided by the comparison `node` only select values that end up in stores `T[k + 1, ...]` / `T[1:2, ...]`
    (first index provably >= 1) of a table?  Then an operator that requests a table with a single row on that axis (moment order 0:
    overlap, kinetic energy, momentum) cannot observe which branch was taken.  Forward slice over names, inside one function."""
    holder = None
    for st in ast.walk(fn):
        if isinstance(st, ast.If) and any(n is node for n in ast.walk(st.test)):
            holder = st
    if holder is None:
        return False
    tainted = set()
    for b in holder.body + holder.orelse:
        for x in ast.walk(b):
            if isinstance(x, (ast.Return, ast.Raise)) or (isinstance(x, (ast.Assign, ast.AugAssign)) and any(isinstance(t, ast.Subscript) for t in (x.targets if isinstance(x, ast.Assign) else [x.target]))):
                return False  # the branch itself returns / stores
            if isinstance(x, ast.Assign):
                for t in x.targets:
                    tainted |= {n.id for n in ast.walk(t) if isinstance(n, ast.Name)}
    if not tainted:
        return False

    def high_row(target, loops):
        if not isinstance(target, ast.Subscript):
            return False
        sl = target.slice
        first = sl.elts[0] if isinstance(sl, ast.Tuple) and sl.elts else sl
        if isinstance(first, ast.Slice):
            return isinstance(first.lower, ast.Constant) and isinstance(first.lower.value, int) and first.lower.value >= 1
        if isinstance(first, ast.Constant):
            return isinstance(first.value, int) and first.value >= 1
        if isinstance(first, ast.BinOp) and isinstance(first.op, ast.Add) and isinstance(first.left, ast.Name) and first.left.id in loops \
                and isinstance(first.right, ast.Constant) and isinstance(first.right.value, int):
            return loops[first.left.id] + first.right.value >= 1
        return False

    changed = True
    sinks_ok = True
    seen_use = False
    while changed:
        changed = False

        def visit(stmts, loops):
            nonlocal changed, sinks_ok, seen_use
            for st in stmts:
                if st is holder:
                    continue
                if isinstance(st, ast.For):
                    lp = dict(loops)
                    it = st.iter
                    if isinstance(st.target, ast.Name) and isinstance(it, ast.Call) and dotted(it.func) == "range" and it.args:
                        lo = it.args[0] if len(it.args) >= 2 else ast.Constant(value=0)
                        if isinstance(lo, ast.Constant) and isinstance(lo.value, int):
                            lp[st.target.id] = lo.value
                    if {n.id for n in ast.walk(st.iter) if isinstance(n, ast.Name)} & tainted:
                        sinks_ok = False
                    visit(st.body, lp)
                    continue
                if isinstance(st, (ast.If, ast.While, ast.With)):
                    test = getattr(st, "test", None)
                    if test is not None and {n.id for n in ast.walk(test) if isinstance(n, ast.Name)} & tainted:
                        sinks_ok = False
                    visit(getattr(st, "body", []), loops)
                    visit(getattr(st, "orelse", []), loops)
                    continue
                used = {n.id for n in ast.walk(st) if isinstance(n, ast.Name) and isinstance(n.ctx, ast.Load)} & tainted
                if not used:
                    continue
                seen_use = True
                if isinstance(st, ast.Assign) and len(st.targets) == 1 and isinstance(st.targets[0], ast.Subscript):
                    if not high_row(st.targets[0], loops):
                        sinks_ok = False
                elif isinstance(st, ast.Assign) and all(isinstance(t, ast.Name) for t in st.targets):
                    for t in st.targets:
                        if t.id not in tainted:
                            tainted.add(t.id)
                            changed = True
                else:
                    sinks_ok = False
        visit(fn.body, {})
        if not sinks_ok:
            return False
    return seen_use and sinks_ok


def undefined_names(f):
    """Names a function reads that nothing binds: not a parameter, not assigned / imported / looped over / caught anywhere in the
    function or an enclosing function, not a module-level name, not a builtin.  Reading one raises NameError - on whatever input
    reaches the statement (typically a branch the tests do not exercise).  -> list of (node, name)"""
    import builtins
    fn = f.node
    bound = set(dir(builtins))
    mod = f.module
    # module-level bindings
    for st in ast.walk(mod.tree) if hasattr(mod, "tree") else []:
        pass
    bound |= set(getattr(mod, "globals", {}) or {})
    tree = getattr(mod, "tree", None)
    if tree is not None:
        for st in tree.body:
            for n in ast.walk(st) if not isinstance(st, (ast.FunctionDef, ast.ClassDef, ast.AsyncFunctionDef)) else [st]:
                if isinstance(n, (ast.FunctionDef, ast.ClassDef, ast.AsyncFunctionDef)):
                    bound.add(n.name)
                elif isinstance(n, ast.Name) and isinstance(n.ctx, ast.Store):
                    bound.add(n.id)
                elif isinstance(n, (ast.Import, ast.ImportFrom)):
                    for a in n.names:
                        bound.add((a.asname or a.name).split(".")[0])
    else:
        return []

    def binds(node):
        out = set()
        a = node.args
        for x in a.posonlyargs + a.args + a.kwonlyargs:
            out.add(x.arg)
        if a.vararg:
            out.add(a.vararg.arg)
        if a.kwarg:
            out.add(a.kwarg.arg)
        for n in ast.walk(node):
            if isinstance(n, ast.Name) and isinstance(n.ctx, (ast.Store, ast.Del)):
                out.add(n.id)
            elif isinstance(n, (ast.FunctionDef, ast.ClassDef, ast.AsyncFunctionDef)) and n is not node:
                out.add(n.name)
            elif isinstance(n, (ast.Import, ast.ImportFrom)):
                for al in n.names:
                    out.add((al.asname or al.name).split(".")[0])
            elif isinstance(n, ast.ExceptHandler) and n.name:
                out.add(n.name)
            elif isinstance(n, (ast.Global, ast.Nonlocal)):
                out.update(n.names)
        return out
    # enclosing functions / classes of f (closures; a class body name is visible to nested defs only as attribute, ignore)
    chain = []
    for n in ast.walk(tree):
        if isinstance(n, (ast.FunctionDef, ast.AsyncFunctionDef)) and n is not fn and any(m is fn for m in ast.walk(n)):
            chain.append(n)
    for n in chain:
        bound |= binds(n)
    bound |= binds(fn)
    out = []
    seen = set()
    for n in walk_no_nested(fn):
        if isinstance(n, ast.Name) and isinstance(n.ctx, ast.Load) and n.id not in bound and n.id not in seen:
            seen.add(n.id)
            out.append((n, n.id))
    return out


def possibly_unbound(f):
    """Local names that are read on some path before any statement has assigned them (definite-assignment analysis over the statement
    structure; a loop body is taken to run at least once, a branch that ends in return/raise does not constrain what follows).
    -> list of (node, name)"""
    fn = f.node
    local = set()
    for n in ast.walk(fn):
        if isinstance(n, ast.Name) and isinstance(n.ctx, ast.Store):
            local.add(n.id)
    params = {x.arg for x in fn.args.posonlyargs + fn.args.args + fn.args.kwonlyargs}
    if fn.args.vararg:
        params.add(fn.args.vararg.arg)
    if fn.args.kwarg:
        params.add(fn.args.kwarg.arg)
    for n in ast.walk(fn):
        if isinstance(n, (ast.Global, ast.Nonlocal)):
            local -= set(n.names)
    out = []
    seen = set()
    TOP = None  # "every name" (after a statement that does not fall through)
    guards = []  # active (condition text, polarity) pairs
    cond_defs = {}  # name -> list of guard sets under which it was assigned
    strict_lost = set()  # names that an explicit if/else (both sides present) assigns on one side only: the shape a deleted assignment leaves
    # a condition may be re-tested later (`if t == "spherical": T = ...` ... `if t == "spherical": use T`): the second test implies the
    # first as long as nothing it mentions is reassigned in between - only conditions over names that are bound once (parameters, loop
    # targets of an enclosing loop, single assignments) are used for that
    assign_count = {}
    for n in ast.walk(fn):
        if isinstance(n, ast.Name) and isinstance(n.ctx, ast.Store):
            assign_count[n.id] = assign_count.get(n.id, 0) + 1

    def stable(test):
        return all(assign_count.get(m.id, 0) <= 1 for m in ast.walk(test) if isinstance(m, ast.Name))

    def covered(name):
        act = set(guards)
        return any(g <= act for g in cond_defs.get(name, ()))

    def uses(node, defs):
        # loads inside an expression / simple statement, nested scopes excluded (their reads happen later)
        stack = [node]
        while stack:
            x = stack.pop()
            if isinstance(x, (ast.FunctionDef, ast.AsyncFunctionDef, ast.Lambda, ast.ClassDef)) and x is not node:
                continue
            if isinstance(x, (ast.ListComp, ast.SetComp, ast.DictComp, ast.GeneratorExp)):
                # comprehension targets are bound inside
                inner = set()
                for g in x.generators:
                    inner |= {m.id for m in ast.walk(g.target) if isinstance(m, ast.Name)}
                sub_defs = defs if defs is TOP else defs | inner
                for ch in ast.iter_child_nodes(x):
                    uses(ch, sub_defs)
                continue
            if isinstance(x, ast.Name) and isinstance(x.ctx, ast.Load) and x.id in local and x.id not in params:
                if defs is not TOP and x.id not in defs and x.id in strict_lost and not covered(x.id) and (x.id, x.lineno) not in seen:
                    seen.add((x.id, x.lineno))
                    out.append((x, x.id))
            stack.extend(ast.iter_child_nodes(x))

    def targets(t):
        return {m.id for m in ast.walk(t) if isinstance(m, ast.Name) and isinstance(m.ctx, ast.Store)}

    def meet(a, b):
        if a is TOP:
            return b
        if b is TOP:
            return a
        return a & b

    def block(stmts, defs):
        for st in stmts:
            if defs is TOP:
                return TOP
            defs = stmt(st, defs)
        return defs

    def stmt(st, defs):
        if isinstance(st, (ast.Return, ast.Raise)):
            if getattr(st, "value", None) is not None:
                uses(st.value, defs)
            if isinstance(st, ast.Raise) and st.exc is not None:
                uses(st.exc, defs)
            return TOP
        if isinstance(st, (ast.Continue, ast.Break)):
            return TOP
        if isinstance(st, ast.Assign):
            uses(st.value, defs)
            for t in st.targets:
                uses(t, defs)  # loads inside subscripts / attributes of the target (comprehension scopes respected)
            new = set(defs)
            for t in st.targets:
                new |= targets(t)
            return new
        if isinstance(st, ast.AugAssign):
            uses(st.value, defs)
            if isinstance(st.target, ast.Name):
                if st.target.id in local and st.target.id not in params and st.target.id not in defs and st.target.id in strict_lost \
                        and not covered(st.target.id) and (st.target.id, st.lineno) not in seen:
                    seen.add((st.target.id, st.lineno))
                    out.append((st.target, st.target.id))
            else:
                uses(st.target, defs)
            return set(defs) | targets(st.target)
        if isinstance(st, ast.AnnAssign):
            if st.value is not None:
                uses(st.value, defs)
                return set(defs) | targets(st.target)
            return defs
        if isinstance(st, ast.If):
            uses(st.test, defs)
            txt = ast.unparse(st.test)
            ok_guard = stable(st.test)
            # a taken `a and b` makes both a and b known; an untaken `a or b` makes both known to be false
            pos_extra = [(ast.unparse(v), True) for v in st.test.values] if isinstance(st.test, ast.BoolOp) and isinstance(st.test.op, ast.And) else []
            neg_extra = [(ast.unparse(v), False) for v in st.test.values] if isinstance(st.test, ast.BoolOp) and isinstance(st.test.op, ast.Or) else []
            if ok_guard:
                guards.append((txt, True))
                guards.extend(pos_extra)
            a = block(st.body, set(defs))
            if ok_guard:
                del guards[len(guards) - 1 - len(pos_extra):]
                guards.append((txt, False))
                guards.extend(neg_extra)
            b = block(st.orelse, set(defs))
            if ok_guard:
                del guards[len(guards) - 1 - len(neg_extra):]
            if st.orelse and a is not TOP and b is not TOP:
                strict_lost.update((a | b) - (a & b) - set(defs))
                # names assigned on one side only stay usable wherever the same test is known to have the same outcome
                for side, pol in ((a, True), (b, False)):
                    other = b if pol else a
                    if side is not TOP:
                        for nm in side - (set() if other is TOP else other) - set(defs):
                            cond_defs.setdefault(nm, []).append(frozenset(guards) | {(txt, pol)})
            return meet(a, b)
        if isinstance(st, (ast.For, ast.AsyncFor)):
            uses(st.iter, defs)
            d2 = set(defs) | targets(st.target)
            a = block(st.body, d2)
            res = d2 if a is TOP else a
            if st.orelse:
                res = block(st.orelse, set(res))
            return res
        if isinstance(st, ast.While):
            uses(st.test, defs)
            a = block(st.body, set(defs))
            return set(defs) if a is TOP else a
        if isinstance(st, (ast.With, ast.AsyncWith)):
            d2 = set(defs)
            for it in st.items:
                uses(it.context_expr, d2)
                if it.optional_vars is not None:
                    d2 |= targets(it.optional_vars)
            return block(st.body, d2)
        if isinstance(st, ast.Try):
            a = block(st.body, set(defs))
            if st.orelse and a is not TOP:
                a = block(st.orelse, set(a))
            res = a
            for h in st.handlers:
                d2 = set(defs) | ({h.name} if h.name else set())
                res = meet(res, block(h.body, d2))
            if st.finalbody:
                res = block(st.finalbody, set(defs) if res is TOP else set(res))
            return res
        if isinstance(st, (ast.FunctionDef, ast.AsyncFunctionDef, ast.ClassDef)):
            return set(defs) | {st.name}
        if isinstance(st, (ast.Import, ast.ImportFrom)):
            return set(defs) | {(a.asname or a.name).split(".")[0] for a in st.names}
        if isinstance(st, ast.Delete):
            return set(defs) - {t.id for t in st.targets if isinstance(t, ast.Name)}
        for ch in ast.iter_child_nodes(st):
            uses(ch, defs)
        return defs
    block(fn.body, set(params))
    return out


def report(repo, R, module_prefixes, rule="PITFALL", kinds=None, single_row_tables=False, only=None):
    """Scan every function of the named modules; findings are reported under `rule` (only the pattern kinds in `kinds`).
    single_row_tables: the calling property's operator requests recursion tables with one row on their first axis (order 0); a
    geometric comparison that only selects values for the higher rows is then not its concern."""
    n = 0
    for f in repo.all_functions():
        if not any(f.module.name == m or f.module.name.startswith(m + ".") for m in module_prefixes):
            continue
        if only is not None and not only(f):
            continue
        n += 1
        if not f.name.startswith("_") and (kinds is None or "UNDEF" in kinds):
            from .flow import check_documented_defaults
            R.rule("DEFAULT", "a default stated in the documentation of a public function is the default of its signature")
            check_documented_defaults(f, R, "DEFAULT")
        if kinds is None or "UNDEF" in kinds:
            for node, name in undefined_names(f):
                R.fail(rule, f.site, f"UNDEF: {name}", f"[UNDEF] `{name}` is read in {f.name} but nothing binds it (no assignment, parameter, import or "
                       f"module-level definition): NameError on every input that reaches this statement", where=f.where(node), expected="a binding that reaches the use")
            for node, name in possibly_unbound(f):
                R.fail(rule, f.site, f"UNBOUND: {name} (line-independent)", f"[UNDEF] `{name}` is read in {f.name} on a path on which no statement has "
                       f"assigned it yet (an assignment is missing on one branch): UnboundLocalError there", where=f.where(node),
                       expected="assigned on every path that reaches the use")
        for kind, node, msg in scan_function(f):
            if kinds is not None and kind not in kinds:
                continue
            if single_row_tables and kind == "TOL-GEOM" and only_feeds_higher_rows(f.node, node):
                R.extra.setdefault("geometry_tests_feeding_only_higher_orders", []).append(f"{f.where(node)} {ast.unparse(node)[:80]}")
                continue
            R.fail(rule, f.site, f"{kind}: {ast.unparse(node)[:80]}", f"[{kind}] {msg}", where=f.where(node), expected="result independent of the input's dtype / of repeated entries")
    R.ok(rule, ",".join(m[len("gbasis."):] for m in module_prefixes)[:80], f"{n} functions scanned for dtype / repeated-index pitfalls")
    return n
