"""HERM: adjoint class of two-index kernels (real / imaginary unit times real / complex) - DESIGN 2.8."""
import ast

from .astutil import Defs, dotted
from .model import Func
from .report import AnalysisError

LINEAR_CALLS = {"transpose", "sum", "tensordot", "swapaxes", "reshape", "squeeze", "array", "asarray", "concatenate", "moveaxis",
                "prod", "einsum", "dot", "conj", "conjugate", "real_if_close", "stack", "zeros", "ones", "sqrt", "exp", "max", "min",
                "arange", "identity", "eye", "full", "zeros_like", "ones_like"}


def mul_phase(a, b):
    if "complex" in (a, b):
        return "complex"
    if a == "real":
        return b
    if b == "real":
        return a
    return "real"  # imag * imag


def add_phase(a, b):
    return a if a == b else "complex"


class Phase:
    def __init__(self, repo):
        self.repo = repo
        self.memo = {}

    def of_func(self, f):
        """Phase class of everything a function may return."""
        if f in self.memo:
            return self.memo[f]
        self.memo[f] = "real"  # recursion guard
        D = Defs(f.node)
        out = None
        for n in ast.walk(f.node):
            if isinstance(n, ast.Return) and n.value is not None:
                p = self.of_expr(f, D, n.value, set())
                out = p if out is None else add_phase(out, p)
        self.memo[f] = out or "real"
        return self.memo[f]

    def of_expr(self, f, D, e, seen):
        if isinstance(e, ast.Constant):
            if isinstance(e.value, complex):
                return "imag" if e.value.real == 0 else "complex"
            return "real"
        if isinstance(e, ast.UnaryOp):
            return self.of_expr(f, D, e.operand, seen)
        if isinstance(e, ast.BinOp):
            l, r = self.of_expr(f, D, e.left, seen), self.of_expr(f, D, e.right, seen)
            if isinstance(e.op, (ast.Mult, ast.MatMult)):
                return mul_phase(l, r)
            if isinstance(e.op, ast.Div):
                return mul_phase(l, r)  # 1/i = -i: same class
            if isinstance(e.op, (ast.Add, ast.Sub)):
                return add_phase(l, r)
            if isinstance(e.op, ast.Pow):
                return "real" if l == "real" else "complex"
            return "complex" if "complex" in (l, r) or "imag" in (l, r) else "real"
        if isinstance(e, ast.Name):
            key = D.key(e)
            if key in seen:
                return "real"
            seen = seen | {key}
            out = None
            for kind, st, val, _p in D.of(key):
                if val is None:
                    continue
                p = self.of_expr(f, D, val, seen)
                out = p if out is None else add_phase(out, p)
            return out or "real"
        if isinstance(e, (ast.Attribute, ast.Subscript)):
            return self.of_expr(f, D, e.value, seen) if not isinstance(e.value, ast.Name) or D.of(D.key(e.value)) else "real"
        if isinstance(e, (ast.Tuple, ast.List)):
            # a container of arrays (np.stack / np.array of components): the class all of its members share
            out = None
            for x in e.elts:
                p = self.of_expr(f, D, x, seen)
                out = p if out is None or out == p else "complex"
            return out or "real"
        if isinstance(e, ast.Call):
            d = dotted(e.func)
            r = self.repo.resolve_name(f.module, d, f) if d else None
            if isinstance(r, Func):
                return self.of_func(r)
            short = d.split(".")[-1] if d else None
            if d and d.split(".")[0] in ("np", "numpy") and short in LINEAR_CALLS:
                out = "real"
                for a in e.args:
                    p = self.of_expr(f, D, a, seen)
                    if p != "real":
                        out = p if out == "real" else mul_phase(out, p) if short in ("tensordot", "dot", "einsum") else add_phase(out, p)
                for k in e.keywords:
                    if k.arg == "dtype" and "complex" in ast.unparse(k.value):
                        out = "complex"
                return out
            if isinstance(e.func, ast.Attribute) and e.func.attr in LINEAR_CALLS | {"astype", "copy"}:
                return self.of_expr(f, D, e.func.value, seen)
            if d in ("complex",):
                return "complex"
            # scipy special functions etc. on real arguments
            return "real"
        if isinstance(e, ast.IfExp):
            return add_phase(self.of_expr(f, D, e.body, seen), self.of_expr(f, D, e.orelse, seen))
        return "real"


def unit_factor(f):
    """The constant scalar prefactor of the (single) return expression `c * X`: returns the python complex c, None, or "conditional" when
    a factor is a local that holds one of several constants depending on the path."""
    rets = [n for n in ast.walk(f.node) if isinstance(n, ast.Return) and n.value is not None]
    if len(rets) != 1:
        return None
    e = rets[0].value
    conditional = []

    def const_choices(name):
        """constants a local name can hold when every binding of it is a constant or a conditional expression of constants"""
        out = set()
        binds = [st for st in ast.walk(f.node) if isinstance(st, ast.Assign) and any(isinstance(t, ast.Name) and t.id == name for t in st.targets)]
        if not binds or name in f.params:
            return None
        for st in binds:
            vals = [st.value.body, st.value.orelse] if isinstance(st.value, ast.IfExp) else [st.value]
            for v in vals:
                c, pure = factor(v)
                if not pure:
                    return None
                out.add(c)
        return out

    def factor(x):
        if isinstance(x, ast.Name):
            ch = const_choices(x.id)
            if ch is not None and len(ch) == 1:
                return next(iter(ch)), True
            if ch is not None:
                conditional.append((x.id, sorted(ch, key=str)))
                return 1 + 0j, True
        if isinstance(x, ast.Constant) and isinstance(x.value, (int, float, complex)):
            return complex(x.value), True
        if isinstance(x, ast.UnaryOp) and isinstance(x.op, ast.USub):
            c, pure = factor(x.operand)
            return -c, pure
        if isinstance(x, ast.BinOp) and isinstance(x.op, ast.Mult):
            cl, pl = factor(x.left)
            cr, pr = factor(x.right)
            return cl * cr, pl and pr
        return 1 + 0j, False

    if isinstance(e, ast.Call) and (dotted(e.func) or "").split(".")[-1] in ("stack", "array", "asarray") and e.args \
            and isinstance(e.args[0], (ast.Tuple, ast.List)) and e.args[0].elts:
        # components joined along a new axis: the common prefactor of the components
        cs = {factor(x)[0] for x in e.args[0].elts}
        return cs.pop() if len(cs) == 1 else None
    c, _ = factor(e)
    if conditional:
        return "conditional"  # a prefactor selected per path: decided on each path by the symbolic evaluation of the kernel
    return c
