"""Assembly contracts A1-A7 / G1-G4: run the four base classes' methods on symbolic shells (AXTYPE)."""
import ast
import itertools

from .axtype import Arr, Shell, Size, AxTypeError, Raised, dim, show_axes, show_axis, size_key, ONE
from .axinterp import Interp, Obj, Opaque
from .report import AnalysisError

BASES = {
    "one": ("gbasis.base_one.BaseOneIndex", 1),
    "two_symm": ("gbasis.base_two_symm.BaseTwoIndexSymmetric", 2),
    "two_asymm": ("gbasis.base_two_asymm.BaseTwoIndexAsymmetric", 2),
    "four_symm": ("gbasis.base_four_symm.BaseFourIndexSymmetric", 4),
}

# permutation groups of the basis indices under which a kernel block may be reused
GROUPS = {
    "one": [(0,)],
    "two_symm": [(0, 1), (1, 0)],
    "two_asymm": [(0, 1)],
    "four_symm": [(0, 1, 2, 3), (1, 0, 2, 3), (0, 1, 3, 2), (1, 0, 3, 2), (2, 3, 0, 1), (3, 2, 0, 1), (2, 3, 1, 0), (3, 2, 1, 0)],
}


class ShellInt:
    """Integer attribute of a symbolic shell (angmom)."""

    def __init__(self, shell, name):
        self.shell = shell
        self.name = name

    def __repr__(self):
        return f"{self.shell}.{self.name}"


ANGMOM_DOMAIN = (0, 1, 2, 3)


def compare_shell_int(interp, op, l, r, node):
    """A comparison on a shell's angular momentum (only modified code has one in the assembly): decided by a candidate value of
    that shell's angmom; Assembly.run_paths enumerates the candidates, so every consistent combination of outcomes is explored
    and no inconsistent one."""
    import ast as _ast

    def val(x):
        if isinstance(x, ShellInt) and x.name == "angmom":
            if x.shell not in interp.oracle:
                interp.oracle[x.shell] = ANGMOM_DOMAIN[0]
                interp.oracle_new.append(x.shell)
            return interp.oracle[x.shell]
        if isinstance(x, int) and not isinstance(x, bool):
            return x
        return None
    a, b = val(l), val(r)
    if a is None or b is None:
        return NotImplemented
    table = {_ast.Eq: a == b, _ast.NotEq: a != b, _ast.Lt: a < b, _ast.LtE: a <= b, _ast.Gt: a > b, _ast.GtE: a >= b}
    for k, v in table.items():
        if isinstance(op, k):
            return v
    return NotImplemented


def np_identity(interp, args, kwargs, node):
    n = args[0] if args else None
    if isinstance(n, Size) and len(n.axes) == 1 and not kwargs:
        ax = n.axes[0]
        if ax[0] == "dim" and ax[1][0] == "L" and interp.oracle.get(ax[1][1]) == 0:
            # on this path the shell is an s shell: its Cartesian->spherical matrix is the 1x1 identity
            sh = ax[1][1]
            return Arr([dim("S", sh, None), dim("L", sh, None)], ("transform", sh))
        return Arr([ax, ax], ("identity", ax))
    raise AnalysisError("AXTYPE", "np.identity/np.eye with this argument is not modelled", interp.where(node))


def arr_getitem(interp, base, idx, node):
    """Constant row/column of a shell attribute array: norm_cont[:, k] (the norm of every segment for component k) or
    norm_cont[m] (the norms of one segment)."""
    if isinstance(base, Arr) and base.content is not None and base.content[0] == "attr" and base.ndim_known:
        ix = idx if isinstance(idx, tuple) else (idx,)
        if len(ix) <= len(base.axes) and all(isinstance(i, int) and not isinstance(i, bool) or (isinstance(i, slice) and i == slice(None)) for i in ix):
            ix = list(ix) + [slice(None)] * (len(base.axes) - len(ix))
            axes = []
            hist = list(base.history)
            for ax, i in zip(base.axes, ix):
                if isinstance(i, slice):
                    axes.append(ax)
                else:
                    kind = ax[1][0] if ax[0] == "dim" else "?"
                    hist.append(("pick", kind, i))
            return Arr(axes, base.content, hist, base.dtype, base.conj)
    raise AnalysisError("AXTYPE", f"construct not modelled: subscript of {base!r}", interp.where(node))


def np_repeat_tile(which):
    def h(interp, args, kwargs, node):
        if len(args) == 2 and not kwargs and isinstance(args[0], Arr) and len(args[0].axes) == 1 and isinstance(args[1], Size) and len(args[1].axes) == 1:
            a, n = args[0].axes[0], args[1].axes[0]
            flat = (a, n) if which == "repeat" else (n, a)  # repeat: each element n times in a row; tile: the vector n times
            return Arr([("flat", flat)], args[0].content, tuple(args[0].history) + (("spread", which, n),), args[0].dtype, args[0].conj)
        raise AnalysisError("AXTYPE", f"np.{which} with these arguments is not modelled", interp.where(node))
    return h


class SphLabels:
    def __init__(self, shell):
        self.shell = shell


def shell_attr(interp, s, attr, node):
    n = s.name
    if attr == "norm_cont":
        return Arr([dim("M", n, None), dim("L", n, None)], ("attr", n, "norm_cont"))
    if attr == "angmom":
        return ShellInt(n, "angmom")
    if attr == "angmom_components_cart":
        return Arr([dim("L", n, None), dim("XYZ")], ("attr", n, "angmom_components_cart"), dtype="int")
    if attr == "angmom_components_sph":
        return SphLabels(n)
    if attr == "coeffs":
        return Arr([dim("K", n), dim("M", n, None)], ("attr", n, "coeffs"))
    if attr == "exps":
        return Arr([dim("K", n)], ("attr", n, "exps"))
    if attr == "coord":
        return Arr([dim("XYZ")], ("attr", n, "coord"))
    if attr == "norm_prim_cart":
        return Arr([dim("L", n, None), dim("K", n)], ("attr", n, "norm_prim_cart"))
    if attr == "num_seg_cont":
        return Size([dim("M", n, None)])
    if attr == "num_cart":
        return Size([dim("L", n, None)])
    if attr == "num_sph":
        return Size([dim("S", n, None)])
    if attr == "coord_type":
        if s.coord_type is None:
            raise AnalysisError("AXTYPE", "coord_type of a symbolic shell without a type", interp.where(node))
        return s.coord_type
    if attr == "icenter":
        return Opaque("icenter")
    raise AnalysisError("AXTYPE", f"shell attribute `{attr}` not modelled", interp.where(node))


def gen_transformation(interp, func, args, kwargs, node):
    if kwargs or len(args) != 4:
        raise AnalysisError("A3", "generate_transformation called with unexpected arguments", interp.where(node))
    angmom, cart, sph, side = args
    s1 = angmom.shell if isinstance(angmom, ShellInt) and angmom.name == "angmom" else None
    s2 = cart.content[1] if isinstance(cart, Arr) and cart.content and cart.content[:1] == ("attr",) and cart.content[2] == "angmom_components_cart" else None
    s3 = sph.shell if isinstance(sph, SphLabels) else None
    interp.events.append(("transform-site", (s1, s2, s3), side, interp.where(node)))
    if None in (s1, s2, s3):
        raise AxTypeError("generate_transformation must receive (shell.angmom, shell.angmom_components_cart, "
                          f"shell.angmom_components_sph); found ({angmom!r}, {cart!r}, {sph!r})", node)
    if not (s1 == s2 == s3):
        raise AxTypeError(f"generate_transformation arguments come from different shells: angmom of {s1}, Cartesian "
                          f"components of {s2}, spherical components of {s3}", node,
                          expected="all three from the same shell", found=(s1, s2, s3))
    if side == "left":
        return Arr([dim("S", s1, None), dim("L", s1, None)], ("transform", s1))
    if side == "right":
        return Arr([dim("L", s1, None), dim("S", s1, None)], ("transform", s1))
    raise AxTypeError(f"generate_transformation side {side!r}", node)


class Assembly:
    def __init__(self, repo, kind):
        self.repo = repo
        self.kind = kind
        self.qual, self.nidx = BASES[kind]
        self.cls = repo.cls(self.qual)

    def new_interp(self):
        it = Interp(self.repo, rule="AXTYPE")
        it.hooks["shell_attr"] = shell_attr
        it.hooks[("func", "gbasis.spherical.generate_transformation")] = gen_transformation
        it.hooks[("abstract", "construct_array_contraction")] = self.kernel_hook
        it.hooks["compare"] = compare_shell_int
        it.hooks[("ext", "numpy.identity")] = np_identity
        it.hooks[("ext", "numpy.eye")] = np_identity
        it.hooks[("ext", "numpy.repeat")] = np_repeat_tile("repeat")
        it.hooks[("ext", "numpy.tile")] = np_repeat_tile("tile")
        it.hooks["getitem"] = arr_getitem
        it.kernel_calls = []
        it.oracle = {}
        it.oracle_new = []
        return it

    def kernel_hook(self, interp, func, args, kwargs, node):
        # args[0] is self
        shells = args[1:]
        interp.kernel_calls.append((tuple(shells), dict(kwargs), interp.where(node), node, args[0]))
        if len(shells) != self.nidx or not all(isinstance(s, Shell) for s in shells):
            raise AxTypeError(f"construct_array_contraction receives {len(shells)} positional argument(s) "
                              f"{shells!r}; the {self.kind} assembly passes {self.nidx} shell(s)", node)
        interp.rest_counter += 1
        axes = []
        for k, s in enumerate(shells):
            axes += [dim("M", s.name, k), dim("L", s.name, k)]
        axes.append(("rest", 0))
        return Arr(axes, ("kernel", tuple(s.name for s in shells), tuple(sorted(kwargs.items(), key=lambda kv: kv[0])), len(interp.kernel_calls)))

    def make_self(self, shell_lists):
        return Obj(self.cls, {"_axes_contractions": tuple(tuple(l) for l in shell_lists)})

    def run(self, method, shell_lists, args=(), kwargs=None, oracle=None):
        it = self.new_interp()
        if oracle is not None:
            it.oracle.update(oracle)
        self.last_interp = it
        f = self.cls.lookup(method)
        self_obj = self.make_self(shell_lists)
        res = it.call_function(f, [self_obj] + list(args), dict(kwargs or {}), None)
        if oracle is None and it.oracle_new:
            raise AnalysisError("AXTYPE", f"the assembly branches on the angular momentum of {sorted(it.oracle_new)}: decided per case under C09 only")
        return it, res

    def run_paths(self, method, shell_lists, args=(), kwargs=None):
        """Every consistent resolution of comparisons on shell angular momenta (none on the unmodified tree: one path).
        Yields (oracle, outcome) with outcome = (it, res) or the exception raised on that path."""
        stack = [{}]
        seen = set()
        while stack:
            preset = stack.pop()
            key = tuple(sorted(preset.items()))
            if key in seen:
                continue
            seen.add(key)
            try:
                out = self.run(method, shell_lists, args=args() if callable(args) else args, kwargs=kwargs, oracle=dict(preset))
            except Exception as ex:  # re-raised by the caller in its own handler
                out = ex
            it = self.last_interp
            for k, sh in enumerate(it.oracle_new):
                base = dict(preset)
                for prev in it.oracle_new[:k]:
                    base[prev] = it.oracle[prev]
                for v in ANGMOM_DOMAIN[1:]:
                    alt = dict(base)
                    alt[sh] = v
                    stack.append(alt)
            yield dict(it.oracle), out


def leaves(arr, nidx):
    """Flatten the concatenation tree: yields (multi-index over the basis axes, leaf Arr)."""
    out = []

    def rec(a, idx):
        if a.content is not None and a.content[0] == "cat":
            axis = a.content[1]
            for i, part in enumerate(a.content[2]):
                d = dict(idx)
                if axis in d:
                    raise AxTypeError(f"axis {axis} is concatenated twice")
                d[axis] = i
                rec(part, d)
        else:
            out.append((idx, a))

    rec(arr, {})
    res = []
    for idx, a in out:
        if set(idx) != set(range(nidx)):
            raise AxTypeError(f"assembled array is not a complete block table over {nidx} basis axes: block indices {sorted(idx)}")
        res.append((tuple(idx[k] for k in range(nidx)), a))
    return res


def _is_column_spread(extra, shell):
    """history suffix of a norm factor: ('pick', 'L', k) [one column = the per-segment norm], optionally followed by one
    ('spread', 'repeat'|'tile', axis) over that shell's own component axis (the order is checked on the axes)"""
    if not extra or extra[0][0] != "pick" or extra[0][1] != "L":
        return False
    rest = extra[1:]
    if not rest:
        return True
    if len(rest) == 1 and rest[0][0] == "spread":
        ax = rest[0][2]
        return ax[0] == "dim" and ax[1][0] in ("L", "S") and ax[1][1] == shell
    return False


def check_block(kind, index, leaf, shell_lists, types_lists, kwargs_expected):
    """Contract for one block.  Returns (ok, message, descriptor)."""
    nidx = len(index)
    want_shells = [shell_lists[m][index[m]] for m in range(nidx)]
    want_types = [types_lists[m][index[m]] for m in range(nidx)]
    c = leaf.content
    if c is None or c[0] != "kernel":
        return False, f"block {index} is not a kernel block: {c!r}", None
    kshells = c[1]
    if dict(c[2]) != dict(kwargs_expected) or [k for k, _ in c[2]] != sorted(kwargs_expected):
        return False, (f"block {index}: keyword arguments passed to construct_array_contraction are {dict(c[2])!r}, "
                       f"the assembly method received {dict(kwargs_expected)!r} (kwargs not forwarded)"), None
    if len(leaf.axes) != nidx + 1 or leaf.axes[-1][0] != "rest":
        return False, f"block {index} has axes {show_axes(leaf.axes)}; expected {nidx} flattened basis axes followed by the kernel's trailing axes", None
    perm = []
    for m in range(nidx):
        ax = leaf.axes[m]
        s = want_shells[m].name
        comp = "S" if want_types[m] == "spherical" else "L"
        if not (ax[0] == "flat" and len(ax[1]) == 2 and all(x[0] == "dim" for x in ax[1])):
            return False, f"block {index}: basis axis {m} is {show_axis(ax)}, expected a (segment*component) axis", None
        a_m, a_c = ax[1]
        if a_m[1][0] != "M" or a_c[1][0] not in ("L", "S"):
            return False, (f"block {index}: basis axis {m} is flattened as {show_axis(ax)}; expected segment-major "
                           f"(M[{s}]*{comp}[{s}])"), None
        if a_m[1][1] != s or a_c[1][1] != s:
            return False, f"block {index}: basis axis {m} is {show_axis(ax)} but position {index[m]} of that axis holds shell {s}", None
        if a_c[1][0] != comp:
            return False, (f"block {index}: basis axis {m} carries {'spherical' if a_c[1][0] == 'S' else 'Cartesian'} components of {s} "
                           f"but that shell is {want_types[m]}"), None
        if a_m[1][2] != a_c[1][2]:
            return False, f"block {index}: basis axis {m} mixes kernel positions {show_axis(ax)}", None
        perm.append(a_m[1][2])
    if sorted(perm) != list(range(nidx)):
        return False, f"block {index}: kernel positions on the basis axes are {perm} (not a permutation)", None
    for m in range(nidx):
        if kshells[perm[m]] != want_shells[m].name:
            return False, f"block {index}: axis {m} comes from kernel argument {perm[m]} = {kshells[perm[m]]}, expected {want_shells[m].name}", None
    if tuple(perm) not in GROUPS[kind]:
        return False, (f"block {index} reuses kernel{tuple(kshells)} with its index positions permuted by {tuple(perm)}, which is "
                       f"not a symmetry of this kind of array"), None
    # history: per kernel position exactly one norm_cont of that shell (aligned to that position), then the transform if spherical
    for p in range(nidx):
        s = kshells[p]
        m = perm.index(p)
        evs = [h for h in leaf.history if (h[0] in ("mul", "sph") and h[-1 if h[0] == "sph" else 3] == p) or
               (h[0] not in ("mul", "sph"))]
        mine = [h for h in leaf.history if (h[0] == "mul" and h[3] == p) or (h[0] == "sph" and h[2] == p)]
        want = [("mul", "norm_cont", s, p)]
        if want_types[m] == "spherical":
            want.append(("sph", s, p))
        got = [h[:4] if h[0] == "mul" else h for h in mine]
        # norm_cont[m, l] does not depend on the component l (the (2a-1)!! of primitive norm and self-overlap cancel): a column of
        # it, spread over the shell's own components, is the same factor, and it commutes with the transformation
        colspread = [h for h in mine if h[0] == "mul" and _is_column_spread(h[4:], s)]
        if want_types[m] == "spherical" and len(colspread) == 1 and got == [want[1], want[0]]:
            got = want
        rowpick = [x for h in mine if h[0] == "mul" for x in h[4:] if isinstance(x, tuple) and x[:2] == ("pick", "M")]
        if rowpick:
            return False, (f"block {index}: index position {p} (shell {s}) is normalised with the contraction norms of segment {rowpick[0][2]} only "
                           f"(norm_cont[{rowpick[0][2]}]): every other segment of a generalized contraction gets the wrong norm"), None
        if got != want:
            return False, (f"block {index}: operations applied to index position {p} (shell {s}, {want_types[m]}) are {got}; expected "
                           f"exactly {want} in this order (contraction norm once, before the Cartesian->spherical transform)"), None
    extra = [h for h in leaf.history if h[0] not in ("mul", "sph")]
    if extra:
        return False, f"block {index}: unexpected operations {extra}", None
    for h in leaf.history:
        if h[0] == "mul" and len(h) > 4 and not _is_column_spread(h[4:], h[2]):
            return False, f"block {index}: the contraction norm was modified before use: {h[4:]}", None
    is_swap = tuple(perm) != tuple(range(nidx))
    desc = (tuple(kshells), tuple(perm), leaf.conj, tuple(want_types))
    return True, "", desc


def expected_kernel_calls(kind, shell_lists):
    n = len(shell_lists[0])
    if kind == "one":
        return [(s,) for s in shell_lists[0]]
    if kind == "two_symm":
        L = shell_lists[0]
        return [(L[i], L[j]) for i in range(n) for j in range(i, n)]
    if kind == "two_asymm":
        return [(a, b) for a in shell_lists[0] for b in shell_lists[1]]
    if kind == "four_symm":
        L = shell_lists[0]
        pairs = list(itertools.combinations_with_replacement(range(n), 2))
        out = []
        for pi, (i, j) in enumerate(pairs):
            for (k, l) in pairs[pi:]:
                out.append((L[i], L[j], L[k], L[l]))
        return out
    raise AnalysisError("AXTYPE", kind)
