"""TERMALG: Leibniz term algebra for density-derived quantities (DESIGN 2.5).

Abstract domain: formal sums over Q[alpha, beta] of atoms
    G(p, q)  = d_1^p d_2^q gamma(r, r') on the diagonal  (what evaluate_deriv_reduced_density_matrix(p, q, ...) returns)
with the laws  G(p,q) = G(q,p) (symmetric density matrix),  d_k G(p,q) = G(p+e_k,q) + G(p,q+e_k),
R(L) = sum_{l<=L} C(L,l) G(l, L-l) (evaluate_deriv_density),  LAP = sum_k R(2 e_k).
The bodies of stress_tensor.py / density.py are interpreted in this domain; loops over literal iterables are unrolled,
a guarded update `if alpha != v: out += coef * call(...)` is taken as unconditional iff v is a root of coef.
"""
import ast
import itertools
from math import comb as icomb

import sympy as sp

from .astutil import dotted
from .report import AnalysisError

ALPHA, BETA = sp.symbols("alpha beta", real=True)


def vec_add(a, b):
    return tuple(x + y for x, y in zip(a, b))


E3 = [(1, 0, 0), (0, 1, 0), (0, 0, 1)]


class Terms:
    """Formal sum of G(p,q) atoms with sympy coefficients."""

    def __init__(self, d=None, symmetric=True):
        self.d = {}
        self.symmetric = symmetric
        self.nonlinear = ()  # notes: the value went through a non-linear operation (clip, abs, maximum, a clipping routine)
        for k, v in (d or {}).items():
            self._add(k, v)

    def _key(self, k):
        p, q = k
        return tuple(sorted((tuple(p), tuple(q)))) if self.symmetric else (tuple(p), tuple(q))

    def _add(self, k, v):
        k = self._key(k)
        nv = sp.expand(self.d.get(k, 0) + v)
        if nv == 0:
            self.d.pop(k, None)
        else:
            self.d[k] = nv

    def copy(self):
        t = Terms(symmetric=self.symmetric)
        t.d = dict(self.d)
        t.nonlinear = self.nonlinear
        return t

    def marked(self, note):
        t = self.copy()
        if note not in t.nonlinear:
            t.nonlinear = t.nonlinear + (note,)
        return t

    def __add__(self, o):
        if isinstance(o, (int, float)) and o == 0:
            return self.copy()
        if not isinstance(o, Terms):
            return NotImplemented
        t = self.copy()
        for k, v in o.d.items():
            t._add(k, v)
        t.nonlinear = t.nonlinear + tuple(n for n in o.nonlinear if n not in t.nonlinear)
        return t

    __radd__ = __add__

    def __neg__(self):
        return self * -1

    def __sub__(self, o):
        return self + (o * -1)

    def __rsub__(self, o):
        return (self * -1) + o

    def __mul__(self, c):
        if isinstance(c, Terms):
            return NotImplemented
        c = sp.sympify(c)
        t = Terms(symmetric=self.symmetric)
        for k, v in self.d.items():
            t._add(k, v * c)
        t.nonlinear = self.nonlinear
        return t

    __rmul__ = __mul__

    def __truediv__(self, c):
        return self * (1 / sp.sympify(c))

    def ddk(self, k):
        """partial derivative along coordinate k"""
        t = Terms(symmetric=self.symmetric)
        e = E3[k]
        for (p, q), v in self.d.items():
            t._add((vec_add(p, e), q), v)
            t._add((p, vec_add(q, e)), v)
        t.nonlinear = self.nonlinear
        return t

    def equals(self, o, allow=()):
        """equal as formal sums; a value that went through a non-linear operation equals nothing (unless every note is allowed)"""
        if [n for n in self.nonlinear + getattr(o, "nonlinear", ()) if not any(a in n for a in allow)]:
            return False
        ks = set(self.d) | set(o.d)
        return all(sp.simplify(self.d.get(k, 0) - o.d.get(k, 0)) == 0 for k in ks)

    def diff_str(self, o):
        ks = sorted(set(self.d) | set(o.d))
        out = []
        for k in ks:
            dd = sp.simplify(self.d.get(k, 0) - o.d.get(k, 0))
            if dd != 0:
                out.append(f"G{k}: found {self.d.get(k, 0)}, expected {o.d.get(k, 0)}")
        for n in self.nonlinear:
            out.insert(0, f"not a linear function of the density matrix any more: {n}")
        return "; ".join(out[:6])

    def __repr__(self):
        return " + ".join(f"({v})*G{k}" for k, v in sorted(self.d.items())) or "0"


def G(p, q, symmetric=True):
    return Terms({(tuple(p), tuple(q)): 1}, symmetric)


def R_of(L, symmetric=True):
    """Leibniz expansion of the L-th derivative of the density."""
    t = Terms(symmetric=symmetric)
    for l in itertools.product(*[range(x + 1) for x in L]):
        c = 1
        for a, b in zip(L, l):
            c *= icomb(a, b)
        t._add((l, tuple(a - b for a, b in zip(L, l))), c)
    return t


def LAP(symmetric=True):
    t = Terms(symmetric=symmetric)
    for e in E3:
        t = t + R_of(tuple(2 * x for x in e), symmetric)
    return t


class Table:
    """np.zeros((3, 3, N)) / np.zeros((3, N)): cells indexed by the leading (non-point) axes; `axes` names the array axes."""

    def __init__(self, shape, axes=None, cells=None):
        self.shape = tuple(shape)  # sizes of the leading axes (3s)
        self.cells = cells if cells is not None else {idx: Terms() for idx in itertools.product(*[range(s) for s in shape])}
        # axis labels of the numpy array: e.g. ('I0', 'I1', 'Pts')
        self.axes = list(axes) if axes is not None else [f"I{k}" for k in range(len(shape))] + ["Pts"]

    def get(self, idx):
        return self.cells[tuple(idx)]

    def set(self, idx, v):
        if tuple(idx) not in self.cells:
            raise AnalysisError("TERMALG", f"index {idx} outside the table {self.shape}")
        self.cells[tuple(idx)] = v

    def permuted(self, perm):
        t = Table(self.shape, [self.axes[p] for p in perm], self.cells)
        return t

    def map(self, fn):
        return Table(self.shape, self.axes, {k: fn(v) for k, v in self.cells.items()})

    def swapped_cells(self, a, b):
        """array with its leading index axes a and b swapped (values move)"""
        def sw(idx):
            idx = list(idx)
            idx[a], idx[b] = idx[b], idx[a]
            return tuple(idx)
        return Table(self.shape, self.axes, {k: self.cells[sw(k)] for k in self.cells})


class GuardRecord:
    def __init__(self, var, value, node):
        self.var, self.value, self.node = var, value, node
        self.coefs = []


class TermInterp:
    """Interpreter for stress_tensor.py / density.py style functions in the term domain."""

    def __init__(self, func, env, call_handler, rule="TERMALG", symmetric=True):
        self.func = func
        self.env = dict(env)
        self.call_handler = call_handler
        self.rule = rule
        self.symmetric = symmetric
        self.guards = []  # finished GuardRecords
        self.guard_stack = []
        self.returns = []
        self.updates = 0

    def err(self, msg, node):
        raise AnalysisError(self.rule, msg, self.func.where(node))

    # ------------------------------------------------------------ statements
    def run(self):
        self.block(self.func.node.body)
        return self

    def block(self, stmts):
        for st in stmts:
            self.stmt(st)

    def stmt(self, st):
        if isinstance(st, ast.Expr):
            if not isinstance(st.value, ast.Constant):
                self.expr(st.value)
            return
        if isinstance(st, ast.Assign):
            v = self.expr(st.value)
            for t in st.targets:
                self.assign(t, v, st)
            # `x = table[i, j]` taken as a place to write to later (`x[...] = value`): remember which cell the name views
            ca = self.__dict__.setdefault("cell_alias", {})
            for t in st.targets:
                if isinstance(t, ast.Name):
                    ca.pop(t.id, None)
                    if isinstance(st.value, ast.Subscript):
                        try:
                            base = self.expr(st.value.value)
                            if isinstance(base, Table):
                                idx = self.index(st.value.slice, base)
                                if len(idx) == len(base.shape):
                                    ca[t.id] = (base, idx)
                        except AnalysisError:
                            pass
            return
        if isinstance(st, ast.AugAssign):
            cur = self.expr(st.target)
            if isinstance(st.target, ast.Name) and any(cur is x for x in getattr(self, "escaped", [])):
                self.err("in-place update of an array that was already stored in a list", st)
            v = self.expr(st.value)
            new = self.binop(st.op, cur, v, st)
            if self.guard_stack and isinstance(v, Terms):
                for g in self.guard_stack:
                    g.coefs.append((st, v))
            if isinstance(v, Terms):
                self.updates += 1
            self.assign(st.target, new, st)
            if isinstance(st.target, ast.Name) and st.target.id in self.__dict__.get("cell_alias", {}) and isinstance(new, Terms):
                tab, idx = self.cell_alias[st.target.id]
                tab.set(idx, new)  # an in-place update of a view writes into the table
            return
        if isinstance(st, ast.For):
            it = self.expr(st.iter)
            if not isinstance(it, (list, tuple, range)):
                self.err("loop over a non-literal iterable", st)
            for item in it:
                self.assign(st.target, item, st)
                self.block(st.body)
            return
        if isinstance(st, ast.If):
            self.if_stmt(st)
            return
        if isinstance(st, ast.Return):
            self.returns.append((st, self.expr(st.value)))
            return
        if isinstance(st, (ast.Raise, ast.Pass)):
            return
        if isinstance(st, ast.FunctionDef) and not st.decorator_list:
            self.env[st.name] = LocalFunc(st)  # a local helper: interpreted in place with the enclosing locals visible
            return
        self.err(f"statement {type(st).__name__} not modelled", st)

    def if_stmt(self, st):
        # validation guards
        if st.body and isinstance(st.body[-1], ast.Raise) and not st.orelse:
            return
        parts = st.test.values if isinstance(st.test, ast.BoolOp) and isinstance(st.test.op, ast.And) else [st.test]
        guards = []
        for p in parts:
            g = self.guard_of(p)
            if g is not None:
                guards.append(g)
                continue
            v = self.expr(p)
            if isinstance(v, bool) or v in (sp.true, sp.false):
                if not bool(v):
                    # concrete false: else branch
                    self.block(st.orelse)
                    return
                continue
            self.err(f"branch condition `{ast.unparse(p)}` is neither constant nor a parameter guard", st)
        if guards and st.orelse:
            self.err("guarded update with an else branch", st)
        recs = [GuardRecord(var, val, st) for var, val in guards]
        self.guard_stack.extend(recs)
        self.block(st.body)
        for r in recs:
            self.guard_stack.remove(r)
            self.guards.append(r)

    def guard_of(self, test):
        """`alpha != 0.5`, `beta != 0` on a symbolic parameter."""
        if isinstance(test, ast.Compare) and len(test.ops) == 1 and isinstance(test.ops[0], ast.NotEq) and isinstance(test.left, ast.Name):
            v = self.env.get(test.left.id)
            if isinstance(v, sp.Symbol) and isinstance(test.comparators[0], ast.Constant):
                return v, sp.nsimplify(test.comparators[0].value, rational=True)
        return None

    def assign(self, t, v, st):
        if isinstance(t, ast.Name):
            self.env[t.id] = v
            return
        if isinstance(t, (ast.Tuple, ast.List)):
            vals = list(v)
            if len(vals) != len(t.elts):
                self.err("unpack mismatch", st)
            for tt, vv in zip(t.elts, vals):
                self.assign(tt, vv, st)
            return
        if isinstance(t, ast.Subscript) and isinstance(t.value, ast.Name) and t.value.id in self.__dict__.get("cell_alias", {}):
            sl = t.slice
            elts = sl.elts if isinstance(sl, ast.Tuple) else [sl]
            if all((isinstance(z, ast.Constant) and z.value is Ellipsis) or (isinstance(z, ast.Slice) and z.lower is None and z.upper is None and z.step is None)
                   for z in elts):
                tab, idx = self.cell_alias[t.value.id]
                if not isinstance(v, Terms):
                    self.err("non-term value stored through a view of the table", st)
                tab.set(idx, v)
                self.env[t.value.id] = v
                return
        if isinstance(t, ast.Subscript):
            base = self.expr(t.value)
            if isinstance(base, Table):
                idx = self.index(t.slice, base)
                if len(idx) != len(base.shape):
                    # chained subscript table[j][i]
                    self.err("partial index store", st)
                if not isinstance(v, Terms):
                    self.err("non-term value stored into the table", st)
                base.set(idx, v)
                return
            if isinstance(base, RowRef):
                i = self.index(t.slice)
                base.table.set(base.prefix + i, v)
                return
        self.err("assignment target", st)

    def index(self, sl, table=None):
        """index tuple over the table's index axes (in the order I0, I1, ...); a full slice may stand on the point axis"""
        elts = sl.elts if isinstance(sl, ast.Tuple) else [sl]
        if table is not None and any(isinstance(e, ast.Slice) for e in elts):
            axes = list(table.axes)
            if len(elts) > len(axes):
                self.err("too many indices", sl)
            cell = {}
            for pos, e in enumerate(elts):
                ax = axes[pos]
                if isinstance(e, ast.Slice):
                    if not (e.lower is None and e.upper is None and e.step is None) or ax != "Pts":
                        self.err(f"slice on axis {ax} of the table", e)
                    continue
                v = self.expr(e)
                if not isinstance(v, int) or not ax.startswith("I"):
                    self.err(f"non-constant table index `{ast.unparse(e)}`", e)
                cell[int(ax[1:])] = v
            if sorted(cell) != list(range(len(cell))):
                self.err("index axes skipped in a table subscript", sl)
            return tuple(cell[k] for k in sorted(cell))
        out = []
        for e in elts:
            v = self.expr(e)
            if not isinstance(v, int):
                self.err(f"non-constant table index `{ast.unparse(e)}`", e)
            out.append(v)
        if table is not None and table.axes and table.axes[0] == "Pts" and out:
            self.err("integer index on the point axis of the table", sl)
        return tuple(out)

    # ------------------------------------------------------------ expressions
    def expr(self, e):
        if isinstance(e, ast.Constant):
            v = e.value
            if isinstance(v, float):
                return sp.nsimplify(v, rational=True)
            return v
        if isinstance(e, ast.Name):
            if e.id in self.env:
                return self.env[e.id]
            if e.id in ("int", "float", "bool", "object", "True", "False", "None"):
                return {"True": True, "False": False, "None": None}.get(e.id, e.id)
            self.err(f"name `{e.id}`", e)
        if isinstance(e, ast.Tuple):
            return tuple(self.expr(x) for x in e.elts)
        if isinstance(e, ast.List):
            return [self.expr(x) for x in e.elts]
        if isinstance(e, ast.IfExp):
            return self.ifexp(e)
        if isinstance(e, ast.UnaryOp):
            v = self.expr(e.operand)
            if isinstance(e.op, ast.USub):
                return -v if not isinstance(v, tuple) else tuple(-x for x in v)
            if isinstance(e.op, ast.Not):
                return not v
            self.err("unary operator", e)
        if isinstance(e, ast.BinOp):
            return self.binop(e.op, self.expr(e.left), self.expr(e.right), e)
        if isinstance(e, ast.Compare):
            if len(e.ops) != 1:
                self.err("chained comparison", e)
            l, r = self.expr(e.left), self.expr(e.comparators[0])
            op = e.ops[0]
            if isinstance(op, (ast.Is, ast.IsNot)) and (l is None or r is None):
                return (l is r) if isinstance(op, ast.Is) else (l is not r)
            if isinstance(l, (int, tuple)) and isinstance(r, (int, tuple)):
                return {ast.Eq: l == r, ast.NotEq: l != r}.get(type(op)) if type(op) in (ast.Eq, ast.NotEq) else \
                    {ast.Lt: l < r, ast.LtE: l <= r, ast.Gt: l > r, ast.GtE: l >= r}[type(op)]
            if isinstance(l, sp.Basic) or isinstance(r, sp.Basic):
                rel = {ast.Eq: sp.Eq, ast.NotEq: sp.Ne, ast.Lt: sp.Lt, ast.LtE: sp.Le, ast.Gt: sp.Gt, ast.GtE: sp.Ge}[type(op)](l, r)
                return rel
            self.err("comparison", e)
        if isinstance(e, ast.BoolOp):
            vals = [self.expr(v) for v in e.values]
            if all(isinstance(v, bool) for v in vals):
                return all(vals) if isinstance(e.op, ast.And) else any(vals)
            self.err("boolean operator on symbolic values", e)
        if isinstance(e, ast.Subscript):
            base = self.expr(e.value)
            if isinstance(base, ShapeOf):
                return PointCount()
            if isinstance(base, Table):
                idx = self.index(e.slice, base)
                if len(idx) == len(base.shape):
                    return base.get(idx)
                if len(idx) < len(base.shape):
                    return RowRef(base, idx)
            if isinstance(base, RowRef):
                idx = self.index(e.slice)
                full = base.prefix + idx
                if len(full) == len(base.table.shape):
                    return base.table.get(full)
                return RowRef(base.table, full)
            if isinstance(base, (list, tuple)):
                sl = e.slice
                if isinstance(sl, ast.Slice):
                    return base[slice(*(self.expr(x) if x is not None else None for x in (sl.lower, sl.upper, sl.step)))]
                i = self.expr(sl)
                if isinstance(i, int):
                    return base[i]
            self.err("subscript", e)
        if isinstance(e, ast.Attribute):
            base = self.expr(e.value)
            if isinstance(base, Table) and e.attr == "T":
                return base.permuted(list(reversed(range(len(base.axes)))))
            if e.attr == "shape":
                return ShapeOf(base)
            self.err(f"attribute .{e.attr}", e)
        if isinstance(e, ast.Call):
            return self.call(e)
        self.err(f"expression {type(e).__name__}", e)

    def ifexp(self, e):
        t = self.expr(e.test)
        if isinstance(t, bool) or t in (sp.true, sp.false):
            return self.expr(e.body if bool(t) else e.orelse)
        self.err(f"conditional expression on a non-constant condition `{ast.unparse(e.test)}`", e)

    def binop(self, op, l, r, node):
        isvec = lambda v: isinstance(v, tuple) and all(isinstance(x, int) for x in v)
        if isvec(l) and isvec(r) and isinstance(op, (ast.Add, ast.Sub)):
            return tuple(x + y for x, y in zip(l, r)) if isinstance(op, ast.Add) else tuple(x - y for x, y in zip(l, r))
        if isinstance(op, ast.Mult) and isvec(r) and isinstance(l, int):
            return tuple(l * x for x in r)
        if isinstance(op, ast.Mult) and isvec(l) and isinstance(r, int):
            return tuple(r * x for x in l)
        # integer order tables (lists of order vectors) follow numpy's elementwise arithmetic, never python's list repetition
        istab = lambda v: isinstance(v, (list, tuple)) and v and all(isvec(x) for x in v)
        if isinstance(op, ast.Mult) and istab(r) and isinstance(l, int) and not isinstance(l, bool):
            return [tuple(l * x for x in row) for row in r]
        if isinstance(op, ast.Mult) and istab(l) and isinstance(r, int) and not isinstance(r, bool):
            return [tuple(r * x for x in row) for row in l]
        if isinstance(op, (ast.Add, ast.Sub)) and istab(l) and istab(r) and len(l) == len(r):
            sg = 1 if isinstance(op, ast.Add) else -1
            return [tuple(x + sg * y for x, y in zip(a, b)) for a, b in zip(l, r)]
        if isinstance(op, (ast.Add, ast.Sub)) and istab(l) and isvec(r):
            sg = 1 if isinstance(op, ast.Add) else -1
            return [tuple(x + sg * y for x, y in zip(a, r)) for a in l]
        if isinstance(op, ast.Mult) and (isinstance(l, (list, tuple)) or isinstance(r, (list, tuple))) and (isinstance(l, int) or isinstance(r, int)):
            self.err("multiplication of a sequence by an integer (python repetition vs numpy scaling is ambiguous here)", node)
        if isinstance(l, Table) and isinstance(r, Table) and isinstance(op, (ast.Add, ast.Sub)):
            if l.shape != r.shape or l.axes != r.axes:
                self.err("tables of different layout combined", node)
            return Table(l.shape, l.axes, {k: (l.cells[k] + r.cells[k]) if isinstance(op, ast.Add) else (l.cells[k] - r.cells[k]) for k in l.cells})
        if isinstance(l, Table) and isinstance(op, (ast.Mult, ast.Div)) and not isinstance(r, (Table, Terms)):
            return l.map(lambda t: t * r if isinstance(op, ast.Mult) else t / r)
        if isinstance(r, Table) and isinstance(op, ast.Mult) and not isinstance(l, (Table, Terms)):
            return r.map(lambda t: t * l)
        try:
            if isinstance(op, ast.Add):
                return l + r
            if isinstance(op, ast.Sub):
                return l - r
            if isinstance(op, ast.Mult):
                return l * r
            if isinstance(op, ast.Div):
                if isinstance(l, int) and isinstance(r, int):
                    return sp.Rational(l, r)
                return l / r
            if isinstance(op, ast.FloorDiv):
                return l // r
            if isinstance(op, ast.Mod):
                return l % r
            if isinstance(op, ast.Pow):
                return l ** r
        except TypeError:
            pass
        self.err(f"operator on {type(l).__name__}, {type(r).__name__}", node)

    def call(self, e):
        d = dotted(e.func)
        short = d.split(".")[-1] if d else None
        if isinstance(e.func, ast.Name) and isinstance(self.env.get(e.func.id), LocalFunc):
            lf = self.env[e.func.id]
            a_ = lf.node.args
            if a_.vararg or a_.kwarg or a_.kwonlyargs or a_.posonlyargs:
                self.err("local helper with */** parameters", e)
            names = [x.arg for x in a_.args]
            vals = [self.expr(x) for x in e.args]
            bound = dict(zip(names, vals))
            for k in e.keywords:
                bound[k.arg] = self.expr(k.value)
            defaults = dict(zip(names[len(names) - len(a_.defaults):], a_.defaults))
            for nm in names:
                if nm not in bound:
                    if nm not in defaults:
                        self.err(f"local helper {lf.node.name} called without `{nm}`", e)
                    bound[nm] = self.expr(defaults[nm])
            saved_env, saved_ret = self.env, self.returns
            self.env = dict(saved_env)
            self.env.update(bound)
            self.returns = []
            try:
                for s_ in lf.node.body:
                    self.stmt(s_)
                    if self.returns:
                        break
                rv = self.returns[-1][1] if self.returns else None
            finally:
                self.env, self.returns = saved_env, saved_ret
            return rv
        r = self.call_handler(self, e, d)
        if r is not NotImplemented:
            return r
        if isinstance(e.func, ast.Attribute) and e.func.attr == "clip" and not (d or "").startswith(("np.", "numpy.")):
            base = self.expr(e.func.value)
            if isinstance(base, Terms):
                return base.marked(f"`{ast.unparse(e)[:60]}` clips the values")
            if isinstance(base, Table):
                return base.map(lambda v: v.marked(f"`{ast.unparse(e)[:60]}` clips the values") if isinstance(v, Terms) else v)
        args = [self.expr(a) for a in e.args]
        kw = {k.arg: self.expr(k.value) for k in e.keywords}
        if d in ("np.clip", "numpy.clip", "np.maximum", "numpy.maximum", "np.minimum", "numpy.minimum", "np.abs", "numpy.abs", "np.absolute",
                 "np.fabs", "abs", "np.fmax", "np.fmin") and args and any(isinstance(a, (Terms, Table)) for a in args):
            note = f"`{ast.unparse(e)[:60]}` is not linear"
            out = next(a for a in args if isinstance(a, (Terms, Table)))
            return out.marked(note) if isinstance(out, Terms) else out.map(lambda v: v.marked(note) if isinstance(v, Terms) else v)
        if d in ("np.identity", "numpy.identity", "np.eye") and args == [3] and kw.get("dtype", "int") == "int":
            return [tuple(x) for x in E3]
        if d in ("np.array", "numpy.array") and len(args) == 1 and not (isinstance(args[0], (list, tuple)) and args[0] and all(isinstance(x, Terms) for x in args[0])):
            v = args[0]
            if isinstance(v, (list, tuple)) and all(isinstance(x, int) for x in v):
                return tuple(v)
            if isinstance(v, (list, tuple)) and all(isinstance(x, (list, tuple)) for x in v):
                def conv(z):
                    return tuple(conv(y) for y in z) if isinstance(z, (list, tuple)) and z and isinstance(z[0], (list, tuple)) else tuple(z)
                return list(conv(v)) if True else None
            self.err("np.array of non-literal", e)
        if d in ("np.zeros", "numpy.zeros") and args and kw.get("dtype", args[1] if len(args) > 1 else None) == "int":
            shp = args[0] if isinstance(args[0], (tuple, list)) else (args[0],)
            if all(isinstance(s_, int) and not isinstance(s_, bool) for s_ in shp) and len(shp) in (1, 2):
                row = lambda n: tuple(0 for _ in range(n))
                return row(shp[0]) if len(shp) == 1 else [row(shp[1]) for _ in range(shp[0])]
            self.err("integer np.zeros with a non-constant shape", e)
        if isinstance(e.func, ast.Attribute) and e.func.attr in ("append",) and len(args) == 1 and isinstance(e.func.value, ast.Name) \
                and isinstance(self.env.get(e.func.value.id), list):
            self.env[e.func.value.id].append(args[0])
            self.escaped = getattr(self, "escaped", [])
            self.escaped.append(args[0])  # numpy arrays are shared with the list: a later in-place update would change the element too
            return None
        if d in ("np.stack", "numpy.stack", "np.array", "numpy.array", "np.asarray") and args and isinstance(args[0], (list, tuple)) and args[0] \
                and all(isinstance(x, Terms) for x in args[0]):
            axis = kw.get("axis", args[1] if len(args) > 1 else 0)
            if d.split(".")[-1] != "stack" and (len(args) > 1 or set(kw) - {"dtype"}):
                self.err("np.array of point functions with extra arguments", e)
            if axis not in (0, 1, -1, -2):
                self.err("np.stack axis", e)
            n = len(args[0])
            axes = ["I0", "Pts"] if axis in (0, -2) else ["Pts", "I0"]
            return Table((n,), axes, {(i,): x for i, x in enumerate(args[0])})
        if d in ("np.zeros", "numpy.zeros") and args:
            shp = args[0] if isinstance(args[0], tuple) else (args[0],)
            lead = [s for s in shp if isinstance(s, int)]
            rest = [s for s in shp if not isinstance(s, int)]
            if len(rest) > 1:
                self.err("np.zeros with an unexpected shape", e)
            if not rest:
                self.err("np.zeros without a point axis", e)
            if not lead:
                return Terms(symmetric=self.symmetric)
            axes, k = [], 0
            for s_ in shp:
                if isinstance(s_, int):
                    axes.append(f"I{k}")
                    k += 1
                else:
                    axes.append("Pts")
            return Table(tuple(lead), axes)
        if d == "enumerate" and len(args) in (1, 2):
            start = args[1] if len(args) == 2 else kw.get("start", 0)
            if not isinstance(start, int) or set(kw) - {"start"}:
                self.err("enumerate with a non-constant start", e)
            return list(enumerate(args[0], start))
        if d == "range":
            return list(range(*args))
        if d == "zip":
            return list(zip(*args))
        if d == "len":
            v = args[0]
            if isinstance(v, (list, tuple)):
                return len(v)
            return PointCount()
        if d == "isinstance":
            return True
        if d in ("np.transpose", "numpy.transpose") and isinstance(args[0], Table):
            perm = args[1] if len(args) > 1 else kw.get("axes")
            return args[0].permuted(list(perm))
        if d in ("np.swapaxes", "numpy.swapaxes") and isinstance(args[0], Table):
            t = args[0]
            a, b = args[1], args[2]
            if t.axes[a] == "Pts" or t.axes[b] == "Pts":
                perm = list(range(len(t.axes)))
                perm[a], perm[b] = perm[b], perm[a]
                return t.permuted(perm)
            # swapping two index axes of the array: same layout, values moved
            ia, ib = int(t.axes[a][1:]), int(t.axes[b][1:])
            return t.swapped_cells(ia, ib)
        self.err(f"call `{d}` not modelled", e)


class LocalFunc:
    def __init__(self, node):
        self.node = node


class RowRef:
    def __init__(self, table, prefix):
        self.table, self.prefix = table, tuple(prefix)


class ShapeOf:
    def __init__(self, v):
        self.v = v

    def __getitem__(self, i):
        return PointCount()


class PointCount:
    pass


def guard_root_findings(guards):
    """Guard-root rule: an update skipped when var == value must have a coefficient that vanishes there."""
    out = []
    for g in guards:
        for st, terms in g.coefs:
            bad = []
            for k, c in terms.d.items():
                c0 = sp.simplify(sp.sympify(c).subs(g.var, g.value))
                if c0 != 0:
                    bad.append((k, c, c0))
            out.append((g, st, bad))
    return out
