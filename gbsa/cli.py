"""CLI: ./check <ID> [--tier quick|thorough] [--replay file]"""
import argparse
import ast
import importlib

import json
import os
import sys
import traceback

sys.path.insert(0, os.path.dirname(os.path.dirname(os.path.abspath(__file__))))

from gbsa.report import Run, AnalysisError  # noqa: E402
from gbsa.model import Repo  # noqa: E402
from gbsa.stencil import KernelDefect  # noqa: E402


def selftest(pid, repo_dir, R):
    """Thorough tier: the firing self-test of this property's rules.  Every one-edit variant registered for the property
    (selftest/mutants.py and the seeded patches) is applied to its own scratch copy of the analysed tree (mkdtemp, removed
    afterwards) and the check is re-run on the copy: a breaking variant must be reported, a behaviour-preserving one must
    stay silent.  The outcome is recorded in the evidence; it never changes the verdict about the analysed tree."""
    import importlib
    here = os.path.join(os.path.dirname(os.path.dirname(os.path.abspath(__file__))), "selftest")
    if not os.path.isdir(here):
        return
    sys.path.insert(0, here)
    os.environ["GBSA_REPO"] = repo_dir
    st = importlib.import_module("run")
    st.REPO = repo_dir
    items = st.collect_items(None, [pid])
    res = st.run_items(items, jobs=int(os.environ.get("GBSA_JOBS", "16")), quiet=True, out=lambda s: print("SELFTEST " + s))
    R.extra["selftest"] = res
    print(f"SELFTEST property={pid} variants={res['variants']} fired={res['fired_as_required']} silent={res['silent_as_required']} "
          f"skipped={len(res['skipped_anchor_absent'])} unexpected={len(res['unexpected'])}")


def main():
    ap = argparse.ArgumentParser()
    ap.add_argument("pid")
    ap.add_argument("--tier", default=os.environ.get("VERIF_TIER", "quick"), choices=["quick", "thorough"])
    ap.add_argument("--replay", default=None)
    ap.add_argument("--repo", default=None, help="analyse another checkout (self-test variants)")
    ap.add_argument("--no-evidence", action="store_true")
    a = ap.parse_args()
    pid = a.pid.upper()
    seed = int(os.environ.get("VERIF_SEED", "0") or 0)
    try:
        try:
            mod = importlib.import_module(f"gbsa.props.{pid.lower()}")
        except ModuleNotFoundError as e:
            if f"gbsa.props.{pid.lower()}" in str(e):
                print(f"ANALYSIS-ERROR property={pid} no check is registered for this property")
                return 2
            raise
        repo = Repo(a.repo)
        R = Run(pid, a.tier, seed, replay=a.replay)
        R.files = repo.digest_for()
        if a.replay:
            spec = json.load(open(a.replay))
            R.replay_key = spec.get("finding", {}).get("key")
        try:
            try:
                explanation = mod.run(repo, R)
            except KernelDefect as kd:
                # a definite defect met outside the places that already turn it into a finding
                g = None
                for cand in repo.all_functions():
                    if any(n is kd.node for n in ast.walk(cand.node)):
                        g = cand
                R.fail("AXTYPE-K", g.site if g else "kernel", ast.unparse(kd.node)[:100] if hasattr(kd.node, "lineno") else str(kd.node)[:100], kd.msg,
                       where=g.where(kd.node) if g else None)
                explanation = "incomplete run: a kernel defect ended the analysis"
        except AnalysisError as e:
            # a rule instance that was already decided as violated stays a violation when a later part of the analysis
            # meets a construct it does not model; without findings the run is analysis-broken (exit 2)
            if not R.findings:
                raise
            print(f"ANALYSIS-INCOMPLETE property={pid} {e}")
            R.extra["analysis_incomplete"] = str(e)
            explanation = "incomplete run: " + str(e)
        except Exception:
            if not R.findings:
                raise
            tb = traceback.format_exc()
            print(f"ANALYSIS-INCOMPLETE property={pid} internal error\n{tb}")
            R.extra["analysis_incomplete"] = "internal error"
            explanation = "incomplete run: internal error"
        R.no_evidence = a.no_evidence
        if a.tier == "thorough" and not a.no_evidence and not a.replay and not R.findings and not os.environ.get("GBSA_NO_SELFTEST"):
            selftest(pid, repo.root, R)
        R.scratch_repo = a.repo
        code = R.finish(explanation, exhaustive=getattr(R, "exhaustive", None))
        if a.replay:
            key = getattr(R, "replay_key", None)
            hit = [f for f in R.findings if f.key == key]
            print(f"REPLAY {'reproduced' if hit else 'not reproduced'}: {key}")
            return 1 if hit else 0
        return code
    except AnalysisError as e:
        print(f"ANALYSIS-ERROR property={pid} {e}")
        return 2
    except Exception:  # a traceback must never look like a violation
        tb = traceback.format_exc()
        print(f"ANALYSIS-ERROR property={pid} internal error\n{tb}")
        return 2


if __name__ == "__main__":
    sys.exit(main())
