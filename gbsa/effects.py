"""EFFECTS: alias/ownership analysis, mutation summaries, global-state discipline (DESIGN 2.3).

Abstract value of an expression = frozenset of *roots* whose memory it may share:
  "P:<param>"      a parameter object of the current function (or anything reachable from it)
  "G:<mod>.<name>" a module-level object
  "F:<name>"       a free variable of an enclosing function
The empty set means Fresh (newly allocated here) or immutable.  The analysis is flow-sensitive
inside a function (rebinding `coords = coords - center` makes `coords` fresh) and
interprocedural through summaries iterated to a fixpoint.
"""
import ast

from .model import Func, ClassInfo, Module, EXCLUDED
from .report import AnalysisError

E = frozenset()


class Val(tuple):
    """(d, c): d = roots whose memory the object itself may share; c = roots that objects held by it
    (elements, attributes) may share.  Mutating a value touches d only."""

    def __new__(cls, d=E, c=E):
        return tuple.__new__(cls, (frozenset(d), frozenset(c)))

    d = property(lambda self: self[0])
    c = property(lambda self: self[1])

    @property
    def reach(self):
        return self[0] | self[1]

    def __or__(self, o):
        return Val(self[0] | o[0], self[1] | o[1])

    def __bool__(self):
        return bool(self[0] or self[1])

    def element(self):
        """an element / attribute / basic subscript of this object"""
        return Val(self[0] | self[1], self[1])

    def holder(self):
        """a fresh container holding this object (and what it holds)"""
        return Val(E, self[0] | self[1])


FRESH = Val()

# numpy / python API classification by (method or function) name ---------------------------------
VIEW_NAMES = {
    "swapaxes", "transpose", "squeeze", "reshape", "ravel", "asarray", "asanyarray", "diagonal",
    "broadcast_to", "view", "moveaxis", "expand_dims", "atleast_1d", "atleast_2d", "atleast_3d",
    "rollaxis", "einsum", "split", "array_split", "hsplit", "vsplit", "dsplit", "ascontiguousarray",
    "asfortranarray", "nditer", "flat", "real", "imag", "T", "mT", "__getitem__", "get", "values",
    "items", "keys", "conj", "conjugate",  # conj of a real array may return the array itself
    "trace_view", "broadcast_arrays", "require", "tolist_view",
}
# python builtins that build a container holding (aliases of) the elements of their arguments
CONTAINER_BUILTINS = {"list", "tuple", "dict", "set", "frozenset", "zip", "enumerate", "reversed",
                      "iter", "map", "filter", "sorted", "next", "getattr", "vars"}
FRESH_BUILTINS = {"len", "sum", "min", "max", "abs", "int", "float", "str", "bool", "complex",
                  "isinstance", "issubclass", "any", "all", "range", "hasattr", "type", "repr",
                  "print", "open", "round", "divmod", "pow", "format", "id", "hash", "callable",
                  "super", "slice", "ord", "chr", "ValueError", "TypeError", "AssertionError",
                  "KeyError", "IndexError", "NotImplementedError", "RuntimeError", "AttributeError",
                  "Exception", "ImportError", "OSError"}
MUTATING_METHODS = {
    "append", "extend", "insert", "pop", "remove", "clear", "sort", "reverse", "update",
    "setdefault", "popitem", "fill", "resize", "put", "itemset", "partition", "setflags",
    "add", "discard", "byteswap", "setfield", "__setitem__", "__delitem__", "__iadd__",
    "appendleft", "popleft", "write", "writelines", "shuffle",
}
# `add`/`update`/`write` are also names of harmless things; they only count when the receiver has roots.
MUTATING_FUNCS = {  # external functions that write into their first argument
    "put", "copyto", "place", "putmask", "fill_diagonal", "put_along_axis", "shuffle",
}
IMMUTABLE_ATTRS = {"shape", "size", "ndim", "dtype", "itemsize", "nbytes", "strides", "__class__",
                   "__name__"}
# calls that change process-wide numerical / interpreter state
GLOBAL_STATE_FUNCS = {
    "numpy.seterr", "numpy.seterrcall", "numpy.setbufsize", "numpy.set_printoptions",
    "numpy.random.seed", "numpy.random.set_state", "random.seed", "warnings.simplefilter",
    "warnings.filterwarnings", "warnings.resetwarnings", "numpy.set_string_function",
    "numpy.seterrobj", "os.chdir", "os.environ.update", "os.putenv", "sys.setrecursionlimit",
    "locale.setlocale", "numpy.random.default_rng.seed", "decimal.setcontext",
}
GLOBAL_STATE_CONTEXTS = {"numpy.errstate", "numpy.printoptions", "warnings.catch_warnings",
                         "decimal.localcontext"}
MEMO_DECORATORS = {"functools.lru_cache", "functools.cache", "lru_cache", "cache", "functools.cached_property",
                   "cached_property"}


class Event:
    """A mutation of memory that may be shared with `roots`."""

    def __init__(self, roots, func, node, kind, origin=None):
        self.roots = roots
        self.func = func
        self.node = node
        self.kind = kind
        self.origin = origin or (func, node)  # innermost statement

    @property
    def text(self):
        f, n = self.origin
        return ast.unparse(n).split("\n")[0][:140]

    @property
    def where(self):
        f, n = self.origin
        return f.where(n)


class Summary:
    def __init__(self):
        self.mutates = {}  # root (own params / globals / free) -> Event
        self.returns = FRESH  # Val in terms of the function's own roots
        self.global_stores = []  # (node, text)
        self.state_calls = []  # (node, fullname, guarded: bool, how)
        self.inplace_local = 0  # in-place statements classified as local (Fresh target)
        self.inplace_total = 0
        self.reads_attrs = set()

    def sig(self):
        return (frozenset(self.mutates), tuple(self.returns), len(self.global_stores), len(self.state_calls))


class Effects:
    def __init__(self, repo):
        self.repo = repo
        self.funcs = [f for f in repo.all_functions()]
        self.summ = {f: Summary() for f in self.funcs}
        self.by_method = {}
        for f in self.funcs:
            if f.cls is not None:
                self.by_method.setdefault(f.name, []).append(f)
        self.unknown_calls = []
        self.unclassified = []  # aug-assign on a parameter we cannot classify scalar/array
        self.call_edges = {}
        self.solve()

    # ------------------------------------------------------------------ fixpoint
    def solve(self):
        for _ in range(12):
            changed = False
            for f in self.funcs:
                old = self.summ[f].sig()
                self.summ[f] = FuncAnalysis(self, f).run()
                if self.summ[f].sig() != old:
                    changed = True
            if not changed:
                return
        raise AnalysisError("EFFECTS", "summary fixpoint did not converge in 12 rounds")

    # ------------------------------------------------------------------ callee resolution
    def resolve_callee(self, f, call):
        """-> ("gbasis", [Func...]) | ("class", ClassInfo) | ("external", fullname) | ("method", name, recv)
        | ("unknown", text)"""
        fn = call.func
        m = f.module
        if isinstance(fn, ast.Name):
            r = self.repo.resolve_name(m, fn.id, f)
            if isinstance(r, Func):
                return ("gbasis", [r])
            if isinstance(r, ClassInfo):
                return ("class", r)
            if isinstance(r, tuple) and r[0] == "external":
                return ("external", r[1])
            return ("name", fn.id)
        if isinstance(fn, ast.Attribute):
            recv = fn.value
            attr = fn.attr
            # dotted module path / class attribute
            try:
                dotted = ast.unparse(fn)
            except Exception:
                dotted = None
            if dotted and all(part.isidentifier() for part in dotted.split(".")):
                r = self.repo.resolve_name(m, dotted, f)
                if isinstance(r, Func):
                    return ("gbasis", [r])
                if isinstance(r, ClassInfo):
                    return ("class", r)
                if isinstance(r, tuple) and r[0] == "external":
                    return ("external", r[1])
            # self.m / cls.m : class-hierarchy analysis below the static receiver
            if isinstance(recv, ast.Name) and recv.id in ("self", "cls") and f.cls is not None:
                cands = []
                for c in [f.cls] + self.repo.subclasses(f.cls):
                    r = c.lookup(attr)
                    if isinstance(r, ast.AST):
                        r = self.repo.resolve_alias(c.module, r)
                    if isinstance(r, Func) and r not in cands:
                        cands.append(r)
                if cands:
                    return ("gbasis", cands)
            # super().m
            if isinstance(recv, ast.Call) and isinstance(recv.func, ast.Name) and recv.func.id == "super" and f.cls:
                for b in f.cls.mro()[1:]:
                    if attr in b.methods:
                        return ("gbasis", [b.methods[attr]])
                return ("external", "object." + attr)
            # ClassName(...).m
            if isinstance(recv, ast.Call):
                rc = self.resolve_callee(f, recv)
                if rc[0] == "class":
                    cands = []
                    for c in [rc[1]] + self.repo.subclasses(rc[1]):
                        r = c.lookup(attr)
                        if isinstance(r, ast.AST):
                            r = self.repo.resolve_alias(c.module, r)
                        if isinstance(r, Func) and r not in cands:
                            cands.append(r)
                    if cands:
                        return ("gbasis", cands)
            # by-name class hierarchy analysis over every gbasis class
            if attr in self.by_method:
                cands = [g for g in self.by_method[attr] if g.kind not in ("property", "setter")]
                if cands:
                    return ("gbasis-or-method", cands, attr)
            return ("method", attr)
        return ("unknown", ast.unparse(fn))


def _const_scalar(node):
    """module-level values that are immutable: scalars, strings, compiled regular expressions, tuples / frozensets of such"""
    if isinstance(node, ast.Constant) and isinstance(node.value, (int, float, complex, bool, str, bytes, type(None))):
        return True
    if isinstance(node, ast.Call) and ast.unparse(node.func) in ("re.compile", "frozenset", "float", "int", "str"):
        return True
    if isinstance(node, ast.Tuple):
        return all(_const_scalar(x) for x in node.elts)
    if isinstance(node, ast.UnaryOp):
        return _const_scalar(node.operand)
    if isinstance(node, ast.BinOp):
        return _const_scalar(node.left) and _const_scalar(node.right)
    return False


class FuncAnalysis:
    def __init__(self, eff, f):
        self.eff = eff
        self.repo = eff.repo
        self.f = f
        self.s = Summary()
        self.params = list(f.params)
        a = f.node.args
        self.vararg = a.vararg.arg if a.vararg else None
        self.kwarg = a.kwarg.arg if a.kwarg else None
        self.returns = FRESH

    @staticmethod
    def pval(p):
        return Val({"P:" + p}, {"P:" + p + ".*"})

    # ---- driver
    def run(self):
        env = {}
        for p in self.params + [x for x in (self.vararg, self.kwarg) if x]:
            env[p] = self.pval(p)
        self.localnames = self._assigned_names(self.f.node)
        self.block(self.f.node.body, env)
        self.s.returns = self.returns
        return self.s

    def _assigned_names(self, fn):
        names = set(self.params)
        for n in ast.walk(fn):
            if isinstance(n, ast.Name) and isinstance(n.ctx, (ast.Store, ast.Del)):
                names.add(n.id)
            elif isinstance(n, (ast.FunctionDef, ast.ClassDef)) and n is not fn:
                names.add(n.name)
            elif isinstance(n, ast.ExceptHandler) and n.name:
                names.add(n.name)
            elif isinstance(n, (ast.Import, ast.ImportFrom)):
                for a in n.names:
                    names.add((a.asname or a.name).split(".")[0])
        return names

    # ---- environment helpers
    @staticmethod
    def join(e1, e2):
        out = dict(e1)
        for k, v in e2.items():
            out[k] = out.get(k, FRESH) | v
        return out

    def mutate(self, val, node, kind):
        """The object `val` is written in place."""
        self.s.inplace_total += 1
        if not val.d:
            self.s.inplace_local += 1
            return
        for r in val.d:
            if r not in self.s.mutates:
                self.s.mutates[r] = Event(frozenset({r}), self.f, node, kind)

    def hold(self, target_node, v, env):
        """The object named by target_node now holds a reference to v."""
        if v and isinstance(target_node, ast.Name):
            env = dict(env)
            cur = self.name(target_node.id, env)
            env[target_node.id] = Val(cur.d, cur.c | v.reach)
        return env

    # ---- statements
    def block(self, stmts, env):
        for st in stmts:
            env = self.stmt(st, env)
        return env

    def stmt(self, st, env):
        f = self.f
        if isinstance(st, ast.Expr):
            self.expr(st.value, env)
            # receiver.append(v) etc: the receiver now holds v
            e = st.value
            if isinstance(e, ast.Call) and isinstance(e.func, ast.Attribute) and e.func.attr in (
                    "append", "extend", "insert", "add", "update", "setdefault", "appendleft"):
                v = FRESH
                for a in e.args:
                    v = v | self.expr(a, env)
                for k in e.keywords:
                    v = v | self.expr(k.value, env)
                env = self.hold(e.func.value, v, env)
            return env
        if isinstance(st, ast.Assign):
            v = self.expr(st.value, env)
            for t in st.targets:
                env = self.bind(t, v, env, st, value_node=st.value)
            return env
        if isinstance(st, ast.AnnAssign):
            if st.value is not None:
                v = self.expr(st.value, env)
                env = self.bind(st.target, v, env, st, value_node=st.value)
            return env
        if isinstance(st, ast.AugAssign):
            v = self.expr(st.value, env)
            t = st.target
            if isinstance(t, ast.Name):
                cur = self.name(t.id, env)
                if cur.d:
                    cls = self.classify_scalar(t.id)
                    if cls == "array":
                        self.mutate(cur, st, "aug-assign")
                    elif cls == "unknown":
                        self.eff.unclassified.append((f, st))
                        self.mutate(cur, st, "aug-assign")
                    else:  # python scalar: rebinding
                        env = dict(env)
                        env[t.id] = FRESH
                else:
                    self.mutate(cur, st, "aug-assign")
                    if isinstance(st.op, ast.Add) and v:  # list += list
                        env = self.hold(t, v, env)
                return env
            if isinstance(t, ast.Subscript):
                base = self.expr(t.value, env)
                self.expr(t.slice, env)
                self.mutate(base.element() if self._maybe_container_elem(t) else base, st, "aug-assign-subscript")
                return env
            if isinstance(t, ast.Attribute):
                # x.attr op= v : in-place update of the object held in the attribute (for an
                # immutable attribute value it is a rebinding, i.e. an attribute store)
                self.mutate(self.expr(t, env), st, "aug-assign-attr")
                self.mutate(self.expr(t.value, env), st, "aug-assign-attr")
                return env
            raise AnalysisError("EFFECTS", "unknown aug-assign target", f.where(st))
        if isinstance(st, ast.Return):
            if st.value is not None:
                self.returns = self.returns | self.expr(st.value, env)
            return env
        if isinstance(st, ast.Raise):
            if st.exc is not None:
                self.expr(st.exc, env)
            return env
        if isinstance(st, ast.If):
            self.expr(st.test, env)
            e1 = self.block(st.body, dict(env))
            e2 = self.block(st.orelse, dict(env))
            return self.join(e1, e2)
        if isinstance(st, (ast.For, ast.AsyncFor)):
            it = self.expr(st.iter, env)
            env = dict(env)
            for _ in range(4):  # loop to a fixpoint (sets only grow)
                e = self.bind_iter(st.target, st.iter, it, dict(env))
                e = self.block(st.body, e)
                new = self.join(env, e)
                if new == env:
                    break
                env = new
            env = self.block(st.orelse, env)
            return env
        if isinstance(st, ast.While):
            env = dict(env)
            for _ in range(4):
                self.expr(st.test, env)
                e = self.block(st.body, dict(env))
                new = self.join(env, e)
                if new == env:
                    break
                env = new
            return self.block(st.orelse, env)
        if isinstance(st, (ast.With, ast.AsyncWith)):
            env = dict(env)
            for item in st.items:
                v = self.expr(item.context_expr, env, as_context=True)
                if item.optional_vars is not None:
                    env = self.bind(item.optional_vars, v, env, st)
            return self.block(st.body, env)
        if isinstance(st, ast.Try):
            e = self.block(st.body, dict(env))
            e = self.join(env, e)
            outs = [self.block(st.orelse, dict(e))]
            for h in st.handlers:
                eh = dict(e)
                if h.name:
                    eh[h.name] = FRESH
                outs.append(self.block(h.body, eh))
            out = outs[0]
            for o in outs[1:]:
                out = self.join(out, o)
            return self.block(st.finalbody, out)
        if isinstance(st, (ast.Global, ast.Nonlocal)):
            self.s.global_stores.append((st, ast.unparse(st)))
            return env
        if isinstance(st, ast.Delete):
            for t in st.targets:
                if isinstance(t, ast.Subscript):
                    self.mutate(self.expr(t.value, env), st, "del-subscript")
                elif isinstance(t, ast.Attribute):
                    self.mutate(self.expr(t.value, env), st, "del-attr")
            return env
        if isinstance(st, (ast.FunctionDef, ast.AsyncFunctionDef, ast.ClassDef)):
            env = dict(env)
            env[st.name] = FRESH
            return env
        if isinstance(st, (ast.Import, ast.ImportFrom, ast.Pass, ast.Break, ast.Continue, ast.Assert)):
            if isinstance(st, ast.Assert):
                self.expr(st.test, env)
            return env
        raise AnalysisError("EFFECTS", f"unknown statement kind {type(st).__name__}", f.where(st))

    def _maybe_container_elem(self, sub):
        """x[i] op= v with a plain integer-like index may update an element object of a list."""
        sl = sub.slice
        elts = sl.elts if isinstance(sl, ast.Tuple) else [sl]
        return all(isinstance(x, (ast.Name, ast.Constant, ast.BinOp)) and not (isinstance(x, ast.Constant) and x.value is None)
                   for x in elts)

    def classify_scalar(self, name):
        """Is the local `name` (which may share memory with a caller-visible root) a python scalar?
        Evidence is collected from the function body; 'unknown' ends in an ANALYSIS-ERROR upstream."""
        fn = self.f.node
        array_ev = scalar_ev = False
        a = fn.args
        pos = a.posonlyargs + a.args
        defaults = dict(zip([x.arg for x in pos][len(pos) - len(a.defaults):], a.defaults))
        defaults.update({k.arg: d for k, d in zip(a.kwonlyargs, a.kw_defaults) if d is not None})
        if name in defaults and _const_scalar(defaults[name]) and defaults[name].value is not None:
            scalar_ev = True
        for n in ast.walk(fn):
            if isinstance(n, ast.Subscript) and isinstance(n.value, ast.Name) and n.value.id == name:
                array_ev = True
            elif isinstance(n, ast.Attribute) and isinstance(n.value, ast.Name) and n.value.id == name:
                if n.attr in ("shape", "T", "ndim", "size", "dtype", "dot", "reshape", "sum", "clip"):
                    array_ev = True
            elif isinstance(n, ast.Call) and isinstance(n.func, ast.Name) and n.func.id == "isinstance" and len(n.args) == 2:
                if isinstance(n.args[0], ast.Name) and n.args[0].id == name:
                    t = ast.unparse(n.args[1])
                    if "ndarray" in t:
                        array_ev = True
                    elif t in ("int", "float", "(int, float)", "(float, int)", "Integral", "str", "bool"):
                        scalar_ev = True
            elif isinstance(n, ast.Call) and isinstance(n.func, ast.Name) and n.func.id == "range":
                if any(isinstance(x, ast.Name) and x.id == name for x in n.args):
                    scalar_ev = True
        if array_ev:
            return "array"
        if scalar_ev:
            return "scalar"
        if name not in self.params:
            # derived from a caller-visible object through a view / attribute / call
            return "array"
        return "unknown"

    # ---- binding
    def bind(self, target, v, env, st, value_node=None):
        f = self.f
        if isinstance(target, ast.Name):
            env = dict(env)
            env[target.id] = v
            return env
        if isinstance(target, (ast.Tuple, ast.List)):
            if isinstance(value_node, (ast.Tuple, ast.List)) and len(value_node.elts) == len(target.elts) and not any(
                    isinstance(e, ast.Starred) for e in target.elts):
                vals = [self.expr(e, env) for e in value_node.elts]
                for t, vv, vn in zip(target.elts, vals, value_node.elts):
                    env = self.bind(t, vv, env, st, vn)
                return env
            ev = v.element()
            for t in target.elts:
                if isinstance(t, ast.Starred):
                    t = t.value
                env = self.bind(t, ev, env, st)
            return env
        if isinstance(target, ast.Subscript):
            base = self.expr(target.value, env)
            self.expr(target.slice, env)
            self.mutate(base, st, "subscript-store")
            return self.hold(target.value, v, env)
        if isinstance(target, ast.Attribute):
            base = self.expr(target.value, env)
            self.mutate(base, st, "attribute-store")
            if isinstance(target.value, ast.Name):
                r = self.repo.resolve_name(f.module, target.value.id, f)
                if isinstance(r, (ClassInfo, Module)) or target.value.id == "cls":
                    self.s.global_stores.append((st, ast.unparse(st).split("\n")[0]))
                env = dict(env)
                env[target.value.id + "." + target.attr] = v
            return self.hold(target.value, v, env)
        if isinstance(target, ast.Starred):
            return self.bind(target.value, v, env, st)
        raise AnalysisError("EFFECTS", f"unknown assignment target {type(target).__name__}", f.where(st))

    def bind_iter(self, target, iter_node, it, env):
        """Bind loop/comprehension targets from an iterable with value `it`."""
        if isinstance(iter_node, ast.Call) and isinstance(iter_node.func, ast.Name):
            fn = iter_node.func.id
            if fn == "range":
                return self._bind_all(target, FRESH, env)
            if fn == "enumerate" and isinstance(target, (ast.Tuple, ast.List)) and len(target.elts) == 2 and iter_node.args:
                env = self._bind_all(target.elts[0], FRESH, env)
                inner = iter_node.args[0]
                return self.bind_iter(target.elts[1], inner, self.expr(inner, env), env)
            if fn == "zip" and isinstance(target, (ast.Tuple, ast.List)) and len(target.elts) == len(iter_node.args):
                for t, a in zip(target.elts, iter_node.args):
                    env = self.bind_iter(t, a, self.expr(a, env), env)
                return env
        return self._bind_all(target, it.element(), env)

    def _bind_all(self, target, v, env):
        if isinstance(target, ast.Name):
            env = dict(env)
            env[target.id] = v
            return env
        if isinstance(target, (ast.Tuple, ast.List)):
            ev = v.element() if v else v
            for t in target.elts:
                env = self._bind_all(t.value if isinstance(t, ast.Starred) else t, ev, env)
            return env
        if isinstance(target, (ast.Subscript, ast.Attribute)):
            base = self.expr(target.value, env)
            self.mutate(base, target, "loop-target-store")
            return env
        raise AnalysisError("EFFECTS", "unknown loop target", self.f.where(target))

    # ---- expressions
    def name(self, ident, env):
        if ident in env:
            return env[ident]
        if ident in self.localnames:
            return FRESH  # assigned later on some path (e.g. in a branch)
        f = self.f
        o = f.outer
        while o is not None:
            names = {n.id for n in ast.walk(o.node) if isinstance(n, ast.Name) and isinstance(n.ctx, ast.Store)}
            if ident in names or ident in o.params:
                return Val({"F:" + ident}, {"F:" + ident})
            o = o.outer
        m = f.module
        if ident in m.globals:
            val = m.globals[ident]
            if _const_scalar(val):
                return FRESH
            g = f"G:{m.name}.{ident}"
            return Val({g}, {g})
        if ident in m.imports:
            imp = m.imports[ident]
            if imp[0] == "symbol":
                src = self.repo.modules.get(imp[1])
                if src is not None and imp[2] in src.globals and not _const_scalar(src.globals[imp[2]]):
                    g = f"G:{src.name}.{imp[2]}"
                    return Val({g}, {g})
        return FRESH

    def attr_val(self, base, attr):
        if attr in IMMUTABLE_ATTRS or not base:
            return FRESH
        if attr in ("T", "real", "imag", "flat", "mT"):
            return base
        getters = [g for g in self.eff.by_method.get(attr, []) if g.kind == "property"]
        if getters:
            out = FRESH
            for g in getters:
                out = out | self.translate(self.eff.summ[g].returns, {"self": base})
            return out
        return Val(base.c, base.c)

    def translate(self, val, amap):
        """Rewrite a callee-side value into caller terms."""
        def tr(roots):
            out = E
            for r in roots:
                if r.startswith("P:"):
                    q = r[2:]
                    if q.endswith(".*"):
                        out |= amap.get(q[:-2], FRESH).c
                    else:
                        out |= amap.get(q, FRESH).d
                else:
                    out |= {r}
            return out
        return Val(tr(val.d), tr(val.c))

    def expr(self, e, env, as_context=False):
        f = self.f
        if e is None:
            return FRESH
        if isinstance(e, ast.Constant):
            return FRESH
        if isinstance(e, ast.Name):
            return self.name(e.id, env)
        if isinstance(e, ast.Attribute):
            base = self.expr(e.value, env)
            self.s.reads_attrs.add(e.attr)
            if isinstance(e.value, ast.Name) and (e.value.id + "." + e.attr) in env:
                return env[e.value.id + "." + e.attr]  # field assigned earlier in this function
            return self.attr_val(base, e.attr)
        if isinstance(e, ast.Subscript):
            base = self.expr(e.value, env)
            self.expr(e.slice, env)
            if not base:
                return FRESH
            if self._is_advanced_index(e.slice, env):
                return Val(E, base.c)
            return base.element()
        if isinstance(e, ast.Slice):
            for x in (e.lower, e.upper, e.step):
                self.expr(x, env)
            return FRESH
        if isinstance(e, (ast.Tuple, ast.List, ast.Set)):
            out = FRESH
            for x in e.elts:
                out = out | self.expr(x.value if isinstance(x, ast.Starred) else x, env)
            return out.holder()
        if isinstance(e, ast.Dict):
            out = FRESH
            for k, v in zip(e.keys, e.values):
                if k is not None:
                    self.expr(k, env)
                out = out | self.expr(v, env)
            return out.holder()
        if isinstance(e, ast.BinOp):
            l = self.expr(e.left, env)
            r = self.expr(e.right, env)
            if isinstance(e.op, (ast.Add, ast.Mult)) and (
                    isinstance(e.left, (ast.List, ast.Tuple)) or isinstance(e.right, (ast.List, ast.Tuple))):
                return Val(E, l.c | r.c)  # list + list / [x] * n : new list, same elements
            return FRESH
        if isinstance(e, ast.UnaryOp):
            self.expr(e.operand, env)
            return FRESH
        if isinstance(e, ast.BoolOp):
            out = FRESH
            for x in e.values:
                out = out | self.expr(x, env)
            return out
        if isinstance(e, ast.Compare):
            self.expr(e.left, env)
            for x in e.comparators:
                self.expr(x, env)
            return FRESH
        if isinstance(e, ast.IfExp):
            self.expr(e.test, env)
            return self.expr(e.body, env) | self.expr(e.orelse, env)
        if isinstance(e, (ast.ListComp, ast.SetComp, ast.GeneratorExp, ast.DictComp)):
            env2 = dict(env)
            for g in e.generators:
                it = self.expr(g.iter, env2)
                env2 = self.bind_iter(g.target, g.iter, it, env2)
                for c in g.ifs:
                    self.expr(c, env2)
            if isinstance(e, ast.DictComp):
                self.expr(e.key, env2)
                return self.expr(e.value, env2).holder()
            return self.expr(e.elt, env2).holder()
        if isinstance(e, ast.JoinedStr):
            for v in e.values:
                if isinstance(v, ast.FormattedValue):
                    self.expr(v.value, env)
            return FRESH
        if isinstance(e, ast.FormattedValue):
            self.expr(e.value, env)
            return FRESH
        if isinstance(e, ast.Starred):
            return self.expr(e.value, env)
        if isinstance(e, ast.Lambda):
            return FRESH
        if isinstance(e, ast.NamedExpr):
            v = self.expr(e.value, env)
            env[e.target.id] = v
            return v
        if isinstance(e, ast.Call):
            return self.call(e, env, as_context)
        if isinstance(e, ast.Await):
            return self.expr(e.value, env)
        if isinstance(e, (ast.Yield, ast.YieldFrom)):
            # a generator (e.g. a @contextmanager helper): the yielded value goes to the consumer, what is sent back is unknown
            if e.value is not None:
                self.expr(e.value, env)
            return FRESH
        raise AnalysisError("EFFECTS", f"unknown expression kind {type(e).__name__}", f.where(e))

    def _is_advanced_index(self, sl, env):
        """True when the subscript certainly contains an index array / mask (numpy returns a copy)."""
        elts = sl.elts if isinstance(sl, ast.Tuple) else [sl]
        for x in elts:
            if isinstance(x, (ast.List, ast.Compare, ast.ListComp)):
                return True
            if isinstance(x, ast.UnaryOp) and isinstance(x.op, ast.Invert):
                return True
            if isinstance(x, ast.Call):
                t = ast.unparse(x.func)
                if t.split(".")[-1] in ("arange", "array", "where", "nonzero", "triu_indices", "tril_indices",
                                        "reshape", "argsort", "flatnonzero"):
                    return True
            if isinstance(x, ast.Subscript):
                inner = x.slice.elts if isinstance(x.slice, ast.Tuple) else [x.slice]
                if any(isinstance(i, ast.Slice) or (isinstance(i, ast.Constant) and i.value is None) for i in inner):
                    return True
        return False

    # ---- calls
    def call(self, e, env, as_context=False):
        f = self.f
        argv = [self.expr(a, env) for a in e.args]
        kwv = [(k.arg, self.expr(k.value, env)) for k in e.keywords]
        kwd = dict((k, v) for k, v in kwv if k is not None)
        allargs = FRESH
        for v in argv:
            allargs = allargs | v
        for _k, v in kwv:
            allargs = allargs | v
        touched = {a.id for a in e.args if isinstance(a, ast.Name)}
        if isinstance(e.func, ast.Attribute) and isinstance(e.func.value, ast.Name):
            touched.add(e.func.value.id)
        for k in [k for k in env if "." in k and k.split(".")[0] in touched]:
            del env[k]  # a callee may rebind fields of an object it receives
        res = self.eff.resolve_callee(f, e)
        kind = res[0]
        recv = FRESH
        if isinstance(e.func, ast.Attribute):
            recv = self.expr(e.func.value, env)
        self.eff.call_edges.setdefault(f, []).append((e, res))

        if kind == "external":
            full = res[1]
            if full.startswith("np."):
                full = "numpy." + full[3:]
            short = full.split(".")[-1]
            if full in GLOBAL_STATE_FUNCS:
                self.s.state_calls.append((e, full))
            if full in GLOBAL_STATE_CONTEXTS and not as_context:
                self.s.state_calls.append((e, full + " (not used as a context manager)"))
            if "out" in kwd:
                self.mutate(kwd["out"], e, "out= keyword")
                return kwd["out"]
            if short in MUTATING_FUNCS and argv:
                self.mutate(argv[0], e, f"call of {full}")
                return FRESH
            if short == "at" and argv:  # ufunc.at(a, idx, b)
                self.mutate(argv[0], e, "ufunc.at")
                return FRESH
            if full.split(".")[0] != "numpy":
                # third-party / stdlib function: assumed not to mutate its arguments; result may hold them
                if full.split(".")[0] in ("scipy", "math", "re", "itertools", "numbers", "collections", "abc"):
                    if full.split(".")[0] == "itertools":
                        return allargs.holder()
                    return FRESH
                return allargs.holder() | Val(allargs.reach, E)
            if short == "array":
                cp = [k for k in e.keywords if k.arg == "copy"]
                if cp and isinstance(cp[0].value, ast.Constant) and cp[0].value.value is False:
                    return argv[0] if argv else FRESH
                dt = [k for k in e.keywords if k.arg == "dtype"]
                if dt and ast.unparse(dt[0].value) == "object":
                    return allargs.holder()
                return FRESH
            if short == "einsum":
                # one operand and no summed / repeated-output index: may be a view (diagonal, transpose); otherwise numpy
                # allocates the result
                arrs = [a for a in e.args if not (isinstance(a, ast.Constant) and isinstance(a.value, str))]
                spec = e.args[0].value if e.args and isinstance(e.args[0], ast.Constant) and isinstance(e.args[0].value, str) else None
                if len(arrs) > 1 or any(k.arg == "out" for k in e.keywords) is False and spec is not None and "->" in spec and \
                        set(spec.split("->")[0].replace(" ", "")) != set(spec.split("->")[1].replace(" ", "")):
                    return FRESH
                return allargs
            if short in VIEW_NAMES:
                return allargs
            if short in ("zeros", "empty", "full") and any(ast.unparse(k.value) == "object" for k in e.keywords if k.arg == "dtype"):
                return FRESH
            return FRESH
        if kind == "class":
            c = res[1]
            init = c.lookup("__init__")
            if isinstance(init, Func):
                self.apply_summary(init, e, [FRESH] + argv, kwv)
            return allargs.holder()
        if kind in ("gbasis", "gbasis-or-method"):
            out = FRESH
            for g in res[1]:
                args = argv
                if g.kind in ("method", "property", "setter") and isinstance(e.func, ast.Attribute):
                    args = [recv] + argv
                elif g.kind == "classmethod":
                    args = [FRESH] + argv
                out = out | self.apply_summary(g, e, args, kwv)
            if kind == "gbasis-or-method":
                out = out | self.method_call(e, res[2], recv, argv, kwd, allargs)
            return out
        if kind == "method":
            return self.method_call(e, res[1], recv, argv, kwd, allargs)
        if kind == "name":
            nm = res[1]
            if nm in ("setattr", "delattr"):
                if argv:
                    self.mutate(argv[0], e, nm)
                return FRESH
            if nm in FRESH_BUILTINS:
                return FRESH
            if nm in ("next", "getattr"):
                return argv[0].element() if argv else FRESH
            if nm in CONTAINER_BUILTINS:
                return Val(E, allargs.reach)
            if nm in ("exec", "eval", "compile", "__import__", "globals", "locals"):
                raise AnalysisError("EFFECTS", f"dynamic construct {nm}() defeats the analysis", f.where(e))
            if nm in env or nm in self.params:
                # calling a caller-supplied function (boys_func): assumed pure w.r.t. its arguments;
                # every implementation in gbasis is analysed on its own
                return FRESH
            o = f.outer
            while o is not None:
                if nm in o.params or nm in {n.id for n in ast.walk(o.node) if isinstance(n, ast.Name) and isinstance(n.ctx, ast.Store)}:
                    # a callable captured from the enclosing function (decorator idiom): same assumption
                    return FRESH
                o = o.outer
            self.eff.unknown_calls.append((f, e))
            return FRESH
        self.eff.unknown_calls.append((f, e))
        return allargs

    def method_call(self, e, attr, recv, argv, kwd, allargs):
        if attr in MUTATING_METHODS:
            self.mutate(recv, e, f".{attr}()")
            if attr in ("pop", "popitem", "setdefault", "popleft"):
                return Val(recv.c, recv.c)
            return FRESH
        if "out" in kwd:
            self.mutate(kwd["out"], e, "out= keyword")
            return kwd["out"]
        if attr in VIEW_NAMES:
            return recv.element() if attr in ("get", "values", "items", "keys", "__getitem__") else recv
        return FRESH

    def apply_summary(self, g, call, args, kwv):
        """Map callee summary (in terms of its parameter names) onto the actual arguments."""
        if g not in self.eff.summ:
            return FRESH  # excluded module
        gs = self.eff.summ[g]
        a = g.node.args
        names = [x.arg for x in a.posonlyargs + a.args]
        kwonly = [x.arg for x in a.kwonlyargs]
        amap = {}
        for nm, v in zip(names, args):
            amap[nm] = v
        extra = args[len(names):]
        if a.vararg:
            v = FRESH
            for x in extra:
                v = v | x
            amap[a.vararg.arg] = v.holder()
        for k, v in kwv:
            if k is None:  # **kwargs pass-through: may reach any parameter not bound yet
                if a.kwarg:
                    amap[a.kwarg.arg] = amap.get(a.kwarg.arg, FRESH) | v
                for nm in names + kwonly:
                    if nm not in amap:
                        amap[nm] = v.element()
            elif k in names or k in kwonly:
                amap[k] = v
            elif a.kwarg:
                amap[a.kwarg.arg] = amap.get(a.kwarg.arg, FRESH) | v.holder()
        for root, ev in gs.mutates.items():
            mapped = self.translate(Val({root}, E), amap).d
            for r in mapped:
                if r not in self.s.mutates:
                    self.s.mutates[r] = Event(frozenset({r}), self.f, call, "via " + g.qualname, ev.origin)
        return self.translate(gs.returns, amap)
