"""FORMULA: elementwise abstraction of straight-line numpy code into sympy expressions (DESIGN 2.4).

Broadcasting adapters (None/slice subscripts, .T, reshape, squeeze, swapaxes, transpose, newaxis) are
dropped: every array becomes the scalar expression of its generic element.  Reductions over an axis
become the uninterpreted, linear wrappers Sum(.) / Prod(.).  Masked stores become Piecewise.
sympy is used as a normal-form engine only.
"""
import ast

import sympy as sp

from .astutil import dotted
from .report import AnalysisError


class LinearSum(sp.Function):
    """Sum over an array axis: linear, so numeric factors and signs are pulled out."""
    nargs = (1, 2)

    @classmethod
    def eval(cls, x, tag=None):
        x = sp.expand(x) if x.is_Add else x
        if x.is_Add:
            return sp.Add(*[cls(a, tag) if tag is not None else cls(a) for a in x.args])
        c, rest = x.as_coeff_Mul()
        if c != 1:
            return c * (cls(rest, tag) if tag is not None else cls(rest))
        if x == 0:
            return sp.Integer(0)


class Restrict(sp.Function):
    """x[mask] read: the generic element of the part of `x` selected by the boolean condition.  A later sum over the
    filtered axis runs over the selected elements only, i.e. it is the full sum of the indicator-weighted summand."""
    nargs = (2,)

    def _eval_is_extended_real(self):
        return self.args[0].is_extended_real

    def _eval_is_real(self):
        return self.args[0].is_real

    def _eval_is_complex(self):
        return self.args[0].is_complex


def strip_restrict(x):
    conds = []
    while True:
        rs = [a for a in x.atoms(Restrict)] if hasattr(x, "atoms") else []
        if not rs:
            break
        for r in rs:
            conds.append(r.args[1])
            x = x.xreplace({r: r.args[0]})
    return x, conds


class Sliced(sp.Function):
    """x[index] where the index selects or re-orders elements (used by the forwarded-input rules)"""
    nargs = (2,)


class Prod(sp.Function):
    nargs = (1, 2)


ADAPTER_CALLS = {"reshape", "squeeze", "swapaxes", "transpose", "ravel", "flatten", "astype", "copy",
                 "asarray", "array", "atleast_1d", "atleast_2d", "broadcast_to", "expand_dims", "moveaxis",
                 "conj", "conjugate", "real"}
UFUNCS = {
    "exp": sp.exp, "sqrt": sp.sqrt, "log": sp.log, "abs": sp.Abs, "absolute": sp.Abs, "sin": sp.sin, "cos": sp.cos,
    "square": lambda x: x ** 2, "negative": lambda x: -x, "log10": lambda x: sp.log(x, 10),
}
BINFUNCS = {"multiply": lambda a, b: a * b, "add": lambda a, b: a + b, "subtract": lambda a, b: a - b,
            "divide": lambda a, b: a / b, "true_divide": lambda a, b: a / b, "power": lambda a, b: a ** b,
            "maximum": lambda a, b: sp.Max(a, b), "minimum": lambda a, b: sp.Min(a, b)}


class Elem:
    """Elementwise symbolic interpreter for a function body.

    symbols: initial name -> sympy expr.  handlers: callee dotted-name -> callable(interp, call_node, args)
    returning a sympy expr (or None to fall back to an uninterpreted function)."""

    def __init__(self, func, symbols, handlers=None, rule="FORMULA", attr_symbols=None, keep_int_subscript=False):
        self.func = func
        self.env = dict(symbols)
        self.handlers = handlers or {}
        self.rule = rule
        self.attr_symbols = attr_symbols or {}
        self.keep_int_subscript = keep_int_subscript
        self.returns = []
        self.log = []

    def err(self, msg, node):
        raise AnalysisError(self.rule, msg, self.func.where(node))

    def check_not_opaque(self, value, node):
        bad = [str(x) for x in getattr(value, "free_symbols", []) if str(x).startswith("OPAQUE_")]
        if bad:
            self.err(f"result depends on values the elementwise abstraction does not model: {bad}", node)

    # ---------------------------------------------------------------- statements
    def run(self, stmts=None):
        for st in (self.func.node.body if stmts is None else stmts):
            self.stmt(st)
        return self

    def stmt(self, st):
        if isinstance(st, ast.Expr):
            if isinstance(st.value, ast.Constant):
                return
            self.expr(st.value)
            return
        if isinstance(st, ast.Assign):
            try:
                v = self.expr(st.value)
            except AnalysisError:
                # a value this abstraction does not model: opaque; using it in a checked result is an error
                if not getattr(self, "lenient", False) or not all(isinstance(t, ast.Name) for t in st.targets):
                    raise
                v = sp.Symbol("OPAQUE_" + st.targets[0].id)
            for t in st.targets:
                self.assign(t, v, st)
            return
        if isinstance(st, ast.AugAssign):
            cur = self.expr(st.target)
            v = self.expr(st.value)
            self.assign(st.target, self.binop(st.op, cur, v, st), st)
            return
        if isinstance(st, ast.Return):
            self.returns.append((st, self.expr(st.value) if st.value is not None else None))
            return
        if isinstance(st, ast.For) and isinstance(st.target, ast.Name) and not st.orelse:
            # a loop over a handful of literal values (Cartesian directions): unrolled
            vals = None
            it = st.iter
            if isinstance(it, (ast.Tuple, ast.List)) and all(isinstance(x, ast.Constant) and isinstance(x.value, int) for x in it.elts):
                vals = [x.value for x in it.elts]
            elif isinstance(it, ast.Call) and dotted(it.func) == "range" and all(isinstance(x, ast.Constant) and isinstance(x.value, int) for x in it.args) and it.args:
                vals = list(range(*[x.value for x in it.args]))
            if vals is not None and len(vals) <= 8:
                for v_ in vals:
                    self.env[st.target.id] = sp.Integer(v_)
                    for s_ in st.body:
                        self.stmt(s_)
                return
        if isinstance(st, ast.If):
            self.on_if(st)
            return
        if isinstance(st, ast.Raise):
            return
        if isinstance(st, ast.With):
            for s in st.body:
                self.stmt(s)
            return
        if isinstance(st, (ast.Pass, ast.Import, ast.ImportFrom)):
            return
        self.err(f"statement kind {type(st).__name__} not modelled", st)

    def on_if(self, st):
        """Default: validation guards (body ends in raise) are skipped; other ifs are an error unless a
        subclass/handler decides."""
        if st.body and isinstance(st.body[-1], ast.Raise) and not st.orelse:
            return
        self.err("branch not modelled", st)

    def assign(self, t, v, st):
        if isinstance(t, ast.Name):
            self.env[t.id] = v
            return
        if isinstance(t, ast.Subscript) and isinstance(t.value, ast.Name):
            # masked store X[mask] = v -> Piecewise
            sl = t.slice
            mask = self.mask_of(sl)
            cur = self.env.get(t.value.id)
            if cur is None:
                self.err("store into unknown array", st)
            if mask is None:
                self.err("subscript store is not a boolean-mask store", st)
            self.env[t.value.id] = sp.Piecewise((v, mask), (cur, True))
            self.log.append(("masked-store", t.value.id, mask, v, st))
            return
        if isinstance(t, ast.Tuple) and isinstance(v, tuple) and len(v) == len(t.elts):
            for tt, vv in zip(t.elts, v):
                self.assign(tt, vv, st)
            return
        self.err("assignment target not modelled", st)

    def mask_of(self, sl):
        """A subscript that is a boolean condition (Compare / BoolOp / np.isclose / name bound to one)."""
        if isinstance(sl, ast.Compare):
            return self.compare(sl)
        if isinstance(sl, ast.Call) and dotted(sl.func) in ("np.isclose", "numpy.isclose") and len(sl.args) >= 2:
            return self.expr(sl)
        if isinstance(sl, (ast.BoolOp, ast.UnaryOp)):
            v = self.expr(sl)
            if isinstance(v, (sp.core.relational.Relational, sp.logic.boolalg.BooleanFunction)):
                return v
        if isinstance(sl, ast.Name):
            v = self.env.get(sl.id)
            if isinstance(v, (sp.core.relational.Relational, sp.logic.boolalg.BooleanFunction)):
                return v
        return None

    # ---------------------------------------------------------------- expressions
    def compare(self, e):
        if len(e.ops) != 1:
            self.err("chained comparison", e)
        op = e.ops[0]
        if isinstance(op, (ast.Is, ast.IsNot)):
            # identity tests (`x is None`) are path facts, not arithmetic: an uninterpreted boolean
            b = sp.Symbol("IS_" + ast.unparse(e.left) + "_" + ast.unparse(e.comparators[0]))
            return b if isinstance(op, ast.Is) else sp.Not(b)
        l, r = self.expr(e.left), self.expr(e.comparators[0])
        table = {ast.Lt: sp.Lt, ast.LtE: sp.Le, ast.Gt: sp.Gt, ast.GtE: sp.Ge, ast.Eq: sp.Eq, ast.NotEq: sp.Ne}
        for k, fn in table.items():
            if isinstance(op, k):
                return fn(l, r)
        self.err("comparison operator", e)

    @staticmethod
    def indicator(v):
        """a boolean used in arithmetic counts as 0/1"""
        if isinstance(v, (sp.core.relational.Relational, sp.logic.boolalg.BooleanFunction, sp.logic.boolalg.BooleanAtom)):
            return sp.Piecewise((sp.Integer(1), v), (sp.Integer(0), True))
        return v

    def binop(self, op, l, r, node):
        l, r = self.indicator(l), self.indicator(r)
        if isinstance(op, ast.Add):
            return l + r
        if isinstance(op, ast.Sub):
            return l - r
        if isinstance(op, ast.Mult):
            return l * r
        if isinstance(op, ast.Div):
            return l / r
        if isinstance(op, ast.Pow):
            return l ** r
        if isinstance(op, ast.FloorDiv):
            return sp.floor(l / r)
        if isinstance(op, ast.Mod):
            return sp.Mod(l, r)
        self.err("operator", node)

    def const(self, v):
        if isinstance(v, bool):
            return sp.true if v else sp.false
        if isinstance(v, int):
            return sp.Integer(v)
        if isinstance(v, float):
            return sp.nsimplify(v, rational=True)
        if v is None:
            return None
        return v

    def expr(self, e):
        if isinstance(e, ast.Constant):
            return self.const(e.value)
        if isinstance(e, ast.Name):
            if e.id in self.env:
                return self.env[e.id]
            self.err(f"name `{e.id}` has no symbolic value", e)
        if isinstance(e, ast.UnaryOp):
            v = self.expr(e.operand)
            if isinstance(e.op, ast.USub):
                return -v
            if isinstance(e.op, ast.UAdd):
                return v
            if isinstance(e.op, (ast.Not, ast.Invert)):
                return sp.Not(v)
            self.err("unary operator", e)
        if isinstance(e, ast.BinOp):
            return self.binop(e.op, self.expr(e.left), self.expr(e.right), e)
        if isinstance(e, ast.Compare):
            return self.compare(e)
        if isinstance(e, ast.BoolOp):
            vals = [self.expr(v) for v in e.values]
            return sp.And(*vals) if isinstance(e.op, ast.And) else sp.Or(*vals)
        if isinstance(e, ast.Subscript):
            if isinstance(e.value, ast.Attribute) and e.value.attr == "shape" and isinstance(e.slice, ast.Constant) and isinstance(e.slice.value, int):
                # an array extent: an opaque positive integer (never an element value)
                return sp.Symbol(f"DIM_{ast.unparse(e.value.value)}_{e.slice.value}".replace(".", "_"), positive=True, integer=True)
            base = self.expr(e.value)
            sl = e.slice
            elts = sl.elts if isinstance(sl, ast.Tuple) else [sl]
            cs = getattr(self, "component_symbols", None)
            if cs is not None and len(elts) == 2 and isinstance(elts[0], ast.Slice) and elts[0].lower is None and elts[0].upper is None \
                    and isinstance(elts[1], ast.Constant) and elts[1].value in (0, 1, 2) and hasattr(base, "has") and base.has(cs[0]):
                # column k of a (components, 3) table: the generic component exponent becomes the x / y / z exponent
                return base.subs(cs[0], cs[1][elts[1].value])
            csm = getattr(self, "component_symbols_multi", None)
            if csm and hasattr(base, "has"):
                # arrays with one Cartesian axis: an integer on that axis (a literal or an unrolled loop variable), everything else
                # slices / newaxis, picks the x / y / z member of every generic symbol in the value
                ints = []
                for z in elts:
                    if isinstance(z, ast.Constant) and isinstance(z.value, int) and not isinstance(z.value, bool):
                        ints.append(z.value)
                    elif isinstance(z, ast.Name) and isinstance(self.env.get(z.id), sp.Integer):
                        ints.append(int(self.env[z.id]))
                    elif isinstance(z, ast.Slice) and z.lower is None and z.upper is None and z.step is None:
                        continue
                    elif (isinstance(z, ast.Constant) and z.value is None) or (isinstance(z, ast.Attribute) and z.attr == "newaxis"):
                        continue
                    else:
                        ints = None
                        break
                if ints is not None and len(ints) == 1 and ints[0] in (0, 1, 2) and any(base.has(g_) for g_ in csm):
                    return base.subs({g_: comps_[ints[0]] for g_, comps_ in csm.items()}, simultaneous=True)
            if all(isinstance(x, ast.Slice) or (isinstance(x, ast.Constant) and (x.value is None or x.value is Ellipsis or isinstance(x.value, int)))
                   or (isinstance(x, ast.UnaryOp) and isinstance(x.op, ast.USub) and isinstance(x.operand, ast.Constant))
                   or (isinstance(x, ast.Attribute) and x.attr == "newaxis") for x in elts):
                return base  # broadcasting adapter / component selection: same generic element
            m = self.mask_of(sl)
            if m is not None:
                # masked read: the generic element of the selected part (the selection itself is kept only on request)
                return Restrict(base, m) if getattr(self, "track_restrict", False) else base
            if isinstance(sl, ast.Name) or all(isinstance(x, (ast.Name, ast.Slice, ast.Constant)) for x in elts):
                return base
            self.err("subscript not modelled", e)
        if isinstance(e, ast.Attribute):
            d = dotted(e)
            if isinstance(e.value, ast.Call) and dotted(e.value.func) in ("np.finfo", "numpy.finfo") and e.attr in ("eps", "tiny", "max", "min", "resolution", "smallest_normal"):
                return sp.Symbol("FINFO_" + e.attr, positive=True)
            if d in self.attr_symbols:
                return self.attr_symbols[d]
            if e.attr in ("T", "real"):
                return self.expr(e.value)
            if d in ("np.pi", "numpy.pi", "math.pi"):
                return sp.pi
            if d in ("np.newaxis",):
                return None
            v = self.shell_property(e)
            if v is not None:
                return v[0]
            self.err(f"attribute `{d}` has no symbolic value", e)
        if isinstance(e, ast.Tuple):
            return tuple(self.expr(x) for x in e.elts)
        if isinstance(e, ast.Call):
            return self.call(e)
        if isinstance(e, ast.IfExp):
            return sp.Piecewise((self.expr(e.body), self.expr(e.test)), (self.expr(e.orelse), True))
        self.err(f"expression kind {type(e).__name__} not modelled", e)

    def _clip(self, x, args, keywords, node):
        """x.clip(lo, hi) / np.clip(x, lo, hi), keyword names min/max (a_min/a_max); None = no bound"""
        lo = hi = None
        pos = list(args)
        if pos:
            lo = pos[0]
        if len(pos) > 1:
            hi = pos[1]
        for k in keywords:
            if k.arg in ("min", "a_min"):
                lo = k.value
            elif k.arg in ("max", "a_max"):
                hi = k.value
            else:
                self.err(f"keyword {k.arg} of clip", node)
        out = x
        if lo is not None and not (isinstance(lo, ast.Constant) and lo.value is None):
            out = sp.Max(out, self.expr(lo))
        if hi is not None and not (isinstance(hi, ast.Constant) and hi.value is None):
            out = sp.Min(out, self.expr(hi))
        return out

    def call(self, e):
        d = dotted(e.func)
        short = d.split(".")[-1] if d else None
        if d in ("np.clip", "numpy.clip") and e.args:
            return self._clip(self.expr(e.args[0]), e.args[1:], e.keywords, e)
        if d in ("max", "min") and len(e.args) == 2 and not e.keywords:
            a_, b_ = self.expr(e.args[0]), self.expr(e.args[1])
            return sp.Max(a_, b_) if d == "max" else sp.Min(a_, b_)
        if isinstance(e.func, ast.Attribute) and isinstance(e.func.value, ast.Call) and False:
            pass
        if d in ("np.isclose", "numpy.isclose", "math.isclose") and len(e.args) >= 2:
            # |a - b| <= atol + rtol |b| with the (positive) tolerances kept symbolic
            a_, b_ = self.expr(e.args[0]), self.expr(e.args[1])
            return sp.Le(sp.Abs(a_ - b_), sp.Symbol("ATOL", positive=True) + sp.Symbol("RTOL", positive=True) * sp.Abs(b_))
        if d in self.handlers:
            r = self.handlers[d](self, e)
            if r is not None:
                return r
        if short in self.handlers and d is not None:
            r = self.handlers[short](self, e)
            if r is not None:
                return r
        # method on an expression
        if isinstance(e.func, ast.Attribute) and not (d and d.split(".")[0] in ("np", "numpy", "math", "scipy")):
            recv = self.expr(e.func.value)
            m = e.func.attr
            if m in ADAPTER_CALLS:
                return recv
            if m == "sum":
                return LinearSum(recv)
            if m == "prod":
                return Prod(recv)
            if m == "dot":
                return LinearSum(recv * self.expr(e.args[0]))
            if m == "clip":
                return self._clip(recv, e.args, e.keywords, e)
            if m in ("min", "max") and not e.args and not e.keywords:
                return sp.Function("ArrMin" if m == "min" else "ArrMax")(recv)
            self.err(f"method .{m}() not modelled", e)
        if d and d.split(".")[0] in ("np", "numpy", "math"):
            if short in ("ones", "ones_like"):
                return sp.Integer(1)
            if short in ("zeros", "zeros_like"):
                return sp.Integer(0)
            if short in ("full", "full_like") and len(e.args) >= 2:
                return self.expr(e.args[1])  # every element is the fill value
            if short in ("empty", "empty_like"):
                return sp.Symbol("UNINIT")
            if short == "broadcast_arrays":
                return tuple(self.expr(a) for a in e.args)
            if short == "einsum" and e.args and isinstance(e.args[0], ast.Constant) and isinstance(e.args[0].value, str) and "->" in e.args[0].value:
                spec = e.args[0].value.replace(" ", "").replace("...", "")
                ins, out_ = spec.split("->")
                prod = sp.Integer(1)
                for a in e.args[1:]:
                    prod = prod * self.indicator(self.expr(a))
                summed = set("".join(ins.split(","))) - set(out_)
                return LinearSum(prod) if summed else prod
            if short in ADAPTER_CALLS and e.args:
                return self.expr(e.args[0])  # shape/dtype arguments are not values
            if short in ("divide", "true_divide", "multiply", "add", "subtract") and len(e.args) == 2 and any(k.arg == "where" for k in e.keywords):
                # ufunc(a, b, out=o, where=c): the result is o where c is false
                a_, b_ = self.expr(e.args[0]), self.expr(e.args[1])
                cond = [self.expr(k.value) for k in e.keywords if k.arg == "where"][0]
                outv = [self.expr(k.value) for k in e.keywords if k.arg == "out"]
                if not outv:
                    self.err("ufunc with where= but without out=: the unselected entries are uninitialised", e)
                if not isinstance(cond, (sp.core.relational.Relational, sp.logic.boolalg.BooleanFunction, sp.logic.boolalg.BooleanAtom)):
                    self.err(f"where= condition is not a comparison ({cond!r})", e)
                return sp.Piecewise((BINFUNCS[short](a_, b_), cond), (outv[0], True))
            args = [self.expr(a) for a in e.args]
            if short in UFUNCS and len(args) == 1:
                return UFUNCS[short](args[0])
            if short in BINFUNCS and len(args) == 2:
                return BINFUNCS[short](*args)
            if short in ADAPTER_CALLS:
                return args[0]
            if short == "sum":
                return LinearSum(args[0])
            if short == "prod":
                return Prod(args[0])
            if short in ("tensordot", "dot") and len(args) >= 2:
                return LinearSum(args[0] * args[1])  # contraction = sum of products
            if short in ("min", "amin"):
                return sp.Function("Min_over")(args[0])
            if short in ("max", "amax"):
                return sp.Function("Max_over")(args[0])
            if short in ("ones", "ones_like"):
                return sp.Integer(1)
            if short in ("zeros", "zeros_like"):
                return sp.Integer(0)
            if d in ("np.linalg.norm", "numpy.linalg.norm"):
                return sp.sqrt(LinearSum(args[0] ** 2))
            if short == "where" and len(args) == 3:
                return sp.Piecewise((args[1], args[0]), (args[2], True))
            self.err(f"numpy function {d} not modelled", e)
        if d in ("min", "max") and len(e.args) == 1:
            return sp.Function("Min_over" if d == "min" else "Max_over")(self.expr(e.args[0]))
        if d == "abs":
            return sp.Abs(self.expr(e.args[0]))
        if d in ("float", "int"):
            return self.expr(e.args[0])
        repo = getattr(self, "repo", None)
        if repo is not None and d and "." not in d and getattr(self, "depth", 0) < 3:
            g = repo.resolve_name(self.func.module, d, self.func)
            if hasattr(g, "node") and g.module is self.func.module and not e.keywords and len(e.args) == len(g.params):
                # a private helper of the same module: interpreted in place on the argument values
                sub = type(self).__new__(type(self))
                sub.__dict__.update({k: v for k, v in self.__dict__.items() if k not in ("env", "returns", "log", "func")})
                sub.func = g
                sub.env = dict(zip(g.params, [self.expr(a) for a in e.args]))
                sub.returns = []
                sub.log = []
                sub.depth = getattr(self, "depth", 0) + 1
                sub.run()
                if len(sub.returns) != 1:
                    self.err(f"the helper {d} does not have exactly one return", e)
                self.log.extend(sub.log)
                return sub.returns[0][1]
        self.err(f"call `{d}` not modelled", e)


def _shell_property(self, e):
    """`shell.<name>` where <name> is a derived property of GeneralizedContractionShell (not one of the stored attributes the caller gave
    symbols for): the property body is interpreted on the receiver's attribute symbols.  -> (value,) or None"""
    repo = getattr(self, "repo", None)
    if repo is None or not isinstance(e.value, ast.Name) or getattr(self, "depth", 0) >= 3:
        return None
    recv = e.value.id
    mine = {k[len(recv) + 1:]: v for k, v in self.attr_symbols.items() if k.startswith(recv + ".")}
    if not mine:
        return None
    try:
        g = repo.func("gbasis.contractions.GeneralizedContractionShell." + e.attr)
    except Exception:
        return None
    if getattr(g, "kind", None) != "property":
        return None
    sub = type(self).__new__(type(self))
    sub.__dict__.update({k: v for k, v in self.__dict__.items() if k not in ("env", "returns", "log", "func", "attr_symbols")})
    sub.func = g
    sub.env = {}
    sub.attr_symbols = {}
    for k, v in mine.items():
        sub.attr_symbols["self." + k] = v
        sub.attr_symbols["self._" + k] = v
    sub.returns = []
    sub.log = []
    sub.depth = getattr(self, "depth", 0) + 1
    sub.run()
    if len(sub.returns) != 1:
        self.err(f"the property {e.attr} does not have exactly one return", e)
    self.log.extend(sub.log)
    return (sub.returns[0][1],)


Elem.shell_property = _shell_property


def rebound_inputs(func, names, rule="FWD"):
    """Every (re)binding of the parameters `names` anywhere in `func` (all branches, path-insensitive), evaluated elementwise
    with boolean-mask reads kept as Restrict.  -> list of (name, sympy value, statement).  A parameter that is only read
    yields nothing."""
    syms = {p: sp.Symbol(p, real=True) for p in func.params}
    out = []

    class T(Elem):
        def expr(self, e):
            # here a slice / index / fancy index is not a broadcasting adapter: it selects or re-orders elements
            if isinstance(e, ast.Subscript) and ast.unparse(e.slice) not in (":", "...", "()"):
                m = self.mask_of(e.slice)
                if m is None:
                    return Sliced(Elem.expr(self, e.value), sp.Symbol(ast.unparse(e.slice)))
            if isinstance(e, ast.Call) and isinstance(e.func, ast.Name) and e.func.id in ("list", "tuple") and len(e.args) == 1 and not e.keywords:
                return self.expr(e.args[0])
            if isinstance(e, ast.Attribute):
                try:
                    return Elem.expr(self, e)
                except AnalysisError:
                    return sp.Symbol("ATTR_" + ast.unparse(e), real=True)  # some other quantity of the inputs
            return Elem.expr(self, e)

        def on_if(self, st):
            for b in list(st.body) + list(st.orelse):
                self.stmt(b)

        def assign(self, t, v, st):
            if isinstance(t, ast.Name) and t.id in names:
                out.append((t.id, v, st))
            if isinstance(t, ast.Subscript) and isinstance(t.value, ast.Name) and t.value.id in names:
                out.append((t.value.id, sp.Symbol("OPAQUE_store"), st))
                return
            try:
                Elem.assign(self, t, v, st)
            except AnalysisError:
                pass

        def stmt(self, st):
            if isinstance(st, ast.Return):
                return
            if isinstance(st, (ast.For, ast.While, ast.With, ast.Try)):
                for b in ast.iter_child_nodes(st):
                    if isinstance(b, ast.stmt):
                        self.stmt(b)
                return
            if isinstance(st, ast.Expr):
                return
            Elem.stmt(self, st)

    E = T(func, syms, rule=rule)
    E.lenient = True
    E.track_restrict = True
    for st in func.node.body:
        E.stmt(st)
    return out, syms


def selection_keeps_all_relevant(cond, sym):
    """Is a filter `cond` on the array `sym` harmless for a sum that is linear in sym (only elements equal to 0 are dropped)?"""
    if not (cond.free_symbols and cond.free_symbols <= {sym}):
        return False
    zp = sp.Symbol("zp", positive=True)
    return all(sp.simplify(cond.subs(sym, v)) == sp.true for v in (zp, -zp))


def classify_rebinding(val, sym):
    """'same' (value-preserving), 'different' (provably another value), 'unknown' (not modelled)"""
    if val is None or isinstance(val, (bool, int, float, str)):
        return "different"
    if not hasattr(val, "free_symbols"):
        return "unknown"
    if val.has(Sliced):
        return "different"
    if any(str(x).startswith("OPAQUE_") for x in val.free_symbols) or val.atoms(sp.core.function.AppliedUndef):
        return "unknown"
    if val == sym:
        return "same"
    try:
        if sp.simplify(val - sym) == 0:
            return "same"
    except (TypeError, AttributeError):
        return "unknown"
    return "different"
