"""COVER: every cell of a recursion table that reaches the result has been computed (def-before-use on index regions).

The label-carrying evaluator (stencil.py) records, in program order, every store into a recursion table, every load from one and every
gather (selection by component arrays), each with its index tuple (constants, loop expressions, slices) and its enclosing loops.  The
comparison of each store with the Obara-Saika / HGP recurrence says that what is written is right; it does not say that everything that
is needed is written - a deleted recursion statement leaves the zeros of np.zeros in the table and no store is wrong.  This module
closes that gap.  The recorded index regions are instantiated for every assignment of small values to the size parameters (angular
momenta, orders: 0..B) and replayed in program order on sets of cells - nothing of gbasis is executed, only the extracted regions:

  * a store makes a target cell *computed* when every table cell its right-hand side reads for that target cell (the loads are the
    TabRef atoms of the stored value, aligned window against window) is itself computed; otherwise the cell holds garbage (padding
    entries at the edge of a table legitimately do);
  * a load that does not feed a store, and a gather, are consumers: every cell they read must be computed;
  * a constant / loop index outside the table is reported as such.

Bounded: the regions are affine in the size parameters, so a gap shows up at small sizes."""
import itertools

import sympy as sp

from .stencil import TabRef, TabSym, Gather


import re
_COMP = re.compile(r"^Comp(\d+)\((\d)\)$")


class Infeasible(Exception):
    pass


class Gap:
    def __init__(self, kind, table, event, config, cell, msg):
        self.kind, self.table, self.event, self.config, self.cell, self.msg = kind, table, event, config, cell, msg


def _events(root):
    exs = root.all_extractors()
    shared = root.shared
    evs = []
    tables = set()
    fed = set()  # loads whose value is stored into a table
    fed_gathers = set()
    for ex in exs:
        for s in ex.stores:
            if not hasattr(s, "seq"):
                continue
            rids = sorted(int(a.args[0]) for a in s.rhs.e.atoms(TabRef)) if s.rhs is not None and hasattr(s.rhs, "e") else []
            fed.update(rids)
            gids = sorted(int(a.args[0]) for a in s.rhs.e.atoms(Gather)) if s.rhs is not None and hasattr(s.rhs, "e") else []
            fed_gathers.update(gids)
            whole = bool(s.rhs is not None and hasattr(s.rhs, "e") and s.rhs.e.atoms(TabSym))
            evs.append(dict(seq=s.seq, kind="w", table=s.table, index=s.index, loops=s.loops, loop_ids=s.loop_ids, func=s.func, node=s.node,
                            text=s.text, reads=rids, gathers=gids, rhs_labels=list(s.rhs.labels or []) if s.rhs is not None and getattr(s.rhs, "labels", None) else [],
                            whole=whole))
            tables.add(s.table)
    refs = shared.get("refs", {})
    for rid, r in refs.items():
        if "loops" not in r or rid in fed or r.get("view_only"):
            continue
        evs.append(dict(seq=rid, kind="r", table=r["table"], index=r["index"], loops=r["loops"], loop_ids=r["loop_ids"], func=r["func"], node=r["node"]))
    by_id = {t.id: t for t in tables}
    for gid, g in shared.get("gathers", {}).items():
        base = g.get("base")
        labs = getattr(base, "labels", None) or []
        tids = {l.base[1] for l in labs if isinstance(l.base, tuple) and l.base[0] == "tab"}
        if len(tids) != 1 or list(tids)[0] not in by_id:
            continue
        # component selections: axis k indexed by the column `Comp_s(c)` of shell s; the columns of one shell sum to its angular momentum
        groups = {}
        for p_, ie in enumerate(g.get("idx_exprs") or []):
            if p_ < len(labs) and isinstance(labs[p_].base, tuple) and labs[p_].base[0] == "tab" and isinstance(ie, sp.Basic):
                m = _COMP.match(str(ie))
                if m:
                    groups.setdefault(int(m.group(1)), []).append(labs[p_].base[2])
        evs.append(dict(seq=gid, kind="g", table=by_id[list(tids)[0]], index=None, labels=labs, loops=[], loop_ids=[], func=g["func"], node=g["node"],
                        groups=groups, gid=gid, fed=gid in fed_gathers, rec=g))
    evs = [e for e in evs if e["table"] in tables]
    evs.sort(key=lambda e: e["seq"])
    for e in evs:
        e["by_id"] = by_id
        e["all_gathers"] = shared.get("gathers", {})
    return evs, tables, refs


def rows(l):
    """Cartesian component exponents of a shell of angular momentum l (the order is irrelevant here, only that every gather of one
    shell uses the same list)"""
    return [(x, y, l - x - y) for x in range(l, -1, -1) for y in range(l - x, -1, -1)]


_DIMSYM = re.compile(r"^n_([KLMN])(?:_(\d+))?$")


def _row_shell(size):
    m = _DIMSYM.match(str(size)) if isinstance(size, sp.Symbol) else None
    return int(m.group(2)) if m and m.group(1) == "L" and m.group(2) else None


def gather_plan(g, table, axes_t):
    """How a gather addresses its source table: per recursion axis of the table ('comp', shell, c) - the column c of that shell's
    component list, row = the result's row index of the shell; ('row', shell) - the axis already is that shell's row axis; ('pass', k)
    - a slice carried into the result; None when the gather is not of this simple form."""
    base = g.get("base")
    labs = getattr(base, "labels", None) or []
    idx = g.get("idx_exprs") or []
    entries = g.get("entries") or []
    if len(labs) != len(entries) or len(idx) != len(entries):
        return None
    whole = len(labs) == len(table.labels)
    plan = {}
    for p_, (lab, en, ie) in enumerate(zip(labs, entries, idx)):
        if isinstance(lab.base, tuple) and lab.base[0] == "tab":
            k = lab.base[2]
        elif whole:
            k = p_
        else:
            return None
        if k not in axes_t:
            continue
        txt = str(ie)
        m = _COMP.match(txt)
        if en[0] == "adv" and m:
            plan[k] = ("comp", int(m.group(1)), int(m.group(2)))
        elif en[0] == "adv" and txt.startswith("Iota(dim:L:"):
            plan[k] = ("row", int(txt[len("Iota(dim:L:"):-1]))
        elif en[0] == "slice" and isinstance(lab.base, tuple) and lab.base[:2] == ("dim", "L"):
            plan[k] = ("row", lab.base[2])  # a component-row axis of the source carried along: same row in the result
        elif en[0] == "slice":
            plan[k] = ("pass", k, lab)
        else:
            return None
    if set(plan) != set(axes_t):
        return None
    return plan


def _tree(evs):
    root = []
    stack = [root]
    cur = []
    for ev in evs:
        ids = ev["loop_ids"]
        common = 0
        while common < len(cur) and common < len(ids) and cur[common] == ids[common]:
            common += 1
        while len(cur) > common:
            stack.pop()
            cur.pop()
        for k in range(common, len(ids)):
            v, lo, hi = ev["loops"][k]
            loop = dict(loop=True, var=v, lo=lo, hi=hi, items=[])
            stack[-1].append(loop)
            stack.append(loop["items"])
            cur.append(ids[k])
        stack[-1].append(ev)
    return root


def _rec_axes(evs, refs, tables):
    """axes of each table on which some store / load uses anything but a full slice"""
    axes = {t: set() for t in tables}
    for t in tables:
        for k, sz in enumerate(t.sizes):
            if _row_shell(sz) is not None:
                axes[t].add(k)  # a component-row axis: which row holds which entry matters for the gathers

    def scan(t, index):
        for k, ix in enumerate(index or []):
            if ix.kind != "full":
                axes[t].add(k)
    for ev in evs:
        if ev["kind"] in ("w", "r"):
            scan(ev["table"], ev["index"])
        if ev["kind"] == "w":
            for rid in ev["reads"]:
                r = refs.get(rid)
                if r is not None and r["table"] in axes:
                    scan(r["table"], r["index"])
        if ev["kind"] == "g":
            for l in ev["labels"]:
                if isinstance(l.base, tuple) and l.base[0] == "tab" and (l.lo != 0 or l.hi != 0 or l.unit):
                    axes[ev["table"]].add(l.base[2])
    # an axis that carries a recursion axis of another table (a block copied / contracted / gathered into this table) is tracked too
    by_id = {t.id: t for t in tables}
    changed = True
    while changed:
        changed = False
        for ev in evs:
            if ev["kind"] != "w" or not ev.get("rhs_labels"):
                continue
            t = ev["table"]
            n_t = len(t.labels)
            kept = [k for k in range(n_t) if ev["index"] is None or k >= len(ev["index"]) or ev["index"][k].kind not in ("const", "var")]
            for ta, l in zip(reversed(kept), reversed(ev["rhs_labels"])):
                if isinstance(l.base, tuple) and l.base[0] == "tab" and l.base[1] in by_id and by_id[l.base[1]] is not t:
                    ts, k = by_id[l.base[1]], l.base[2]
                    if (k in axes[ts]) != (ta in axes[t]):
                        axes[ts].add(k)
                        axes[t].add(ta)
                        changed = True
    return {t: sorted(a) for t, a in axes.items()}


def _atoms(evs, refs, tables, axes):
    loopvars = set()
    exprs = []

    def idx_exprs(index, t):
        for k, ix in enumerate(index or []):
            if k in axes[t]:
                for x in (ix.value, ix.lo, ix.hi):
                    if isinstance(x, sp.Basic):
                        exprs.append(x)
    for ev in evs:
        for v, lo, hi in ev["loops"]:
            loopvars.add(v)
            exprs.extend([lo, hi])
        if ev["kind"] in ("w", "r"):
            idx_exprs(ev["index"], ev["table"])
        if ev["kind"] == "w":
            for rid in ev["reads"]:
                r = refs.get(rid)
                if r is not None and r["table"] in axes:
                    idx_exprs(r["index"], r["table"])
                    for v, lo, hi in r.get("loops", []):
                        loopvars.add(v)
    for t in tables:
        exprs += [t.sizes[k] for k in axes[t] if k < len(t.sizes) and isinstance(t.sizes[k], sp.Basic)]
    atoms = set()
    for e in exprs:
        funcs = {a for a in e.atoms(sp.Function) if not isinstance(a, (sp.Min, sp.Max, sp.floor, sp.ceiling)) and not (a.free_symbols & loopvars)}
        funcs = {a for a in funcs if not any(a is not b and b.has(a) for b in funcs)}
        atoms |= funcs
        rest = e
        for a in funcs:
            rest = rest.subs(a, 0)
        atoms |= {x for x in rest.free_symbols if x not in loopvars and not _DIMSYM.match(str(x))}
    return sorted(atoms, key=str), loopvars


def _ival(x, env):
    if isinstance(x, int):
        return x
    v = sp.sympify(x)
    if v.free_symbols or v.atoms(sp.Function):
        v = v.subs(env)
    if not getattr(v, "is_Integer", False):
        v = sp.simplify(v)
        if getattr(v, "is_number", False) and v == sp.floor(v):
            return int(v)
        raise ValueError(f"not an integer: {x} -> {v}")
    return int(v)


def _kept(index, axes):
    """recursion axes that survive the subscript (not indexed by a single integer)"""
    return [i for i, k in enumerate(axes) if index is None or k >= len(index) or index[k].kind not in ("const", "var")]


def _ranges(index, env, sizes, axes, what, gaps, ev, cfg):
    out = []
    for k in axes:
        n = sizes[k]
        if index is None or k >= len(index):
            out.append(range(n))
            continue
        ix = index[k]
        if ix.kind in ("const", "var"):
            v = _ival(ix.value, env)
            if v < 0 or v >= n:
                if ix.kind == "const" and v >= n:
                    # a literal index beyond the extent raises IndexError in numpy: this size assignment is outside the function's
                    # domain (e.g. a derivative table asked for order 0), not a silent defect
                    raise Infeasible()
                gaps.append(Gap("range", ev["table"], ev, cfg, (k, v, n), f"{what} index `{ix.text}` = {v} on axis {k} of extent {n}"))
                return None
            out.append(range(v, v + 1))
        elif ix.kind == "unit":
            v = _ival(ix.value, env)
            out.append(range(max(v, 0), min(v + 1, n)))
        elif ix.kind == "slice":
            lo, hi = _ival(ix.lo, env), _ival(ix.hi, env)
            out.append(range(min(lo, n), max(n - hi, 0)))
        elif ix.kind == "full":
            out.append(range(n))
        elif ix.kind == "upto":
            lo, up = _ival(ix.lo, env), _ival(ix.value, env)
            out.append(range(min(lo, n), min(max(up, 0), n)))
        else:
            raise ValueError(ix.kind)
    return out


def _label_ranges(labels, tid, env, sizes, axes):
    win = {}
    for l in labels:
        if isinstance(l.base, tuple) and l.base[0] == "tab" and l.base[1] == tid:
            win[l.base[2]] = l
    out = []
    for k in axes:
        n = sizes[k]
        l = win.get(k)
        if l is None:
            out.append(range(n))
            continue
        lo = _ival(l.lo, env)
        if l.unit:
            out.append(range(max(lo, 0), min(lo + 1, n)))
        elif isinstance(l.hi, tuple):
            out.append(range(min(lo, n), min(max(_ival(l.hi[1], env), 0), n)))
        else:
            out.append(range(min(lo, n), max(n - _ival(l.hi, env), 0)))
    return out


def check(root, bound=3, max_configs=200, max_cells=60000):
    """-> (gaps, info).  gaps: list of Gap (deduplicated per statement and kind)."""
    evs, tables, refs = _events(root)
    if not evs:
        return [], dict(tables=0, events=0, configs=0, parameters=[])
    axes = _rec_axes(evs, refs, tables)
    atoms, loopvars = _atoms(evs, refs, tables, axes)
    tree = _tree(evs)
    naxes = max((len(a) for a in axes.values()), default=1)
    values = list(range(bound + 1))
    while len(values) > 2 and (len(values) ** max(len(atoms), 1) > max_configs or len(values) ** naxes > max_cells):
        values = values[:-1]
    configs = list(itertools.product(values, repeat=len(atoms)))
    if len(configs) > max_configs:
        step = len(configs) / max_configs
        configs = [configs[int(i * step)] for i in range(max_configs)]
    gaps = []
    seen = set()
    n_cfg = 0
    for cfg in configs:
        env0 = dict(zip(atoms, cfg))
        shell_l = {}
        for a_, v_ in env0.items():
            m_ = re.match(r"^l(\d+)$", str(a_))
            if m_:
                shell_l[int(m_.group(1))] = v_
        for t in tables:
            for sz_ in t.sizes:
                for sym_ in (sz_.free_symbols if isinstance(sz_, sp.Basic) else ()):
                    sh_ = _row_shell(sym_)
                    if sh_ is not None and sh_ in shell_l:
                        env0[sym_] = len(rows(shell_l[sh_]))
        shell_rows = {sh_: rows(l_) for sh_, l_ in shell_l.items()}
        sizes = {}
        ok = True
        for t in tables:
            sz = {}
            for k in axes[t]:
                try:
                    sz[k] = _ival(t.sizes[k], env0) if k < len(t.sizes) and t.sizes[k] is not None else None
                except (ValueError, TypeError):
                    sz[k] = None
                if sz[k] is None or sz[k] < 0:
                    ok = False
            sizes[t] = sz
        if not ok:
            continue
        ncell = 1
        for t in tables:
            c_ = 1
            for k in axes[t]:
                c_ *= max(sizes[t][k], 1)
            ncell = max(ncell, c_)
        if ncell > max_cells:
            continue
        n_cfg += 1
        good = {t: set() for t in tables}  # computed cells
        gaps_cfg = []

        def run(items, env):
            for it in items:
                if it.get("loop"):
                    try:
                        lo, hi = _ival(it["lo"], env), _ival(it["hi"], env)
                    except (ValueError, TypeError):
                        continue
                    for val in range(lo, hi):
                        env2 = dict(env)
                        env2[it["var"]] = val
                        run(it["items"], env2)
                    continue
                t = it["table"]
                try:
                    if it["kind"] == "g":
                        rg = _label_ranges(it["labels"], t.id, env, sizes[t], axes[t])
                    else:
                        rg = _ranges(it["index"], env, sizes[t], axes[t], "store" if it["kind"] == "w" else "load", gaps_cfg, it, cfg)
                except (ValueError, TypeError):
                    continue
                if rg is None:
                    continue
                if it["kind"] == "g":
                    if it.get("fed"):
                        continue  # its value is stored into the next table: checked cell by cell at that store
                    plan = gather_plan(it["rec"], t, axes[t])
                    if plan is not None and all(p_[1] in shell_rows for p_ in plan.values() if p_[0] in ("comp", "row")):
                        shells = sorted({p_[1] for p_ in plan.values() if p_[0] in ("comp", "row")})
                        passes = [k for k in axes[t] if plan[k][0] == "pass"]
                        prange = []
                        for k in passes:
                            prange.append(_label_ranges([plan[k][2]], t.id, env, sizes[t], [k])[0] if isinstance(plan[k][2].base, tuple) and plan[k][2].base[0] == "tab"
                                          else range(sizes[t][k]))
                        hit = None
                        for rowsel in itertools.product(*[range(len(shell_rows[sh_])) for sh_ in shells]):
                            rsel = dict(zip(shells, rowsel))
                            for pv in itertools.product(*prange):
                                pmap = dict(zip(passes, pv))
                                cell = []
                                for k in axes[t]:
                                    pl = plan[k]
                                    cell.append(shell_rows[pl[1]][rsel[pl[1]]][pl[2]] if pl[0] == "comp" else rsel[pl[1]] if pl[0] == "row" else pmap[k])
                                cell = tuple(cell)
                                if cell not in good[t]:
                                    hit = cell
                                    break
                            if hit is not None:
                                break
                        if hit is not None:
                            gaps_cfg.append(Gap("uncomputed", t, it, cfg, hit,
                                                f"entry {dict(zip(axes[t], hit))} of {t.name} is used but was never computed (no store, or a store that itself read an uncomputed entry)"))
                        continue
                if it["kind"] != "w":
                    lims = []
                    for sh, gaxes in (it.get("groups") or {}).items():
                        lsym = [a for a in env0 if str(a) == f"l{sh}"]
                        if lsym and all(k in axes[t] for k in gaxes):
                            lims.append(([axes[t].index(k) for k in gaxes], env0[lsym[0]], len(gaxes) == 3))
                    for cell in itertools.product(*rg):
                        if any((sum(cell[i] for i in pos_) != l_) if full_ else (sum(cell[i] for i in pos_) > l_) for pos_, l_, full_ in lims):
                            continue  # not a component tuple of that shell
                        if cell not in good[t]:
                            gaps_cfg.append(Gap("uncomputed", t, it, cfg, cell,
                                                f"entry {dict(zip(axes[t], cell))} of {t.name} is used but was never computed (no store, or a store that itself read an uncomputed entry)"))
                            break
                    continue
                # a store: per target cell, are all cells it is computed from computed?
                srcs = []
                bad_src = False
                for rid in it["reads"]:
                    r = refs.get(rid)
                    if r is None or r["table"] not in good:
                        continue
                    ts = r["table"]
                    try:
                        srg = _ranges(r["index"], env, sizes[ts], axes[ts], "load", gaps_cfg, dict(it, table=ts), cfg)
                    except (ValueError, TypeError):
                        srg = None
                    if srg is None:
                        bad_src = True
                        continue
                    srcs.append((ts, srg, _kept(r["index"], axes[ts])))
                if bad_src:
                    continue
                tcells = list(itertools.product(*[range(len(r_)) for r_ in rg]))  # positions inside the target window
                tkept = _kept(it["index"], axes[t])
                # value taken from another table as a whole (scaled / contracted over non-recursion axes) or through a gather: the
                # right-hand side's axis labels say which source axis (or which shell's component row) each target axis carries
                flows = []
                n_t = len(t.labels)
                t_all_kept = [k for k in range(n_t) if it["index"] is None or k >= len(it["index"]) or it["index"][k].kind not in ("const", "var")]
                rl = it.get("rhs_labels") or []
                pairs = list(zip(reversed(t_all_kept), reversed(rl)))  # numpy aligns the right-hand side with the target window from the right
                if it.get("whole") and rl:
                    src_ids = {l.base[1] for l in rl if isinstance(l.base, tuple) and l.base[0] == "tab"}
                    for sid in src_ids:
                        ts = it["by_id"].get(sid)
                        if ts is None or ts is t or ts not in good:
                            continue
                        amap = {}
                        for ta, l in pairs:
                            if isinstance(l.base, tuple) and l.base[0] == "tab" and l.base[1] == sid and ta in axes[t] and l.base[2] in axes[ts]:
                                amap[l.base[2]] = (axes[t].index(ta), l)
                        if set(amap) == set(axes[ts]):
                            flows.append(("whole", ts, amap))
                for gid in it.get("gathers") or []:
                    grec = it["all_gathers"].get(gid)
                    if grec is None:
                        continue
                    labs_g = getattr(grec.get("base"), "labels", None) or []
                    sids = {l.base[1] for l in labs_g if isinstance(l.base, tuple) and l.base[0] == "tab"}
                    ts = it["by_id"].get(list(sids)[0]) if len(sids) == 1 else None
                    if ts is None or ts not in good:
                        continue
                    plan = gather_plan(grec, ts, axes[ts])
                    if plan is None or not all(p_[1] in shell_rows for p_ in plan.values() if p_[0] in ("comp", "row")):
                        continue
                    rowpos, passpos = {}, {}
                    for ta, l in pairs:
                        if ta not in axes[t]:
                            continue
                        if isinstance(l.base, tuple) and l.base[:2] == ("dim", "L"):
                            rowpos[l.base[2]] = axes[t].index(ta)
                        elif isinstance(l.base, tuple) and l.base[0] == "tab" and l.base[1] == ts.id:
                            passpos[l.base[2]] = (axes[t].index(ta), l)
                    need_rows = {p_[1] for p_ in plan.values() if p_[0] in ("comp", "row")}
                    need_pass = {k for k, p_ in plan.items() if p_[0] == "pass"}
                    if need_rows <= set(rowpos) and need_pass <= set(passpos):
                        flows.append(("gather", ts, plan, rowpos, passpos))
                for pos in tcells:
                    cell = tuple(r_[p_] for r_, p_ in zip(rg, pos))
                    okc = True
                    for fl in flows:
                        ts = fl[1]
                        sc = []
                        if fl[0] == "whole":
                            for k in axes[ts]:
                                ti, l = fl[2][k]
                                lo = _ival(l.lo, env) if not isinstance(l.lo, int) else l.lo
                                sc.append(lo + pos[ti])
                        else:
                            plan, rowpos, passpos = fl[2], fl[3], fl[4]
                            for k in axes[ts]:
                                pl = plan[k]
                                if pl[0] == "comp":
                                    rws = shell_rows[pl[1]]
                                    ri = cell[rowpos[pl[1]]]
                                    sc.append(rws[ri][pl[2]] if ri < len(rws) else -1)
                                elif pl[0] == "row":
                                    sc.append(cell[rowpos[pl[1]]])
                                else:
                                    ti, l = passpos[k]
                                    lo = _ival(l.lo, env) if not isinstance(l.lo, int) else l.lo
                                    sc.append(lo + pos[ti])
                        if tuple(sc) not in good[ts]:
                            okc = False
                            break
                    if not okc:
                        good[t].discard(cell)
                        continue
                    for ts, srg, skept in srcs:
                        if ts is not t and len(skept) == len(tkept) and all(len(srg[a]) in (1, len(rg[b])) for a, b in zip(skept, tkept)):
                            # a block taken from another table (possibly contracted over non-recursion axes in between): the surviving
                            # recursion axes correspond in order
                            sc = [r_[0] for r_ in srg]
                            for a, b in zip(skept, tkept):
                                sc[a] = srg[a][pos[b]] if len(srg[a]) == len(rg[b]) else srg[a][0]
                            if tuple(sc) not in good[ts]:
                                okc = False
                                break
                            continue
                        if ts is t and len(srg) == len(rg):
                            # aligned windows: same position inside the window; a single-entry source broadcasts
                            sc = []
                            for r_t, r_s, p_ in zip(rg, srg, pos):
                                if len(r_s) == len(r_t):
                                    sc.append(r_s[p_])
                                elif len(r_s) == 1:
                                    sc.append(r_s[0])
                                else:
                                    sc = None
                                    break
                            if sc is None or tuple(sc) not in good[ts]:
                                okc = False
                                break
                        else:
                            # another table: every cell of the window read must be computed
                            if any(c_ not in good[ts] for c_ in itertools.product(*srg)):
                                okc = False
                                break
                    if okc:
                        good[t].add(cell)
                    else:
                        good[t].discard(cell)
        try:
            run(tree, dict(env0))
        except Infeasible:
            n_cfg -= 1
            continue
        for g in gaps_cfg:
            key = (g.kind, id(g.event["node"]))
            if key not in seen:
                seen.add(key)
                gaps.append(g)
    return gaps, dict(tables=len(tables), events=len(evs), configs=n_cfg, parameters=[str(a) for a in atoms], values=values,
                      recursion_axes={t.name: axes[t] for t in tables})
