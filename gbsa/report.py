"""Run context: obligations, violations, known findings, evidence, exit codes.

Exit codes (DESIGN.md section 6): 0 every obligation discharged, 1 VIOLATION, 2 ANALYSIS-ERROR.
"""
import json
import os
import re
import sys
import time

VERIF = os.path.dirname(os.path.dirname(os.path.abspath(__file__)))
REPO = os.environ.get("GBSA_REPO", "/repo")
EVIDENCE_DIR = os.path.join(VERIF, "evidence")
KNOWN_FILE = os.path.join(VERIF, "known_findings.txt")


class AnalysisError(Exception):
    """The analysis itself cannot run (missing anchor, unknown construct, count under floor)."""

    def __init__(self, rule, msg, where=None):
        super().__init__(msg)
        self.rule = rule
        self.msg = msg
        self.where = where

    def __str__(self):
        w = f" construct={self.where}" if self.where else ""
        return f"rule={self.rule}{w} {self.msg}"


def norm_text(s):
    """Normalise a construct's text for use in finding keys (no line numbers, no whitespace)."""
    return re.sub(r"\s+", "", s)[:160]


class Finding:
    def __init__(self, rule, site, construct, message, where=None, expected=None, found=None):
        self.rule = rule
        self.site = site  # "module:function" (no line number)
        self.construct = construct  # normalised text or symbolic instance name
        self.message = message
        self.where = where  # file:line, for the human
        self.expected = expected
        self.found = found

    @property
    def key(self):
        return f"rule={self.rule} site={self.site} construct={norm_text(self.construct)}"

    def as_dict(self):
        return {
            "rule": self.rule,
            "site": self.site,
            "construct": self.construct,
            "where": self.where,
            "message": self.message,
            "expected": self.expected,
            "found": self.found,
            "key": self.key,
        }


def load_known(pid):
    """known: property=<id> rule=<..> site=<..> construct=<..> :: text   (suppresses exactly that key)
    fixed: property=<id> <commit> <what failed>                          (suppresses nothing)"""
    known = {}
    fixed = []
    if not os.path.exists(KNOWN_FILE):
        return known, fixed
    for line in open(KNOWN_FILE):
        line = line.strip()
        if not line or line.startswith("#"):
            continue
        m = re.match(r"known:\s+property=(\S+)\s+(rule=\S+ site=\S+ construct=\S+)\s*(?:::\s*(.*))?$", line)
        if m and m.group(1) == pid:
            known[m.group(2)] = m.group(3) or ""
            continue
        m = re.match(r"fixed:\s+property=(\S+)\s+(\S+)\s+(.*)$", line)
        if m and m.group(1) == pid:
            fixed.append((m.group(2), m.group(3)))
    return known, fixed


class _PrefixedRules:
    def __init__(self, rules, prefix):
        self.rules, self.prefix = rules, prefix

    def __getitem__(self, k):
        return self.rules[self.prefix + k]

    def __contains__(self, k):
        return self.prefix + k in self.rules

    def get(self, k, default=None):
        return self.rules.get(self.prefix + k, default)

    def setdefault(self, k, v):
        return self.rules.setdefault(self.prefix + k, v)


class SubRun:
    """A property that implies another one runs that property's rules as part of its own check: this is the view of the composing
    Run handed to the composed check.  Rule names get the prefix `<ID>/`; a finding for which `keep(finding)` is False concerns a
    part of the composed property that the composing one does not speak about and is dropped (listed in the evidence)."""

    def __init__(self, parent, pid, keep=None):
        self.parent, self.prefix, self.keep = parent, pid + "/", keep
        self.chain = list(getattr(parent, "chain", [parent.pid])) + [pid]
        self.pid = parent.pid
        self.tier, self.seed = parent.tier, parent.seed
        self.rules = _PrefixedRules(parent.rules, self.prefix)
        self.findings = []
        self.extra = parent.extra.setdefault("composed", {}).setdefault(pid, {})
        self.assumptions = []
        self.dropped = []

    def say(self, s):
        self.parent.say(s)

    def rule(self, rule, description):
        self.parent.rule(self.prefix + rule, description)

    def ok(self, rule, site, construct, detail=None, nontrivial=True, sample=False):
        self.parent.ok(self.prefix + rule, site, construct, detail=detail, nontrivial=nontrivial, sample=sample)

    def fail(self, rule, site, construct, message, where=None, expected=None, found=None):
        f = Finding(self.prefix + rule, site, str(construct), message, where, expected, found)
        if self.keep is not None and not self.keep(f):
            self.dropped.append(f"{f.rule} {f.site} {str(construct)[:80]}")
            self.findings.append(f)  # the composed check's own control flow still sees it
            return f
        f2 = self.parent.fail(self.prefix + rule, site, construct, message, where, expected, found)
        self.findings.append(f2)
        return f2

    def check(self, cond, rule, site, construct, message, where=None, expected=None, found=None, detail=None, nontrivial=True):
        if cond:
            self.ok(rule, site, construct, detail=detail, nontrivial=nontrivial)
        else:
            self.fail(rule, site, construct, message, where, expected, found)
        return cond

    def floor(self, rule, count, minimum, what):
        if self.findings or self.parent.findings:
            return
        if count < minimum:
            raise AnalysisError(self.prefix + rule, f"instance count {count} under the floor {minimum} ({what})")

    def canary(self, rule, fired, what):
        self.parent.canary(self.prefix + rule, fired, what)

    def note_function(self, qualname):
        self.parent.note_function(qualname)


def compose(R, pid, run, repo, keep=None, why=""):
    """Run the check of property `pid` inside the check of R.pid (which implies it, see `why`).  An analysis the composed check
    cannot complete leaves the composing check's own verdict in place; it is recorded, not raised."""
    chain = list(getattr(R, "chain", [R.pid]))
    info = R.extra.setdefault("composed", {}).setdefault(pid, {})
    info["why"] = why
    if pid in chain or len(chain) >= 3:
        # already part of this run (or nested deeply enough): not repeated
        info["status"] = "not repeated here (already composed further up: " + " > ".join(chain) + ")"
        return None
    sub = SubRun(R, pid, keep)
    try:
        run(repo, sub)
        info["status"] = "decided"
    except AnalysisError as e:
        info["status"] = f"undecided: {e}"[:300]
    if sub.dropped:
        info["findings_outside_this_property"] = sub.dropped[:20]
    info["findings"] = len([f for f in sub.findings]) - len(sub.dropped)
    return sub


class Run:
    def __init__(self, pid, tier="quick", seed=0, replay=None):
        self.pid = pid
        self.tier = tier
        self.seed = seed
        self.replay = replay
        self.t0 = time.time()
        self.obligations = 0
        self.discharged = 0
        self.evaluations = 0
        self.nontrivial = set()
        self.samples = []
        self.rules = {}  # rule -> [count, description]
        self.findings = []
        self.extra = {}
        self.assumptions = []
        self.canaries = []
        self.files = {}
        self.functions = set()
        self.lines = []

    # ---- bookkeeping
    def say(self, s):
        print(s)
        sys.stdout.flush()

    def rule(self, rule, description):
        self.rules.setdefault(rule, [0, description])

    def ok(self, rule, site, construct, detail=None, nontrivial=True, sample=False):
        """One obligation evaluated and discharged."""
        self.obligations += 1
        self.discharged += 1
        self.evaluations += 1
        self.rules.setdefault(rule, [0, ""])[0] += 1
        if nontrivial:
            self.nontrivial.add((rule, site, norm_text(str(construct))))
        if sample or (len([s for s in self.samples if s["rule"] == rule]) < 2):
            self.samples.append(
                {"rule": rule, "site": site, "construct": str(construct)[:300], "detail": detail}
            )

    def fail(self, rule, site, construct, message, where=None, expected=None, found=None):
        self.obligations += 1
        self.evaluations += 1
        self.rules.setdefault(rule, [0, ""])[0] += 1
        self.nontrivial.add((rule, site, norm_text(str(construct))))
        f = Finding(rule, site, str(construct), message, where, expected, found)
        self.findings.append(f)
        return f

    def check(self, cond, rule, site, construct, message, where=None, expected=None, found=None,
              detail=None, nontrivial=True):
        if cond:
            self.ok(rule, site, construct, detail=detail, nontrivial=nontrivial)
        else:
            self.fail(rule, site, construct, message, where, expected, found)
        return cond

    def floor(self, rule, count, minimum, what):
        if self.findings:
            return  # counts are distorted once a violation cut an analysis short; the violation is the verdict
        if count < minimum:
            raise AnalysisError(rule, f"instance count {count} under the floor {minimum} ({what})")

    def canary(self, rule, fired, what):
        self.canaries.append({"rule": rule, "fired": bool(fired), "what": what})
        if not fired:
            raise AnalysisError(rule, f"canary did not fire: {what}")

    def note_function(self, qualname):
        self.functions.add(qualname)

    # ---- finishing
    def finish(self, explanation, rule_text=None, exhaustive=None):
        known, fixed = load_known(self.pid)
        unlisted = []
        listed = []
        for f in self.findings:
            if f.key in known:
                listed.append(f)
            else:
                unlisted.append(f)
        os.makedirs(EVIDENCE_DIR, exist_ok=True)
        replay_dir = os.path.join(EVIDENCE_DIR, "replay")
        for f in listed:
            self.say(f"KNOWN-FINDING: property={self.pid} {f.key} :: {f.message}")
        vlines = []
        if getattr(self, "no_evidence", False):
            # scratch runs (self-test, seed matrix): keep replay files inside the scratch copy, which the caller removes
            replay_dir = os.path.join(getattr(self, "scratch_repo", None) or "/tmp", ".gbsa-replay-%d" % os.getpid())
        if unlisted:
            os.makedirs(replay_dir, exist_ok=True)
        for k, f in enumerate(unlisted):
            path = os.path.join(replay_dir, f"{self.pid}-{k}.json")
            with open(path, "w") as fh:
                json.dump({"property_id": self.pid, "tier": self.tier, "finding": f.as_dict()}, fh, indent=1)
            self.say(
                f"{f.where or f.site}: [{f.rule}] {f.message}"
                + (f"\n    expected: {f.expected}" if f.expected is not None else "")
                + (f"\n    found:    {f.found}" if f.found is not None else "")
            )
            vlines.append(f"VIOLATION property={self.pid} replay={path}")
        cov = {
            "explanation": explanation,
            "obligations": self.obligations,
            "discharged": self.discharged,
            "evaluations": self.evaluations,
            "distinct_nontrivial": len(self.nontrivial),
            "rule": rule_text
            or "one evaluation per (rule, construct) instance found in /repo's current source; an instance is "
            "non-trivial when the rule actually constrained a construct (vacuous premises are not counted); "
            "distinct = distinct (rule, site, normalised construct) triples",
            "samples": self.samples[:40],
            "rules_applied": {r: {"instances": c, "what": d} for r, (c, d) in sorted(self.rules.items())},
            "functions_analysed": sorted(self.functions),
            "files_digest": self.files,
            "canaries_fired": self.canaries,
            "known_findings_listed": [f.key for f in listed],
            "fixed_entries": [f"{c} {w}" for c, w in fixed],
        }
        if exhaustive is not None:
            cov["exhaustive"] = exhaustive
        cov.update(self.extra)
        ev = {
            "property_id": self.pid,
            "tier": self.tier,
            "seed": self.seed,
            "level": "other",
            "coverage": cov,
            "assumptions": self.assumptions,
            "wall_s": round(time.time() - self.t0, 3),
            "violations": len(unlisted),
        }
        if not getattr(self, "no_evidence", False):
            with open(os.path.join(EVIDENCE_DIR, f"{self.pid}.json"), "w") as fh:
                json.dump(ev, fh, indent=1, default=str)
        self.say(
            f"{self.pid} [{self.tier}] obligations={self.obligations} discharged={self.discharged} "
            f"distinct={len(self.nontrivial)} rules={len(self.rules)} functions={len(self.functions)} "
            f"canaries={len(self.canaries)} known={len(listed)} violations={len(unlisted)} "
            f"wall={ev['wall_s']}s"
        )
        for v in vlines:
            self.say(v)
        return 1 if unlisted else 0
