"""C01 Overlap integrals are exact and every basis function is unit-normalised (structural clauses)."""
import ast

import sympy as sp

from ..kernels import contraction_normal_form, check_gather_1d, expect_labels, K_labels
from ..stencil import SV, Lab, c, LabelMismatch
from ..stencil_spec import Finding, check_moment_kernel
from ..formula import Elem, Prod
from ..report import AnalysisError
from .momfam import run_kernel, report, sub_extractor

OVERLAP = "gbasis.integrals.overlap.Overlap.construct_array_contraction"


def screened_if(ex, st):
    """`if is_integral_screened(...): return np.zeros(...)` - the screened block is C20's; skip it here.  Any other guard whose whole
    body returns a block of zeros is a shortcut too: whether it is admissible is decided by the MPT rule, the recursion is analysed
    on the path that does not take it."""
    if isinstance(st.test, ast.Call) and ast.unparse(st.test.func).endswith("is_integral_screened"):
        return True
    if not st.orelse and len(st.body) == 1 and isinstance(st.body[0], ast.Return) and isinstance(st.body[0].value, ast.Call):
        d = ast.unparse(st.body[0].value.func)
        return d in ("np.zeros", "numpy.zeros", "np.zeros_like", "numpy.zeros_like")
    return False


def norm_prim_rule(repo, R):
    """norm_prim_cart == (integral of the squared Cartesian primitive)^(-1/2), for component exponents 0..6, symbolic alpha."""
    f = repo.func("gbasis.contractions.GeneralizedContractionShell.norm_prim_cart")
    R.note_function(f.qualname)
    a = sp.Symbol("a", positive=True)
    l, ax, ay, az = sp.symbols("l a_x a_y a_z", integer=True, nonnegative=True)

    def h_fact2(interp, call):
        arg = interp.expr(call.args[0])
        return sp.Function("F2")(arg)

    class E(Elem):
        def expr(self, e):
            if isinstance(e, ast.Attribute) and isinstance(e.value, ast.Name) and e.value.id == "self":
                return {"exps": a, "angmom": l, "angmom_components_cart": sp.Symbol("n_c", integer=True, nonnegative=True)}.get(e.attr) \
                    if e.attr in ("exps", "angmom", "angmom_components_cart") else super().expr(e)
            return super().expr(e)
    ev = E(f, {}, handlers={"factorial2": h_fact2}, rule="NORM")
    ev.component_symbols = (sp.Symbol("n_c", integer=True, nonnegative=True), (ax, ay, az))
    ev.run()
    if len(ev.returns) != 1:
        raise AnalysisError("NORM", "norm_prim_cart: expected one return", f.where())
    got = ev.returns[0][1]
    # got = (2a/pi)^(3/4) (4a)^(l/2) / sqrt(Prod(F2(2 n_c - 1)))
    nc = sp.Symbol("n_c", integer=True, nonnegative=True)
    bad = []
    x = sp.Symbol("x", real=True)
    n_checked = 0
    top = 6 if getattr(R, "tier", "quick") == "thorough" else 4
    for tx in range(0, top):
        for ty in range(0, top):
            for tz in range(0, top):
                n_checked += 1
                L = tx + ty + tz
                val = got.subs({l: L, ax: tx, ay: ty, az: tz})
                # Prod over the component axis of F2(2 n_c - 1): substitute the three components
                from ..formula import Prod as P
                prods = list(val.atoms(P))
                for pr in prods:
                    inner = pr.args[0]
                    rep = sp.Integer(1)
                    for t in (tx, ty, tz):
                        rep *= inner.subs(nc, t)
                    val = val.subs(pr, rep)
                if not all(getattr(z.args[0], "is_Integer", False) for z in val.atoms(sp.Function("F2"))):
                    raise AnalysisError("NORM", "norm_prim_cart: a double factorial of a non-constant survives the substitution of the exponents", f.where())
                val = val.replace(sp.Function("F2"), lambda z: sp.factorial2(z) if z > 0 else sp.Integer(1))
                want = sp.Integer(1)
                for t in (tx, ty, tz):
                    want *= sp.integrate(x ** (2 * t) * sp.exp(-2 * a * x ** 2), (x, -sp.oo, sp.oo))
                want = 1 / sp.sqrt(want)
                if sp.simplify(val / want - 1) != 0:
                    bad.append(((tx, ty, tz), str(sp.simplify(val)), str(sp.simplify(want))))
    R.check(not bad, "NORM", f.site, "norm_prim_cart == (int g^2)^(-1/2) for component exponents 0..3 per axis",
            f"the primitive normalisation constant differs from (integral of the squared primitive)^(-1/2) for exponents {[b[0] for b in bad][:5]}"
            + (f": got {bad[0][1]}, expected {bad[0][2]}" if bad else ""), where=f.where(), expected="(2a/pi)^(3/4) (4a)^(l/2) / sqrt(prod (2n-1)!!)",
            detail={"exponent_triples": n_checked, "alpha": "symbolic"})
    # utils.factorial2 treats (-1)!! (and every non-positive value) as 1
    ff = repo.func("gbasis.utils.factorial2")
    R.note_function(ff.qualname)
    S = sp.Symbol("S", integer=True, nonnegative=True)  # scipy.special.factorial2(n): n!! for n >= 0 and 0 for negative n

    class F2(Elem):
        def call(self, e):
            d = ast.unparse(e.func)
            if d in ("scipy.special.factorial2", "special.factorial2", "scipy_factorial2"):
                return S
            return Elem.call(self, e)
    try:
        ev2 = F2(ff, {ff.params[0]: sp.Symbol("n", integer=True)}, rule="NORM")
        ev2.run()
        val = ev2.returns[0][1] if len(ev2.returns) == 1 else None
    except AnalysisError:
        val = None
    if val is None or not val.free_symbols <= {S}:
        raise AnalysisError("NORM", "utils.factorial2 is not `scipy.special.factorial2` with a patch of the non-positive results", ff.where())
    # the value is touched only through a comparison with a constant and a masked store: enumerate scipy's result
    bad2 = [(k, val.subs(S, k)) for k in (0, 1, 2, 3, 8, 15, 48, 105) if sp.simplify(val.subs(S, k) - (1 if k == 0 else k)) != 0]
    R.check(not bad2, "NORM", ff.site, "(-1)!! == 1 and n!! unchanged for n >= 0",
            "factorial2 must return 1 where scipy returns 0 (negative arguments: (-1)!! = 1 is needed for s-type components) and scipy's value "
            "otherwise" + (f"; for a scipy value of {bad2[0][0]} it returns {bad2[0][1]}" if bad2 else ""), where=ff.where(),
            expected="Piecewise((1, S <= 0), (S, True))", found=str(val))


def norm_cont_rule(repo, R):
    """assign_norm_cont = (diagonal 'ijij->ij' of the shell's own overlap block)^(-1/2)."""
    f = repo.func("gbasis.contractions.GeneralizedContractionShell.assign_norm_cont")
    R.note_function(f.qualname)
    fn = f.node
    # value flow: what is finally stored in self.norm_cont, as a function of S = the (segment, component) diagonal of the shell's own
    # (M, L, M, L) overlap block
    from ..formula import Elem
    S = sp.Symbol("S", positive=True)
    SELF_OV = sp.Symbol("SELF_OVERLAP", positive=True)
    notes = []

    cgen = sp.Symbol("c", real=True, nonzero=True)  # the generic coefficient of a one-primitive shell
    fast_paths = []
    ONE_PRIM = {"self.exps.size == 1", "len(self.exps) == 1", "self.exps.shape[0] == 1", "self.coeffs.shape[0] == 1", "self._exps.size == 1",
                "self.exps.size < 2", "len(self.exps) < 2"}

    class NC(Elem):
        def assign(self, t, v, st):
            if isinstance(t, ast.Attribute):
                self.env[ast.unparse(t)] = v
                return
            Elem.assign(self, t, v, st)

        def on_if(self, st):
            # a shortcut for shells with a single primitive: there the self-overlap is S = c^2 (the primitive is normalised),
            # so the stored norm must be 1/|c| on that path
            if ast.unparse(st.test) in ONE_PRIM and not st.orelse and st.body and isinstance(st.body[-1], ast.Return):
                sub = NC(self.func, dict(self.env), rule="NORMCONT")
                sub.env["self.coeffs"] = cgen
                sub.env["self._coeffs"] = cgen
                for b in st.body[:-1]:
                    sub.stmt(b)
                fast_paths.append((st, sub.env.get("self.norm_cont")))
                return
            Elem.on_if(self, st)

        def expr(self, e):
            if isinstance(e, ast.Attribute) and ast.unparse(e) in self.env:
                return self.env[ast.unparse(e)]
            if isinstance(e, ast.Attribute) and ast.unparse(e) in ("self.num_cart", "self.num_seg_cont", "self.num_sph"):
                return sp.Symbol(e.attr, positive=True, integer=True)
            if isinstance(e, ast.Call) and isinstance(e.func, ast.Attribute) and e.func.attr == "reshape" and isinstance(e.func.value, ast.Call) \
                    and ast.unparse(e.func.value.func) in ("np.tile", "numpy.tile") and len(e.func.value.args) == 2:
                # np.tile(v, n).reshape(a, b): row i is v[i] repeated only if the copies of v are laid out along the rows, i.e. the shape
                # is (n, len(v)); with (len(v), n) the entries of different segments are interleaved (np.repeat was meant)
                dims = e.args[0].elts if len(e.args) == 1 and isinstance(e.args[0], (ast.Tuple, ast.List)) else e.args
                reps = ast.unparse(e.func.value.args[1])
                if len(dims) == 2 and ast.unparse(dims[1]) == reps and ast.unparse(dims[0]) != reps:
                    notes.append(f"`{ast.unparse(e)[:80]}` tiles the per-segment values and reshapes to (segments, components): entries of different "
                                 "segments are interleaved over the components (np.repeat gives row i = value i)")
                    return sp.Symbol("TILE_MISORDERED", positive=True)
                return self.expr(e.func.value.args[0])
            if isinstance(e, ast.Subscript) and isinstance(e.value, ast.Call) and ast.unparse(e.value.func).endswith("Overlap.construct_array_contraction"):
                # a component slice of the self-overlap block, e.g. [:, 0, :, 0]: the (M, M) block of component 0 with itself
                base = self.expr(e.value)
                idx = e.slice.elts if isinstance(e.slice, ast.Tuple) else [e.slice]
                if base == SELF_OV and len(idx) == 4 and isinstance(idx[0], ast.Slice) and isinstance(idx[2], ast.Slice) \
                        and ast.unparse(idx[1]) == ast.unparse(idx[3]) and isinstance(idx[1], ast.Constant):
                    return sp.Symbol("SELF_OVERLAP_MM", positive=True)
                self.err("slice of the self-overlap block not recognised", e)
            if isinstance(e, ast.Call) and ast.unparse(e.func) in ("np.diag", "np.diagonal", "numpy.diag") and len(e.args) == 1:
                if self.expr(e.args[0]) == sp.Symbol("SELF_OVERLAP_MM", positive=True):
                    return S  # the norm does not depend on the component: the diagonal of one component's (M, M) block is S[m, .]
                self.err("np.diag of something other than a component block of the self-overlap", e)
            if isinstance(e, ast.Call) and ast.unparse(e.func) in ("np.repeat", "np.tile", "np.broadcast_to", "np.full", "np.ones") and e.args:
                # spreading a value over the component axis: the same generic element
                if ast.unparse(e.func) == "np.ones":
                    return sp.Integer(1)
                if ast.unparse(e.func) == "np.full":
                    return self.expr(e.args[1])
                return self.expr(e.args[0])
            if isinstance(e, ast.Call) and ast.unparse(e.func).endswith("Overlap.construct_array_contraction"):
                if [ast.unparse(a) for a in e.args] == ["self", "self"] and not e.keywords:
                    return SELF_OV
                notes.append(f"the overlap block is computed for ({', '.join(ast.unparse(a) for a in e.args)}), not for (self, self)")
                return sp.Symbol("OTHER_OVERLAP", positive=True)
            if isinstance(e, ast.Call) and ast.unparse(e.func) in ("np.einsum", "numpy.einsum"):
                if len(e.args) == 2 and isinstance(e.args[0], ast.Constant) and isinstance(e.args[0].value, str) and "->" in e.args[0].value:
                    spec = e.args[0].value.replace(" ", "")
                    ins, _, out = spec.partition("->")
                    # block axes are (M, L, M, L): the diagonal pairs axis 0 with 2 and axis 1 with 3, output (M, L)
                    okspec = len(ins) == 4 and ins[0] == ins[2] and ins[1] == ins[3] and ins[0] != ins[1] and out == ins[0] + ins[1]
                    arg = self.expr(e.args[1])
                    if okspec and arg == SELF_OV:
                        return S
                    if not okspec:
                        notes.append(f"einsum '{spec}' does not take the (segment, component) diagonal of the (M, L, M, L) self-overlap block")
                    return sp.Symbol("NOT_THE_DIAGONAL", positive=True)
                self.err("einsum form not recognised", e)
            if isinstance(e, ast.Call) and ast.unparse(e.func) in ("np.finfo", "numpy.finfo"):
                return sp.Symbol("FINFO")
            if isinstance(e, ast.Attribute) and isinstance(e.value, ast.Call) and ast.unparse(e.value.func) in ("np.finfo", "numpy.finfo"):
                return sp.Symbol("finfo_" + e.attr, positive=True)
            return Elem.expr(self, e)

    E = NC(f, {"self": sp.Symbol("self")}, rule="NORMCONT")
    for st in fn.body:
        if isinstance(st, (ast.ImportFrom, ast.Import)):
            continue
        E.stmt(st)
    val = E.env.get("self.norm_cont")
    if val is None:
        raise AnalysisError("NORMCONT", "assign_norm_cont does not store self.norm_cont", f.where())
    for st, fv in fast_paths:
        okf = fv is not None and sp.simplify(fv - 1 / sp.Abs(cgen)) == 0
        R.check(okf, "NORMCONT", f.site, "one-primitive shortcut: norm == 1/|c|",
                "for a shell with a single (normalised) primitive the self-overlap is c^2, so the contraction norm must be 1/|c|: the shortcut "
                f"stores {fv} (wrong for " + ("negative coefficients" if fv is not None and sp.simplify(fv - 1 / cgen) == 0 else "coefficients other than +-1") + ")",
                where=f.where(st), expected="1/Abs(c)", found=str(fv))
    R.check(sp.simplify(val - S ** sp.Rational(-1, 2)) == 0, "NORMCONT", f.site, "self.norm_cont == S ** -0.5",
            "the contraction norm must be exactly the self-overlap to the power -1/2 (otherwise a contraction is no longer "
            "normalised, and rescaling a coefficient column changes the function)" + ("; " + "; ".join(notes) if notes else ""),
            where=f.where(), expected="S**(-1/2) with S = einsum('ijij->ij', Overlap.construct_array_contraction(self, self))", found=str(val))


def run(repo, R):
    from .momfam import compose_state_rules as _csr
    _csr(R, repo, ['gbasis/integrals/overlap.py', 'gbasis/integrals/overlap_asymm.py', 'gbasis/integrals/_moment_int.py', 'gbasis/contractions.py', 'gbasis/spherical.py', 'gbasis/utils.py', 'gbasis/base.py', 'gbasis/base_one.py', 'gbasis/base_two_symm.py', 'gbasis/base_two_asymm.py', 'gbasis/base_four_symm.py'], "the property holds for every call, also after a shell's parameters were changed through its setters")
    R.rule("PITFALL", "no result buffer typed after an input, no real cast of a transformation, no unbuffered accumulation / first-occurrence scatter through np.unique")
    from ..pitfalls import report as _pitfalls
    _pitfalls(repo, R, ['gbasis.integrals.overlap', 'gbasis.integrals.overlap_asymm', 'gbasis.integrals._moment_int'], single_row_tables=True)
    R.rule("INPUTS", "the public wrapper uses its parameters as given: no path replaces one by a filtered/re-ordered/scaled/defaulted copy")
    R.rule("DISPATCH", "the wrapper assembles Cartesian, spherical, mixed and transformed results through the four assembly routes, same keywords on each")
    from ..flow import check_wrapper_inputs, check_wrapper_dispatch
    for _w in ['gbasis.integrals.overlap.overlap_integral', 'gbasis.integrals.overlap_asymm.overlap_integral_asymmetric']:
        _wf = repo.func(_w)
        R.note_function(_wf.qualname)
        # the screening tolerance is C20's subject: dropping or replacing it changes which blocks are screened, not the exactness of
        # the unscreened overlap this property is about
        check_wrapper_inputs(repo, _wf, R, ignore=("tol_screen",))
        if _wf.name.endswith("_asymmetric"):
            from .c09 import check_asym_wrapper
            check_asym_wrapper(repo, _wf, R)
        else:
            check_wrapper_dispatch(repo, _wf, R, "DISPATCH", ignore_kw=("tol_screen",))
    R.rule("NOSCREEN", "without a tolerance nothing is screened: `tol_screen` defaults to None in the public wrapper and in the kernel")
    from ..flow import check_default_is
    for q_ in ('gbasis.integrals.overlap.overlap_integral', OVERLAP):
        check_default_is(repo.func(q_), R, "NOSCREEN", "tol_screen", None,
                         "a plain overlap_integral(basis) then zeroes shell pairs beyond the cutoff, whose true overlaps exceed 1e-8 for high angular momenta")
    R.rule("MPT", "every returned block of the overlap kernel is derived from the recursion; the only shortcut is the documented screening")
    from .mpt import must_pass_through
    must_pass_through(repo, R, repo.func(OVERLAP), allowed_shortcuts=("is_integral_screened",), none_scope=("tol_screen",))
    R.rule("S0", "start of the recursion = sqrt(pi/p) exp(-mu (A-B)^2)")
    R.rule("Sa", "Obara-Saika step on the first index: M[i] = (P-A) M[i-1] + (i-1)/(2p) M[i-2]")
    R.rule("Sb", "Obara-Saika step on the second index with the coupling i/(2p) M[i-1, j-1]")
    R.rule("S-LEAD", "each table axis is incremented with one centre throughout")
    R.rule("AXTYPE-K", "the kernel is well-typed in the axis-provenance domain (broadcasts, contractions, transposes)")
    R.rule("K", "contract K: the kernel returns (M_1, L_1, M_2, L_2)")
    R.rule("LIN", "primitives of each shell contracted exactly once with that shell's coefficients and primitive norms")
    R.rule("GATHER", "x, y, z factors selected with (order, components of shell two, components of shell one, component) on the matching table axes")
    R.rule("STABLE", "start value and leading coefficients depend on the centres through differences only (no cancellation of super-linear terms)")
    R.rule("NORM", "norm_prim_cart == (integral of the squared primitive)^(-1/2)")
    R.rule("NORMCONT", "contraction norm = (diagonal of the shell's own overlap block)^(-1/2)")
    R.rule("SIBLING", "OverlapAsymmetric reuses the very same kernel object")
    f, ex = run_kernel(repo, R, OVERLAP, if_handler=screened_if)
    findings = []
    if ex is not None:
        st, ret = ex.returns[-1]
        expect_labels(ret, K_labels(2), findings, "Overlap.construct_array_contraction", f)
        nf = contraction_normal_form(ret, 2, findings, f)
        subs = sub_extractor(ex, "_compute_multipole_moment_integrals_intermediate")
        if len(subs) != 1:
            raise AnalysisError("STENCIL", "the overlap kernel does not reach the 1-D Obara-Saika table exactly once", f.where())
        info = check_moment_kernel(repo, subs[0].func, None, findings, ex=subs[0], only=("Sa", "Sb"))
        roles = info["axis_role"]
        if nf is not None:
            core, factors = nf
            # order index: the overlap requests the single order (0,0,0)
            check_gather_1d(ex, core, {k: v for k, v in roles.items()} | {0: "e"}, lambda idx, comp: (idx == 0, "the overlap is moment order 0"), findings, f)
        nrec = len([s for s in info["stores"] if s[1] in ("S0", "Sa", "Sb")])
        R.extra["stencils"] = {"S0/Sa/Sb": nrec, "axis_roles": {str(k): v for k, v in roles.items()}}
        for s, name, r in info["stores"]:
            if name in ("S0", "Sa", "Sb") and not [fd for fd in findings if fd.store is s]:
                R.ok(name, s.func.site, s.text, detail="conforms")
        if not [fd for fd in findings if fd.rule in ("K", "LIN", "GATHER")]:
            R.ok("K", f.site, "returns (M_1, L_1, M_2, L_2)")
            R.ok("LIN", f.site, "coef_s * NPC_s contracted over K_s once per shell", detail=str(ret.e)[:200])
            R.ok("GATHER", f.site, "prod_c T[0, comp_2(c), comp_1(c), c]")
        # numerical-stability lint on the start value and the leading coefficients (accuracy far from the origin)
        from ..stencil_spec import superlinear_cancellation, stencil_of
        for s, name, r in info["stores"]:
            if name not in ("S0", "Sa", "Sb"):
                continue
            for expr in [s.rhs.e]:  # the raw (unsimplified) right-hand side: simplification would hide or create cancellations
                bad = superlinear_cancellation(expr) if expr != 0 else None
                if bad is not None:
                    findings.append(Finding("STABLE", s, "squares of absolute positions are cancelled against each other instead of using "
                                                         "coordinate differences: all accuracy is lost for centres far from the origin "
                                                         "(translation invariance holds only symbolically)", found=str(bad)[:160],
                                            expected="centres enter through differences only"))
                    break
    report(R, f, findings)
    if ex is not None:
        R.floor("Sa", nrec, 4, "overlap recursion stores")
    norm_prim_rule(repo, R)
    norm_cont_rule(repo, R)
    # sibling: the asymmetric class uses the same kernel object
    g = repo.func("gbasis.integrals.overlap_asymm.OverlapAsymmetric.construct_array_contraction")
    R.check(g is repo.func(OVERLAP), "SIBLING", "integrals.overlap_asymm.OverlapAsymmetric", "construct_array_contraction is Overlap's",
            "OverlapAsymmetric no longer reuses Overlap.construct_array_contraction: the two-basis overlap is a different computation from the union's block",
            where=g.where())
    # the property is stated for Cartesian, spherical and mixed bases and with a transformation: the assembly of this operator's base
    # class (norm once per index, own Cartesian->spherical matrix, segment-major blocks, transformation on every index) is part of it
    from ..report import compose as _compose
    from . import c09 as _c09
    _bases = ('base_two_symm', 'base_two_asymm')
    _compose(R, "C09", _c09.run, repo, keep=lambda fd: any(b_ in (fd.where or "") or b_ in fd.site for b_ in _bases) or "spherical.py" in (fd.where or ""),
             why="results for spherical / mixed / transformed bases are assembled by " + ", ".join(_bases))
    R.assumptions += ["Obara & Saika 1986 / Helgaker 9.3 recurrences as stated in DESIGN.md 2.2", "assembly contract A (C09) places and normalises the blocks",
                      "sympy integrate for the Gaussian moment integrals"]
    return ("STENCIL + AXTYPE on the overlap kernel chain: the label-carrying symbolic evaluator runs Overlap.construct_array_contraction "
            "through _compute_multipole_moment_integrals, its recursion table and _cleanup_intermediate_integrals with symbolic shells; "
            "every store of the recursion with order index 0 is extracted as a stencil and compared coefficient by coefficient with the "
            "Obara-Saika recurrences (any l: the loop index stays symbolic); the selection of x/y/z factors uses the component lists "
            "of the shell whose centre drives that table axis; primitives are contracted exactly once with their shell's coefficients "
            "and primitive norms; the result has type (M_1, L_1, M_2, L_2). norm_prim_cart equals (int g^2)^(-1/2) by computer algebra; "
            "the contraction norm is the -1/2 power of the diagonal of the shell's own overlap block; the asymmetric class reuses the same "
            "kernel. Not decided: the 1e-8 accuracy over the exponent range, diagonal = 1 to rounding (numerical).")
