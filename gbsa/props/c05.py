"""C05 Basis-function values and arbitrary-order derivatives are exact; the two back-ends agree.

FORMULA on both derivative back-ends against d^k/dx^k x^n exp(-a x^2); FLOW guards of the back-end selection.
"""
import ast
import itertools

import sympy as sp

from ..astutil import Defs, dotted, walk_no_nested, calls_in, normal_compare
from ..flow import path_conditions, stmt_of, terminates, check_wrapper_dispatch, RAISE_GUARDS
from ..formula import Elem, Prod, LinearSum
from ..report import AnalysisError

KERNEL = "gbasis.evals.eval_deriv.EvalDeriv.construct_array_contraction"
DIRECT = "gbasis.evals._deriv._eval_first_second_order_deriv_contractions"
GENERAL = "gbasis.evals._deriv._eval_deriv_contractions"

x, a = sp.symbols("x a", positive=True)  # x: coordinate difference (sign irrelevant for the identities), a: exponent
n = sp.Symbol("n", integer=True, nonnegative=True)
N = sp.Symbol("N", integer=True, nonnegative=True)
g = sp.Symbol("g", positive=True)  # the gaussian exp(-a x^2), kept atomic until the comparison


XZ = sp.Symbol("x_on_plane", real=True)  # stands for the coordinate difference inside conditions (x itself is assumed positive)


class DirectElem(Elem):
    """`if mask.any():` / `if any(mask):` around masked assignments are analysed as taken."""

    def compare(self, e):
        # a test of the coordinate difference against 0 decides between formulas: keep it (x is positive for the algebra)
        if len(e.ops) == 1 and isinstance(e.ops[0], (ast.Eq, ast.NotEq)) and isinstance(e.comparators[0], ast.Constant) and e.comparators[0].value == 0:
            l = self.expr(e.left)
            if l == x:
                return sp.Ne(XZ, 0) if isinstance(e.ops[0], ast.NotEq) else sp.Eq(XZ, 0)
        return super().compare(e)

    def on_if(self, st):
        t = st.test
        is_any = (isinstance(t, ast.Call) and ((isinstance(t.func, ast.Attribute) and t.func.attr == "any") or dotted(t.func) in ("any", "np.any")))
        if is_any:
            for s in st.body:
                self.stmt(s)
            return
        if isinstance(t, ast.Compare) and len(t.ops) == 1 and isinstance(t.ops[0], (ast.Is, ast.IsNot)) and isinstance(t.left, ast.Name) \
                and isinstance(t.comparators[0], ast.Constant) and t.comparators[0].value is None and t.left.id in self.env:
            # a private keyword left at its default None (or given): decided by what it is bound to here
            isnone = self.env[t.left.id] is None
            for s in (st.body if isnone == isinstance(t.ops[0], ast.Is) else st.orelse):
                self.stmt(s)
            return
        super().on_if(st)

    def mask_of(self, sl):
        m = super().mask_of(sl)
        if m is not None:
            return m
        if isinstance(sl, ast.Tuple):
            masks = [x for x in sl.elts if not isinstance(x, ast.Slice)]
            if len(masks) == 1:
                return super().mask_of(masks[0])
        return None


def resolve_case(expr, case_sub):
    """Select the branch of a (possibly nested, top-level) Piecewise for n = case_sub; returns the branch
    expression *unsubstituted* (so that powers are inspected before sympy combines them)."""
    while isinstance(expr, sp.Piecewise):
        chosen = None
        for e, c in expr.args:
            cv = c.subs(n, case_sub) if c is not sp.true else sp.true
            cv = sp.simplify(cv)
            if cv is sp.true or cv == True:  # noqa: E712
                chosen = e
                break
            if cv is sp.false or cv == False:  # noqa: E712
                continue
            raise AnalysisError("FORMULA", f"cannot decide the case condition {c} for n = {case_sub}")
        if chosen is None:
            raise AnalysisError("FORMULA", f"no branch selected for n = {case_sub}")
        expr = chosen
    return expr


def negative_powers(expr, case_sub):
    """Powers of x in `expr` whose exponent may be negative for n = case_sub (checked before substitution)."""
    bad = []
    for p in sp.preorder_traversal(expr):
        if isinstance(p, sp.Pow) and p.base.has(x):
            e = p.exp
            ev = e.subs(n, case_sub)
            ev = sp.piecewise_fold(ev)
            ev = sp.simplify(ev)
            if ev.is_nonnegative is not True:
                bad.append((p, ev))
    return bad


def factor_of(value, what, f):
    """The per-coordinate factor inside np.prod(..., axis=xyz)."""
    if isinstance(value, Prod):
        return value.args[0]
    raise AnalysisError("FORMULA", f"{what} is not a product over the coordinate axis: {value}", f.where())


def check_closed_form(R, f, got, order, cases, rule):
    """got: per-coordinate factor (with g atomic) as a function of symbolic n; compare with d^order/dx^order x^n e^{-a x^2}."""
    e = sp.exp(-a * x ** 2)
    on_plane = got.has(XZ)
    got_plane = sp.piecewise_fold(got.subs(XZ, 0)) if on_plane else None
    got = sp.piecewise_fold(got.subs(XZ, 1)) if on_plane else got  # generic point: the coordinate difference is not zero
    for label, sub, scale in cases:
        branch = resolve_case(got, sub)
        bad = negative_powers(resolve_case(got_plane, sub) if on_plane else branch, sub)
        R.check(not bad, "DEF", f.site, f"order {order}, n = {label}: powers of the coordinate difference",
                f"for n = {label} the selected expression contains {[str(b[0]) for b in bad]} whose exponent can be negative: at a point on "
                f"the centre/coordinate plane this is 0**negative (inf/nan) instead of the exact value",
                where=f.where(), expected="non-negative exponents in the selected branch", found=[str(b[1]) for b in bad])
        val = branch.subs(n, sub).subs(g, e)
        want = sp.diff(x ** sub * e, x, order)
        diff = sp.simplify(sp.expand(sp.powsimp(sp.expand((val - want) / e / scale))))
        R.check(diff == 0, rule, f.site, f"order {order}, n = {label}",
                f"the hand-expanded {['value', 'first', 'second'][order]} derivative factor differs from d^{order}/dx^{order} x^n exp(-a x^2) for n = {label}",
                where=f.where(), expected=str(sp.simplify(want / e)) + " * exp(-a x^2)", found=str(sp.simplify(val / e)) + " * exp(-a x^2)")
        # a formula that branches on the coordinate itself (np.where / where= on x == 0) is also evaluated on the plane x = 0
        if on_plane:
            concrete = [sub] if isinstance(sub, (int, sp.Integer)) else [sub.subs(N, k) for k in (0, 1, 2)]
            for nv in concrete:
                try:
                    v0 = sp.simplify(resolve_case(got_plane, nv).subs(n, nv).subs(g, e).subs(x, 0))
                    w0 = sp.simplify(sp.diff(x ** nv * e, x, order).subs(x, 0))
                except Exception:
                    continue
                if w0.is_finite is False:
                    continue
                R.check(sp.simplify(v0 - w0) == 0, rule, f.site, f"order {order}, n = {nv}, on the plane x = 0",
                        f"on a point of the centre's coordinate plane (x = 0) the {['value', 'first', 'second'][order]} derivative factor for n = {nv} is "
                        f"{v0} instead of {w0}", where=f.where(), expected=str(w0), found=str(v0))


def run_direct(repo, R):
    fd = repo.func("gbasis.evals._deriv._first_derivative")
    sd = repo.func("gbasis.evals._deriv._second_derivative")
    top = repo.func(DIRECT)
    for f in (fd, sd, top):
        R.note_function(f.qualname)

    extra_defaults = {}

    def run_helper(f):
        p = f.params
        a_ = f.node.args
        n_def = len(a_.defaults)
        extras = p[5:]
        defaults = dict(zip([z.arg for z in a_.args][len(a_.args) - n_def:], a_.defaults)) if n_def else {}
        if len(p) < 5 or not all(q in defaults and isinstance(defaults[q], ast.Constant) and defaults[q].value is None for q in extras):
            raise AnalysisError("FORMULA", f"signature of {f.name} changed", f.where())
        env = {p[0]: x, p[1]: g, p[2]: sp.Symbol("MASK"), p[3]: n, p[4]: a}
        for q in extras:
            env[q] = None  # private keyword at its default: the helper computes the quantity itself
        E = DirectElem(f, env, rule="FORMULA")
        E.repo = repo
        E.run()
        # what the helper computes for each private keyword when it is not given: a caller that passes one must pass exactly this
        extra_defaults[f.name] = {q: E.env.get(q) for q in extras}
        if len(E.returns) != 1:
            raise AnalysisError("FORMULA", f"{f.name}: expected one return", f.where())
        E.check_not_opaque(E.returns[0][1], E.returns[0][0])
        return factor_of(E.returns[0][1], f.name, f)

    first = run_helper(fd)
    second = run_helper(sd)
    check_closed_form(R, fd, first, 1, [("0", sp.Integer(0), 1), ("N+1 (every n >= 1)", N + 1, x ** N)], "DIRECT")
    check_closed_form(R, sd, second, 2, [("0", sp.Integer(0), 1), ("1", sp.Integer(1), 1), ("N+2 (every n >= 2)", N + 2, x ** N)], "DIRECT")

    # ---- the combining function: zeroth-order factor, partition of the coordinate axis, helper calls, contraction
    p = top.params  # coords, orders, center, angmom_comps, alphas, prim_coeffs, norm
    if len(p) != 7:
        raise AnalysisError("FORMULA", "signature of the direct back-end changed", top.where())
    fn = top.node
    D = Defs(fn)
    # masks on `orders`
    masks = {}
    for st in walk_no_nested(fn):
        if isinstance(st, ast.Assign) and len(st.targets) == 1 and isinstance(st.targets[0], ast.Name) and isinstance(st.value, ast.Compare):
            nc = normal_compare(st.value)
            if nc and ast.unparse(nc[0]) == p[1] and isinstance(nc[2], ast.Constant):
                masks[st.targets[0].id] = (nc[1], nc[2].value)
    covered = set()
    for name, (op, c) in masks.items():
        for v in range(0, 6):
            if {"<=": v <= c, "==": v == c, "<": v < c, ">=": v >= c, ">": v > c, "!=": v != c}[op]:
                covered.add((v, name))
    by_v = {}
    for v, name in covered:
        by_v.setdefault(v, []).append(name)
    handled = sorted(v for v in by_v)
    disjoint = all(len(ns) == 1 for ns in by_v.values())
    R.check(disjoint and handled == list(range(0, max(handled) + 1)) if handled else False, "PARTITION", top.site,
            f"order classes {masks}", "the order classes of the direct back-end overlap or leave a gap below their maximum",
            where=top.where(), expected="pairwise disjoint classes covering 0..max", found={v: ns for v, ns in by_v.items()})
    max_order = max(handled) if handled else -1
    # which helper receives which mask (on every path)
    zero_mask = [nm for nm, (op, c) in masks.items() if any(v == 0 for v, n2 in covered if n2 == nm)]
    role = {}
    for nm in masks:
        vs = sorted(v for v, n2 in covered if n2 == nm)
        role[nm] = vs
    calls = [c for c in ast.walk(fn) if isinstance(c, ast.Call) and dotted(c.func) in (fd.name, sd.name)]
    if len(calls) < 2:
        raise AnalysisError("FORMULA", "calls of the derivative helpers not found", top.where())
    for c in calls:
        want_order = 1 if dotted(c.func) == fd.name else 2
        args = [ast.unparse(z) for z in c.args]
        m = args[2] if len(args) > 2 else None
        ok = m in role and role[m] == [want_order] and len(args) == 5
        R.check(ok, "PARTITION", top.site, ast.unparse(c)[:90],
                f"{dotted(c.func)} implements order {want_order} but is applied to the coordinates selected by `{m}` = orders {role.get(m)}",
                where=top.where(c), expected=f"mask of order {want_order}", found=role.get(m))
        # the other arguments: shifted coordinates, gaussian, components, exponents
    # enumerate the truth values of the two `.any()` atoms: the helper for order k runs iff its mask is non-empty
    atoms = sorted({ast.unparse(t) for t in ast.walk(fn) if isinstance(t, ast.Call) and isinstance(t.func, ast.Attribute) and t.func.attr == "any"})
    mask_of_atom = {at: at.split(".any")[0] for at in atoms}

    def executed(stmts, truth, acc):
        for st in stmts:
            if isinstance(st, ast.If):
                t = ast.unparse(st.test)
                if t in truth:
                    executed(st.body if truth[t] else st.orelse, truth, acc)
                    continue
                if st.body and isinstance(st.body[-1], ast.Raise):
                    continue
                raise AnalysisError("PARTITION", f"branch `{t}` not understood", top.where(st))
            for c in ast.walk(st):
                if isinstance(c, ast.Call) and dotted(c.func) in (fd.name, sd.name):
                    acc.add(dotted(c.func))
        return acc

    for vals in itertools.product([False, True], repeat=len(atoms)):
        truth = dict(zip(atoms, vals))
        got = executed(fn.body, truth, set())
        want = set()
        for at, v in truth.items():
            if v:
                vs = role.get(mask_of_atom[at])
                if vs == [1]:
                    want.add(fd.name)
                elif vs == [2]:
                    want.add(sd.name)
        R.check(got == want, "PARTITION", top.site, f"helpers executed when {truth}",
                "a derivative factor is skipped or computed for the wrong combination of orders",
                where=top.where(), expected=sorted(want), found=sorted(got))
    # symbolic value of the combination
    F1, F2 = sp.Symbol("F1"), sp.Symbol("F2")
    cx, ctr, cn, ca, cc, cnorm = sp.symbols("X C n_ a_ c NORM", positive=True)

    class TopElem(DirectElem):
        pass

    site_findings = []

    def helper_site(sym, f_):
        def h(interp, call):
            # the helper's parameters must receive the shifted coordinate, its Gaussian, (the mask), the component exponents and the
            # exponents of this very call; a private keyword must receive what the helper would compute itself
            sh = cx - ctr
            want = [sh, sp.exp(-a * sh ** 2), None, n, a]
            for k_, (arg, w) in enumerate(zip(call.args, want)):
                if w is None:
                    continue
                try:
                    got = interp.expr(arg)
                except AnalysisError:
                    continue
                if not hasattr(got, "free_symbols") or sp.simplify(got - w) != 0:
                    site_findings.append((call, f"argument {k_} (`{f_.params[k_]}`) of {f_.name} receives `{ast.unparse(arg)[:50]}` = {got}", str(w)))
            for kw_ in call.keywords:
                dflt = extra_defaults.get(f_.name, {}).get(kw_.arg)
                if dflt is None:
                    site_findings.append((call, f"keyword `{kw_.arg}` of {f_.name} is not one of its private pre-computed quantities", ""))
                    continue
                w = dflt.subs({x: sh, g: sp.exp(-a * sh ** 2)}, simultaneous=True)
                try:
                    got = interp.expr(kw_.value)
                except AnalysisError:
                    continue
                if not hasattr(got, "free_symbols") or sp.simplify(got - w) != 0:
                    site_findings.append((call, f"private keyword `{kw_.arg}` of {f_.name} receives `{ast.unparse(kw_.value)[:50]}` = {got}, but the helper "
                                                f"computes {w} when it is not given", str(w)))
            return sym
        return h

    handlers = {fd.name: helper_site(F1, fd), sd.name: helper_site(F2, sd)}
    E = TopElem(top, {p[0]: cx, p[1]: sp.Symbol("orders"), p[2]: ctr, p[3]: n, p[4]: a, p[5]: cc, p[6]: cnorm},
                handlers=handlers, rule="FORMULA", attr_symbols={})
    E.lenient = True
    # np.ones(zeroth_deriv.shape) must be 1; .shape attribute
    try:
        E.run()
    except AnalysisError as err:
        raise
    if len(E.returns) != 1:
        raise AnalysisError("FORMULA", "direct back-end: expected one return", top.where())
    out = E.returns[0][1]
    E.check_not_opaque(out, E.returns[0][0])
    seen_sites = set()
    for call, msg, want_ in site_findings:
        if (id(call), msg) in seen_sites:
            continue
        seen_sites.add((id(call), msg))
        R.fail("DIRECT", top.site, ast.unparse(call)[:90], msg + ": the derivative factor is then that of another function", where=top.where(call), expected=want_)
    if not site_findings:
        R.ok("DIRECT", top.site, f"{len(calls)} helper call sites receive the shifted coordinate, its Gaussian, the exponents of the same call")
    run_direct.last_combination = (out, cx, ctr)
    shifted = cx - ctr
    zeroth = Prod(shifted ** n * sp.exp(-a * shifted ** 2))
    want = LinearSum(cc * (cnorm * zeroth * F1 * F2))
    ok = sp.simplify(out - want) == 0
    R.check(ok, "DIRECT", top.site, "combination of the three order classes",
            "the direct back-end does not return sum_prim coeff * norm * prod_{order 0}(x^n e^{-a x^2}) * first * second with x = point - centre",
            where=top.where(E.returns[0][0]), expected=str(want), found=str(out))
    # tensordot axes (0, 0): the primitive axis of the coefficients with the primitive axis of the product
    tds = calls_in(fn, "np.tensordot")
    eins = [c for c in calls_in(fn, "np.einsum") if len(c.args) == 3 and isinstance(c.args[0], ast.Constant) and isinstance(c.args[0].value, str)
            and p[5] in (ast.unparse(c.args[1]), ast.unparse(c.args[2]))]
    if not tds and len(eins) == 1:
        spec = eins[0].args[0].value.replace(" ", "")
        ins, out_ = spec.split("->")
        subs = ins.split(",")
        pos = 0 if ast.unparse(eins[0].args[1]) == p[5] else 1
        sc, so = subs[pos], subs[1 - pos]
        oke = bool(sc) and sc[0] != "." and sc[0] == so[0] and sc[0] not in out_
        R.check(oke, "DIRECT", top.site, f"np.einsum('{spec}', prim_coeffs, ...)", "primitives must be contracted with the (K, M) coefficient matrix on axis 0",
                where=top.where(eins[0]), expected="first axis of the coefficients summed against the first axis of the values", found=spec)
        return max_order, masks
    if len(tds) != 1 or len(tds[0].args) != 3 or p[5] not in (ast.unparse(tds[0].args[0]), ast.unparse(tds[0].args[1])):
        raise AnalysisError("DIRECT", f"the contraction of `{p[5]}` with the primitives is not a single np.tensordot(.., .., axes): idiom not recognised",
                            top.where(tds[0]) if tds else top.where())
    ok = ast.unparse(tds[0].args[0]) == p[5] and ast.unparse(tds[0].args[2]) == "(0, 0)"
    R.check(ok, "DIRECT", top.site, "np.tensordot(prim_coeffs, ..., (0, 0))", "primitives must be contracted with the (K, M) coefficient matrix on axis 0",
            where=top.where(tds[0]) if tds else top.where(), expected="(0, 0)", found=ast.unparse(tds[0].args[2]) if tds and len(tds[0].args) == 3 else None)
    return max_order, masks


def guard_excludes(test, orders_name, max_order):
    """Does `test` being False imply every order <= max_order?  Recognised forms: np.any(orders > c), any(orders > c),
    (orders > c).any(), np.max(orders) > c, max(orders) > c, with c <= max_order (and the >= c+1 variants)."""
    def cmp_orders(e):
        nc = normal_compare(e)
        if nc is None:
            return None
        lhs, op, rhs = nc
        if isinstance(rhs, ast.Constant) and isinstance(rhs.value, int):
            l = lhs
            while isinstance(l, ast.Call) and dotted(l.func) in ("np.max", "max", "np.amax", "np.asarray", "np.array") and l.args:
                l = l.args[0]
            if isinstance(l, ast.Call) and isinstance(l.func, ast.Attribute) and l.func.attr == "max":
                l = l.func.value
            if ast.unparse(l) == orders_name:
                if op == ">":
                    return rhs.value
                if op == ">=":
                    return rhs.value - 1
        return None

    t = test
    if isinstance(t, ast.Call) and dotted(t.func) in ("np.any", "any") and t.args:
        c = cmp_orders(t.args[0])
    elif isinstance(t, ast.Call) and isinstance(t.func, ast.Attribute) and t.func.attr == "any":
        c = cmp_orders(t.func.value)
    else:
        c = cmp_orders(t)
    return c is not None and c <= max_order, c


def run_guards(repo, R, max_order):
    k = repo.func(KERNEL)
    R.note_function(k.qualname)
    fn = k.node
    pc = path_conditions(fn)
    orders_name = "orders"
    if orders_name not in k.params or "deriv_type" not in k.params:
        raise AnalysisError("GUARD", "EvalDeriv.construct_array_contraction lost `orders`/`deriv_type`", k.where())
    direct = repo.func(DIRECT)
    general = repo.func(GENERAL)
    dcalls = calls_in(fn, direct.name)
    gcalls = calls_in(fn, general.name)
    if not dcalls or not gcalls:
        raise AnalysisError("GUARD", "back-end calls not found in EvalDeriv.construct_array_contraction", k.where())
    # ---- exhaustiveness of the dispatch on deriv_type
    handled = set()
    for node in ast.walk(fn):
        if isinstance(node, ast.Compare) and ast.unparse(node.left) == "deriv_type" and len(node.ops) == 1 and isinstance(node.ops[0], ast.Eq) \
                and isinstance(node.comparators[0], ast.Constant):
            handled.add(node.comparators[0].value)
    # a back-end name other than the handled ones must end in a raise on every path: follow the statements with every
    # `deriv_type == <const>` test false (tests on other things: both ways)
    def outcomes(stmts):
        """-> set of ways the statement list can end for an unhandled name: 'raise', 'return', 'fall'"""
        out = set()
        live = True
        for st in stmts:
            if isinstance(st, ast.Raise):
                out.add("raise")
                live = False
                break
            if isinstance(st, ast.Return):
                out.add("return")
                live = False
                break
            if isinstance(st, ast.If):
                t = st.test
                is_dt = isinstance(t, ast.Compare) and ast.unparse(t.left) == "deriv_type" and len(t.ops) == 1 and isinstance(t.comparators[0], ast.Constant)
                if is_dt and isinstance(t.ops[0], ast.Eq):
                    branches = [st.orelse]
                elif is_dt and isinstance(t.ops[0], ast.NotEq):
                    branches = [st.body]
                elif isinstance(t, ast.Compare) and ast.unparse(t.left) == "deriv_type" and isinstance(t.ops[0], ast.NotIn):
                    branches = [st.body]
                elif isinstance(t, ast.Compare) and ast.unparse(t.left) == "deriv_type" and isinstance(t.ops[0], ast.In):
                    branches = [st.orelse]
                else:
                    branches = [st.body, st.orelse]
                res = set()
                for b in branches:
                    res |= outcomes(b)
                out |= res - {"fall"}
                if "fall" not in res:
                    live = False
                    break
        if live:
            out.add("fall")
        return out
    oc = outcomes(fn.body)
    R.check(oc == {"raise"} or oc == {"raise"} | set(), "GUARD-EXHAUSTIVE", k.site, f"dispatch on deriv_type over {sorted(handled)}",
            "a back-end name other than the handled ones is not rejected on every path (it reaches a return or falls off the end)",
            where=k.where(), expected="every path for an unknown name ends in `raise`", found=sorted(oc))
    # ---- the direct back-end is only reached with orders it implements
    for c in dcalls:
        st = stmt_of(fn, c)
        conds = pc.get(id(st), ())
        ok = False
        found = []
        for t, pol in conds:
            if not pol and id(t) in RAISE_GUARDS:
                g_ok, cval = guard_excludes(t, orders_name, max_order)
                found.append(ast.unparse(t))
                ok |= g_ok
        # alternatively the direct back-end itself rejects them before using its order classes
        if not ok:
            dpc = path_conditions(direct.node)
            first_use = min([n2.lineno for n2 in ast.walk(direct.node) if isinstance(n2, ast.Compare) and ast.unparse(n2.left) == direct.params[1]] or [10 ** 9])
            for st2 in direct.node.body:
                if isinstance(st2, ast.If) and terminates(st2.body) and isinstance(st2.body[-1], ast.Raise) and st2.lineno < first_use:
                    g_ok, cval = guard_excludes(st2.test, direct.params[1], max_order)
                    ok |= g_ok
        R.check(ok, "GUARD-DOMAIN", k.site, ast.unparse(c)[:80],
                f"the direct back-end implements orders 0..{max_order} per axis only; a request with a larger order reaches it and is answered "
                f"with that axis' factor silently dropped instead of being rejected",
                where=k.where(c), expected=f"a dominating `if np.any(orders > {max_order}): raise`", found=found or "no guard on the orders")
    # negative orders / non-integer orders rejected before either back-end
    neg = False
    for st in fn.body:
        if isinstance(st, ast.If) and terminates(st.body) and isinstance(st.body[-1], ast.Raise):
            t = ast.unparse(st.test)
            if "orders < 0" in t:
                neg = True
    R.check(neg, "GUARD-DOMAIN", k.site, "negative orders rejected", "negative derivative orders are not rejected", where=k.where())
    run_slots(repo, R)


def run_slots(repo, R):
    """SIBLING / SLOT: both back-ends receive the same arguments, which are the shell's own attributes of the same role."""
    k = repo.func(KERNEL)
    fn = k.node
    direct = repo.func(DIRECT)
    general = repo.func(GENERAL)
    dcalls = calls_in(fn, direct.name)
    gcalls = calls_in(fn, general.name)
    if not dcalls or not gcalls:
        raise AnalysisError("SLOT", "back-end calls not found in EvalDeriv.construct_array_contraction", k.where())
    def bound(callee, call):
        """parameter -> argument node (positional and keyword)"""
        d = dict(zip(callee.params, call.args))
        for kw in call.keywords:
            if kw.arg is not None:
                d[kw.arg] = kw.value
        return d
    # arguments handed to both back-ends agree (same slots)
    b1, b2 = bound(general, gcalls[0]), bound(direct, dcalls[0])
    a1 = [ast.unparse(b1[p_]) if p_ in b1 else None for p_ in general.params[:7]]
    a2 = [ast.unparse(b2[p_]) if p_ in b2 else None for p_ in direct.params[:7]]
    R.check(a1 == a2 and None not in a1, "SIBLING", k.site, "arguments of the two back-end calls",
            "the two back-ends are called with different arguments", where=k.where(dcalls[0]), expected=a1, found=a2)
    # and they are the shell's own attributes in the right slots
    D = Defs(fn)
    slots = b1
    want = {"center": "coord", "angmom_comps": "angmom_components_cart", "alphas": "exps", "prim_coeffs": "coeffs", "norm": "norm_prim_cart"}
    for par, attr in want.items():
        e = slots.get(par)
        if isinstance(e, ast.Name):
            e = D.single_assign(e.id) or e
        ok = isinstance(e, ast.Attribute) and e.attr == attr and ast.unparse(e.value) == k.params[0]
        R.check(ok, "SLOT", k.site, f"{par} <- {ast.unparse(e) if e is not None else None}",
                f"back-end parameter `{par}` must receive `{k.params[0]}.{attr}`", where=k.where(gcalls[0]), expected=f"{k.params[0]}.{attr}",
                found=ast.unparse(e) if e is not None else None)
    R.check(ast.unparse(slots.get("coords")) == "points" and ast.unparse(slots.get("orders")) == "orders", "SLOT", k.site, "coords, orders",
            "points/orders are not forwarded to the back-end", where=k.where(gcalls[0]))
    # Eval (function values) = general back-end at order zero
    ev = repo.func("gbasis.evals.eval.Eval.construct_array_contraction")
    R.note_function(ev.qualname)
    ec = calls_in(ev.node, general.name)
    if len(ec) != 1:
        raise AnalysisError("SLOT", "Eval.construct_array_contraction does not call the general back-end exactly once", ev.where())
    eslots = bound(general, ec[0])
    ED = Defs(ev.node)
    o = eslots.get("orders")
    if isinstance(o, ast.Name):
        o = ED.single_assign(o.id) or o
    ok = o is not None and ast.unparse(o) in ("np.zeros(3)", "np.zeros(3, dtype=int)", "np.array([0, 0, 0])", "np.zeros((3,))", "np.zeros(3, int)")
    R.check(ok, "SLOT", ev.site, "orders = zeros(3)", "function values must be the order-(0,0,0) case of the general back-end",
            where=ev.where(), expected="np.zeros(3)", found=ast.unparse(o) if o is not None else None)
    c0 = eslots.get("coords")
    R.check(c0 is not None and ast.unparse(c0) == "points", "SLOT", ev.site, "coords = points", "the points are not forwarded to the back-end", where=ev.where())
    for par, attr in want.items():
        e = eslots.get(par)
        if isinstance(e, ast.Name):
            e = ED.single_assign(e.id) or e
        ok = isinstance(e, ast.Attribute) and e.attr == attr and ast.unparse(e.value) == ev.params[0]
        R.check(ok, "SLOT", ev.site, f"{par} <- {ast.unparse(e) if e is not None else None}",
                f"back-end parameter `{par}` must receive `{ev.params[0]}.{attr}`", where=ev.where(), expected=f"{ev.params[0]}.{attr}")


def run(repo, R):
    from .momfam import compose_state_rules as _csr
    _csr(R, repo, ['gbasis/evals/eval.py', 'gbasis/evals/eval_deriv.py', 'gbasis/evals/_deriv.py', 'gbasis/contractions.py', 'gbasis/spherical.py', 'gbasis/utils.py', 'gbasis/base.py', 'gbasis/base_one.py', 'gbasis/base_two_symm.py', 'gbasis/base_two_asymm.py', 'gbasis/base_four_symm.py'], "the property holds for every call, also after a shell's parameters were changed through its setters")
    R.rule("PITFALL", "no result buffer typed after an input, no real cast of a transformation, no unbuffered accumulation / first-occurrence scatter through np.unique")
    from ..pitfalls import report as _pitfalls
    _pitfalls(repo, R, ['gbasis.evals.eval', 'gbasis.evals.eval_deriv', 'gbasis.evals._deriv'])
    R.rule("INPUTS", "the public wrapper uses its parameters as given: no path replaces one by a filtered/re-ordered/scaled/defaulted copy")
    from ..flow import check_wrapper_inputs
    for _w in ['gbasis.evals.eval.evaluate_basis', 'gbasis.evals.eval_deriv.evaluate_deriv_basis']:
        _wf = repo.func(_w)
        R.note_function(_wf.qualname)
        check_wrapper_inputs(repo, _wf, R)
    R.rule("DIRECT", "direct back-end: per-coordinate factors equal d/dx and d2/dx2 of x^n exp(-a x^2) for SYMBOLIC n (cases from the code's own masks), "
                     "zeroth-order factor, combination and contraction")
    R.rule("DEF", "definedness: in the branch selected for each n no power of the coordinate difference has a possibly negative exponent")
    R.rule("PARTITION", "order classes {<=0, ==1, ==2} are disjoint, gap-free, routed to the matching helper on every truth assignment of the .any() guards")
    R.rule("GUARD-DOMAIN", "the direct back-end is reached only with orders it implements (dominating raising guard derived from its order classes)")
    R.rule("GUARD-EXHAUSTIVE", "the dispatch on deriv_type ends in a raising else")
    R.rule("SIBLING", "both back-ends receive the same arguments")
    R.rule("SLOT", "back-end parameters receive the shell's own attributes of the same role; Eval is order zero")
    R.rule("GENERAL", "general back-end: Leibniz/Hermite sum equals the definition for orders 0..4 x n 0..6 (bounded enumeration of formula parameters)")
    R.rule("DISPATCH", "evaluate_basis / evaluate_deriv_basis forward points, orders, deriv_type identically on the four assembly branches")
    from ..flow import check_default_is
    for q_ in ("gbasis.evals.eval_deriv.evaluate_deriv_basis", "gbasis.evals.eval_deriv.EvalDeriv.construct_array_contraction"):
        check_default_is(repo.func(q_), R, "GUARD-DOMAIN", "deriv_type", "general",
                         "the default back-end must be the one that implements every order (the direct one rejects orders above 2)")
    max_order, masks = run_direct(repo, R)
    run_guards(repo, R, max_order)
    from .c05_general import run_general
    if R.tier == "thorough":
        run_general(repo, R, max_m=6, max_n=8)
    else:
        run_general(repo, R)
    for w in ("gbasis.evals.eval.evaluate_basis", "gbasis.evals.eval_deriv.evaluate_deriv_basis"):
        f = repo.func(w)
        R.note_function(f.qualname)
        check_wrapper_dispatch(repo, f, R, "DISPATCH")
    R.floor("DIRECT", R.rules["DIRECT"][0], 4, "closed-form obligations of the direct back-end")
    R.extra["direct_order_classes"] = {k: list(v) for k, v in masks.items()}
    # the property is stated for Cartesian, spherical and mixed bases and with a transformation: the assembly of this operator's base
    # class (norm once per index, own Cartesian->spherical matrix, segment-major blocks, transformation on every index) is part of it
    from ..report import compose as _compose
    from . import c09 as _c09
    _bases = ('base_one',)
    _compose(R, "C09", _c09.run, repo, keep=lambda fd: any(b_ in (fd.where or "") or b_ in fd.site for b_ in _bases) or "spherical.py" in (fd.where or ""),
             why="results for spherical / mixed / transformed bases are assembled by " + ", ".join(_bases))
    R.assumptions += ["elementwise abstraction of numpy (broadcast adapters dropped); `if mask.any()` guards analysed as taken (a masked store "
                      "with an empty mask is a no-op) - the component array is a full shell",
                      "sympy diff/simplify on x^n exp(-a x^2) with n a non-negative integer symbol",
                      "general back-end: scipy.special.comb/perm/eval_hermite are the binomial, falling factorial and physicists' Hermite polynomial"]
    return ("FORMULA: the direct back-end's hand-expanded first/second derivative factors are extracted as Piecewise expressions in a "
            "symbolic angular exponent n and proven equal to d^k/dx^k x^n exp(-a x^2) for n=0, (n=1,) and symbolic n=N+k, which "
            "together cover every n >= 0; the selected branch never raises the coordinate difference to a negative power (definedness "
            "on centres/planes); the three order classes partition the coordinate axis and are routed to the right helper for every "
            "combination; the general back-end's Leibniz/Hermite term sum equals the same definition for orders 0..4 x n 0..6 "
            "(bounded). FLOW: the direct back-end is dominated by a guard rejecting the orders it does not implement (derived from "
            "its own order classes), the deriv_type dispatch ends in a raising else, both back-ends get the same shell attributes, the "
            "public wrappers forward orders/deriv_type on all branches. Both back-ends matching the definition symbolically is what "
            "'the two back-ends agree' reduces to. Not decided: machine-precision accuracy.")
