"""C18 Basis-set import preserves every shell and leaves its arguments intact.

PARSE rules P1-P8 on regex ASTs / record layouts (DESIGN 2.7) + EFFECTS E1 on the import functions.
"""
import ast
import re
try:
    import re._parser as sre_parse  # python >= 3.11
except ImportError:  # pragma: no cover
    import sre_parse

from ..astutil import Defs, dotted, const_eval, calls_in, enclosing_stmt_chain, walk_no_nested, target_names
from ..effects import Effects
from ..report import AnalysisError
from .c19 import rule_e1, is_public_surface

ANGMOM_TABLE = {"s": 0, "p": 1, "d": 2, "f": 3, "g": 4, "h": 5, "i": 6, "k": 7}
NUMBER_CHARS = set("0123456789.DE+-")


# ------------------------------------------------------------------------------------------ regex helpers
def regex_groups(pat):
    return sre_parse.parse(pat).state.groups - 1


def first_set(pat):
    """(set of possible first characters or None for 'anything', nullable_prefix) of a pattern."""
    p = sre_parse.parse(pat)

    def first_of(seq):
        chars = set()
        for op, av in seq:
            name = str(op)
            if name == "LITERAL":
                chars.add(chr(av))
                return chars, False
            if name in ("MAX_REPEAT", "MIN_REPEAT"):
                lo, _hi, sub = av
                c, n = first_of(sub)
                if c is None:
                    return None, False
                chars |= c
                if lo == 0 or n:
                    continue  # optional: the next item can also start the match
                return chars, False
            if name == "SUBPATTERN":
                c, n = first_of(av[3])
                if c is None:
                    return None, False
                chars |= c
                if n:
                    continue
                return chars, False
            if name == "AT":
                continue
            if name == "BRANCH":
                anyn = False
                for alt in av[1]:
                    c, n = first_of(alt)
                    if c is None:
                        return None, False
                    chars |= c
                    anyn |= n
                if anyn:
                    continue
                return chars, False
            chars.add("<class>")  # IN, ANY, CATEGORY ...: some other character; not needed precisely
            return chars, False
        return chars, True

    return first_of(list(p))


def char_classes(pat):
    """All character classes (as sets of literal characters; ranges expanded) in the pattern."""
    out = []

    def rec(seq):
        for op, av in seq:
            name = str(op)
            if name == "IN":
                s = set()
                for o2, a2 in av:
                    n2 = str(o2)
                    if n2 == "LITERAL":
                        s.add(chr(a2))
                    elif n2 == "RANGE":
                        s |= {chr(c) for c in range(a2[0], a2[1] + 1)}
                    elif n2 == "CATEGORY":
                        s.add(str(a2))
                    elif n2 == "NEGATE":
                        s.add("^")
                out.append(s)
            elif name in ("MAX_REPEAT", "MIN_REPEAT"):
                rec(av[2])
            elif name == "SUBPATTERN":
                rec(av[3])
            elif name == "BRANCH":
                for alt in av[1]:
                    rec(alt)
    rec(list(sre_parse.parse(pat)))
    return out


_CONST_SCOPE = []


def const_str(node):
    if isinstance(node, ast.Constant) and isinstance(node.value, str):
        return node.value
    if isinstance(node, ast.Name) and _CONST_SCOPE:
        # a name assigned exactly once in the function (or at module level) to a string literal
        fn, mod = _CONST_SCOPE[-1]
        defs = [st for st in ast.walk(fn) if isinstance(st, ast.Assign) and any(isinstance(t, ast.Name) and t.id == node.id for t in st.targets)]
        stores = [n for n in ast.walk(fn) if isinstance(n, ast.Name) and n.id == node.id and isinstance(n.ctx, ast.Store)]
        if len(defs) == 1 and len(stores) == 1 and isinstance(defs[0].value, ast.Constant) and isinstance(defs[0].value.value, str):
            return defs[0].value.value
        if not stores and mod is not None:
            g = mod.globals.get(node.id)
            if isinstance(g, ast.Constant) and isinstance(g.value, str):
                return g.value
    return None


# ------------------------------------------------------------------------------------------ split analysis
class SplitUse:
    """One `X = re.split(<const pattern with groups>, subject)` and everything derived from X by slicing."""

    def __init__(self, f, call, name):
        self.f = f
        self.call = call
        self.name = name
        self.pattern = const_str(call.args[0])
        self.subject = call.args[1]
        self.groups = regex_groups(self.pattern)
        self.consumers = []  # (var name, absolute start, step, node)
        self.drops = []  # (stmt, conditional?)


def analyse_splits(f, R):
    fn = f.node
    _CONST_SCOPE[:] = [(fn, f.module)]
    out = []
    for st in walk_no_nested(fn):
        if isinstance(st, ast.Assign) and isinstance(st.value, ast.Call) and dotted(st.value.func) == "re.split" \
                and len(st.targets) == 1 and isinstance(st.targets[0], ast.Name) and len(st.value.args) >= 2:
            pat = const_str(st.value.args[0])
            if pat is None:
                raise AnalysisError("P1", "re.split with a non-constant pattern", f.where(st))
            if regex_groups(pat) == 0:
                continue
            out.append(SplitUse(f, st.value, st.targets[0].id))
    out.sort(key=lambda su: su.call.lineno)
    for su in out:
        # follow: names holding the list at a known offset
        offs = {su.name: 0}
        # statements in source order after the split
        stmts = [n for n in walk_no_nested(fn) if isinstance(n, ast.Assign) and n.lineno > su.call.lineno]
        stmts.sort(key=lambda n: n.lineno)
        for st in stmts:
            v = st.value
            if isinstance(v, ast.Call) and dotted(v.func) == "re.split" and isinstance(st.targets[0], ast.Name) \
                    and st.targets[0].id in offs and v is not su.call:
                # the name is rebound by another split (same variable reused in a loop): stop following it
                del offs[st.targets[0].id]
                continue
            if isinstance(v, ast.Subscript) and isinstance(v.value, ast.Name) and v.value.id in offs and isinstance(v.slice, ast.Slice):
                sl = v.slice
                try:
                    lo = const_eval(sl.lower) if sl.lower is not None else 0
                    step = const_eval(sl.step) if sl.step is not None else 1
                    hi = const_eval(sl.upper) if sl.upper is not None else None
                except ValueError:
                    raise AnalysisError("P1", "non-constant slice of a re.split result", f.where(st))
                base = offs[v.value.id]
                tgt = st.targets[0].id if isinstance(st.targets[0], ast.Name) else None
                if step == 1 and hi is None:
                    chain = enclosing_stmt_chain(fn, st)
                    cond = any(isinstance(c, (ast.If, ast.Try, ast.While)) for c in chain[:-1])
                    su.drops.append((st, cond, lo))
                    if tgt:
                        if cond and tgt == v.value.id:
                            offs[tgt] = None  # offset unknown afterwards
                        else:
                            offs[tgt] = None if base is None else base + lo
                elif hi is None:
                    su.consumers.append((tgt, None if base is None else base + lo, step, st))
                else:
                    raise AnalysisError("P1", "bounded slice of a re.split result", f.where(st))
    return out


def rule_p1_p2(f, R, expect_splits):
    """P1 stride = groups+1 with residues {0..g} once each from the first match; P2 the leading segment is
    dropped unconditionally and the pattern can match at offset 0 of its subject."""
    _CONST_SCOPE[:] = [(f.node, f.module)]
    splits = analyse_splits(f, R)
    if len(splits) < expect_splits:
        raise AnalysisError("P1", f"expected {expect_splits} re.split call(s) with capture groups in {f.qualname}, found {len(splits)}", f.where())
    for su in splits:
        g = su.groups
        site = f.site
        ctext = f"re.split({su.pattern!r})"
        # --- P2 drop
        implicit = bool(su.consumers) and all(c[1] is not None and c[1] >= 1 for c in su.consumers)
        if not su.drops and implicit:
            R.ok("P2", site, ctext + " drop", detail="item 0 (text before the first match) is skipped by the strided slices themselves")
        elif not su.drops:
            R.fail("P2", site, ctext, f"the text before the first match of {su.pattern!r} is never dropped from the split result",
                   where=f.where(su.call), expected="result[1:] taken unconditionally", found="no drop")
        for st, cond, lo in su.drops:
            R.check(not cond and lo == 1, "P2", site, ctext + " drop",
                    f"the segment before the first element is dropped {'only conditionally' if cond else f'with offset {lo}'}: "
                    f"`{ast.unparse(st)}` - with zero (or one) lines before the first element the first record is lost or every field shifts",
                    where=f.where(st), expected="unconditional result[1:]", found=ast.unparse(st))
        # --- P2 match at offset 0
        chars, nullable = first_set(su.pattern)
        subj = su.subject
        lead = None
        if isinstance(subj, ast.BinOp) and isinstance(subj.op, ast.Add):
            lead = const_str(subj.left)
        if chars is None:
            raise AnalysisError("P2", "cannot compute the FIRST set of the split pattern", f.where(su.call))
        can0 = nullable or ("\n" not in chars) or (chars != {"\n"}) or (lead is not None and lead.endswith("\n"))
        # FIRST == {"\n"} means every match must start at a newline: the subject has to supply one at offset 0
        if chars == {"\n"} and not nullable:
            can0 = lead is not None and lead.endswith("\n")
        R.check(can0, "P2", site, ctext + " first-match",
                f"pattern {su.pattern!r} can only match at a newline, but its subject `{ast.unparse(subj)[:60]}` does not start with one: "
                f"an element on the very first line is not recognised",
                where=f.where(su.call), expected='subject of the form "\\n" + text (or a pattern that admits start-of-text)',
                found=ast.unparse(subj)[:80], detail={"FIRST": sorted(chars), "leading_literal": lead})
        # --- P1 stride/residues
        if not su.consumers:
            raise AnalysisError("P1", "no strided consumer of the re.split result found", f.where(su.call))
        starts = []
        for tgt, start, step, st in su.consumers:
            R.check(step == g + 1, "P1", site, f"{ctext} stride of `{ast.unparse(st)}`",
                    f"re.split with {g} capture group(s) yields records of {g + 1} items, consumed with stride {step}",
                    where=f.where(st), expected=g + 1, found=step)
            if start is None:
                R.fail("P1", site, f"{ctext} start of `{ast.unparse(st)}`",
                       "the offset of the split result is not fixed (conditional drop), so record fields cannot be aligned",
                       where=f.where(st))
            else:
                starts.append(start - 1)
        if all(s is not None for s in starts):
            R.check(sorted(starts) == list(range(g + 1)), "P1", site, ctext + " residues",
                    f"the strided slices must start at offsets 1..{g + 1} of the split result (each record field exactly once)",
                    where=f.where(su.call), expected=list(range(1, g + 2)), found=sorted(s + 1 for s in starts),
                    detail={"groups": g, "consumers": [ast.unparse(c[3]) for c in su.consumers]})
    return splits


def rule_roles(f, R, splits, letters_residue_by_split, body_kind):
    """The record fields are used in their format roles: the letters field goes through the angular-momentum
    table, the body field is split into rows (or into shells), field 0 of the element split keys the result."""
    _CONST_SCOPE[:] = [(f.node, f.module)]
    fn = f.node
    D = Defs(fn)
    for su, letters_res in zip(splits, letters_residue_by_split):
        # residue -> consumer variable
        res2var = {}
        for tgt, start, step, st in su.consumers:
            if start is not None:
                res2var[(start - 1) % (su.groups + 1)] = tgt
        if set(res2var) != set(range(su.groups + 1)):
            continue  # field alignment already reported by P1/P2
        # loop variables bound from zip(...) of the consumer variables
        loopvar = {}
        for n in walk_no_nested(fn):
            if isinstance(n, ast.For) and isinstance(n.iter, ast.Call) and dotted(n.iter.func) == "zip":
                args = [a.id if isinstance(a, ast.Name) else None for a in n.iter.args]
                if set(a for a in args if a) >= set(res2var.values()) and isinstance(n.target, ast.Tuple):
                    for a, t in zip(args, n.target.elts):
                        if isinstance(t, ast.Name):
                            loopvar[a] = t.id
        if len(loopvar) < len(res2var):
            raise AnalysisError("P5", "loop over zip(...) of the record fields not found", f.where(su.call))
        # letters -> dict lookup
        if letters_res is not None:
            lv = loopvar[res2var[letters_res]]
            ok = False
            for n in ast.walk(fn):
                if isinstance(n, ast.Subscript) and isinstance(n.value, ast.Name) and n.value.id == "dict_angmom" or \
                        (isinstance(n, ast.Subscript) and _is_angmom_table(D, n.value)):
                    names = D.slice_names(n.slice)
                    if lv in names:
                        ok = True
            R.check(ok, "P5", f.site, f"{su.pattern!r} letters field -> angular-momentum table",
                    f"record field {letters_res + 1} (the shell letters) bound to `{lv}` never reaches the angular-momentum table lookup",
                    where=f.where(su.call), expected=f"table[...{lv}...]")
        body_var = loopvar[res2var[su.groups]]
        ok = False
        for n in ast.walk(fn):
            if isinstance(n, ast.Call) and isinstance(n.func, ast.Attribute) and n.func.attr in ("split", "splitlines") and \
                    isinstance(n.func.value, ast.Name) and n.func.value.id == body_var:
                ok = True
            if isinstance(n, ast.Call) and dotted(n.func) == "re.split" and len(n.args) > 1 and \
                    isinstance(n.args[1], ast.Name) and n.args[1].id == body_var:
                ok = True
        R.check(ok, "P5", f.site, f"{su.pattern!r} body field -> rows",
                f"the text after each header (bound to `{body_var}`) is never split into rows/shells",
                where=f.where(su.call))
    return True


def _is_angmom_table(D, node):
    if not isinstance(node, ast.Name):
        return False
    v = D.single_assign(node.id)
    if v is None:
        return False
    try:
        val = const_eval(v)
    except ValueError:
        return False
    return isinstance(val, dict) and set(val) >= {"s", "p", "d"}


def module_const_env(module):
    """module-level names that fold to constants, in definition order (a table may be built from another constant)"""
    env = {}
    for st in module.tree.body:
        if isinstance(st, ast.Assign) and len(st.targets) == 1 and isinstance(st.targets[0], ast.Name):
            try:
                env[st.targets[0].id] = const_eval(st.value, env)
            except (ValueError, TypeError, KeyError, IndexError):
                pass
    return env


def rule_p4(f, R):
    """The angular-momentum table maps s p d f g h i k to 0..7 and is consulted through .lower()."""
    _CONST_SCOPE[:] = [(f.node, f.module)]
    fn = f.node
    D = Defs(fn)
    found = 0
    menv = module_const_env(f.module)
    for name in sorted(D.defs):
        v = D.single_assign(name)
        if v is None:
            continue
        try:
            val = const_eval(v, menv)
        except ValueError:
            # a table built from non-literal pieces: only complain if it is used as the letter table
            continue
        if isinstance(val, dict) and val and all(isinstance(k, str) and len(k) == 1 for k in val) and set(val) & {"s", "p", "d"}:
            found += 1
            got = {k.lower(): v2 for k, v2 in val.items()}
            R.check(got == ANGMOM_TABLE, "P4", f.site, f"{name} (angular-momentum letters)",
                    f"the shell-letter table of {f.name} differs from s,p,d,f,g,h,i,k -> 0..7: "
                    f"{ {k: got.get(k) for k in ANGMOM_TABLE if got.get(k) != ANGMOM_TABLE[k]} } "
                    f"extra={sorted(set(got) - set(ANGMOM_TABLE))}",
                    where=f"{f.module.relpath}:{v.lineno}", expected=ANGMOM_TABLE, found=got)
            # lookups go through .lower()
            for n in ast.walk(fn):
                if isinstance(n, ast.Subscript) and isinstance(n.value, ast.Name) and n.value.id == name and isinstance(n.ctx, ast.Load):
                    key = n.slice
                    low = isinstance(key, ast.Call) and isinstance(key.func, ast.Attribute) and key.func.attr == "lower"
                    upper_keys = any(k != k.lower() for k in val)
                    R.check(low and not upper_keys, "P4", f.site, f"{name}[{ast.unparse(key)}]",
                            "shell letters are looked up without case folding (files write S/SP/D...)",
                            where=f.where(n), expected=f"{name}[x.lower()]", found=ast.unparse(n))
    if not found:
        raise AnalysisError("P4", f"no constant shell-letter table found in {f.qualname}", f.where())
    return found


_REPO = []


def with_helpers(f, depth=2):
    """f and the private functions of the same module it calls (row parsing may live in a helper)"""
    out = [f]
    if not _REPO:
        return out
    repo = _REPO[0]
    seen = {f}
    work = [(f, 0)]
    while work:
        g, d = work.pop()
        if d >= depth:
            continue
        for n in ast.walk(g.node):
            if isinstance(n, ast.Call) and isinstance(n.func, ast.Name) and n.func.id.startswith("_"):
                h = repo.resolve_name(g.module, n.func.id, g)
                if hasattr(h, "node") and h.module is f.module and h not in seen:
                    seen.add(h)
                    out.append(h)
                    work.append((h, d + 1))
    return out


def row_patterns(f):
    out = []
    for g in with_helpers(f):
        _CONST_SCOPE[:] = [(g.node, g.module)]
        for c in calls_in(g.node, "re.search") + calls_in(g.node, "re.match") + calls_in(g.node, "re.fullmatch"):
            pat = const_str(c.args[0]) if c.args else None
            if pat is None:
                raise AnalysisError("P3", "row pattern is not a constant", g.where(c))
            out.append((c, pat, g))
    _CONST_SCOPE[:] = [(f.node, f.module)]
    return out


def rule_p3(f, R):
    """Number tokens: the row pattern's token class contains 0-9 . D E + -, it has two capture groups
    (exponent, coefficients) consumed in that order, and every string reaching float() has been through
    .lower().replace('d','e')."""
    rows = row_patterns(f)
    if not rows:
        raise AnalysisError("P3", f"no row pattern (re.search) in {f.qualname}", f.where())
    for c, pat, _g in rows:
        classes = char_classes(pat)
        toks = [s for s in classes if s & set("0123456789")]
        if not toks:
            raise AnalysisError("P3", "row pattern without a numeric character class", f.where(c))
        for s in toks:
            miss = NUMBER_CHARS - s
            R.check(not miss, "P3", f.site, f"token class of {pat[:40]!r}",
                    f"number tokens may not contain {sorted(miss)}: such rows (e.g. Fortran D exponents, signed mantissas) are skipped silently",
                    where=f.where(c), expected="class >= [0-9.DE+-]", found="".join(sorted(s)))
        R.check(regex_groups(pat) == 2, "P3", f.site, f"groups of {pat[:40]!r}",
                "the row pattern must capture (exponent, coefficient list)", where=f.where(c), expected=2, found=regex_groups(pat))
    n_float = 0
    for c in [x for g in with_helpers(f) for x in calls_in(g.node, "float")]:
        n_float += 1
        a = c.args[0] if c.args else None
        ok = (isinstance(a, ast.Call) and isinstance(a.func, ast.Attribute) and a.func.attr == "replace"
              and len(a.args) == 2 and const_str(a.args[0]) in ("d", "D") and const_str(a.args[1]) in ("e", "E")
              and isinstance(a.func.value, ast.Call) and isinstance(a.func.value.func, ast.Attribute)
              and a.func.value.func.attr in ("lower", "upper")
              and (const_str(a.args[0]) == "d") == (a.func.value.func.attr == "lower"))
        R.check(ok, "P3", f.site, ast.unparse(c),
                "a number string reaches float() without Fortran-D normalisation (.lower().replace('d', 'e')): 1.0D+00 raises ValueError",
                where=f.where(c), expected="float(x.lower().replace('d', 'e'))", found=ast.unparse(c))
    if n_float < 2:
        raise AnalysisError("P3", f"expected >= 2 float() conversions in {f.qualname}, found {n_float}", f.where())
    return [p for _c, p, _g in rows]


def normalise_parser(f):
    """Module-level constants used by a parser are brought into the function: `G = <literal>` becomes a local definition at the top,
    and methods of a pre-compiled pattern `G = re.compile(r"...")` are rewritten to the function form (`G.split(s)` ->
    `re.split(r"...", s)`), so that the rules see one idiom."""
    if getattr(f, "_c18_normalised", False):
        return
    f._c18_normalised = True
    mod = f.module
    fn = f.node
    local_stores = {n.id for n in ast.walk(fn) if isinstance(n, ast.Name) and isinstance(n.ctx, ast.Store)} | set(f.params)
    used = {n.id for n in ast.walk(fn) if isinstance(n, ast.Name) and isinstance(n.ctx, ast.Load)} - local_stores
    patterns = {}
    consts = {}
    for g in sorted(used):
        v = mod.globals.get(g)
        if v is None:
            continue
        if isinstance(v, ast.Call) and ast.unparse(v.func) == "re.compile" and v.args and isinstance(v.args[0], ast.Constant) and isinstance(v.args[0].value, str) \
                and len(v.args) == 1 and not v.keywords:
            patterns[g] = v.args[0]
        elif isinstance(v, (ast.Dict, ast.Constant, ast.Tuple, ast.List)) or (isinstance(v, ast.DictComp)):
            consts[g] = v

    class Rewrite(ast.NodeTransformer):
        def visit_Call(self, node):
            self.generic_visit(node)
            if isinstance(node.func, ast.Attribute) and isinstance(node.func.value, ast.Name) and node.func.value.id in patterns \
                    and node.func.attr in ("split", "search", "match", "fullmatch", "findall", "sub"):
                new = ast.Call(func=ast.Attribute(value=ast.Name(id="re", ctx=ast.Load()), attr=node.func.attr, ctx=ast.Load()),
                               args=[patterns[node.func.value.id]] + list(node.args), keywords=node.keywords)
                return ast.copy_location(new, node)
            return node
    Rewrite().visit(fn)
    import copy
    # `records = zip(...)` / `enumerate(...)` bound once and only iterated by one `for`: the loop iterates the call itself
    assigns = {}
    for st in ast.walk(fn):
        if isinstance(st, ast.Assign) and len(st.targets) == 1 and isinstance(st.targets[0], ast.Name):
            assigns.setdefault(st.targets[0].id, []).append(st)
    loads = {}
    for n in ast.walk(fn):
        if isinstance(n, ast.Name) and isinstance(n.ctx, ast.Load):
            loads.setdefault(n.id, []).append(n)
    for st in ast.walk(fn):
        if isinstance(st, ast.For) and isinstance(st.iter, ast.Name) and len(assigns.get(st.iter.id, [])) == 1 and len(loads.get(st.iter.id, [])) == 1:
            v = assigns[st.iter.id][0].value
            if isinstance(v, ast.Call) and ast.unparse(v.func) in ("zip", "enumerate"):
                st.iter = copy.deepcopy(v)
    # `for a, b in zip(data[0::2], data[1::2])`: the strided slices written inline are named first (`_zs0 = data[0::2]`), the idiom
    # the rules read
    counter = [0]

    def hoist(body):
        k = 0
        while k < len(body):
            st = body[k]
            for fld in ("body", "orelse", "finalbody"):
                sub = getattr(st, fld, None)
                if isinstance(sub, list) and sub and isinstance(sub[0], ast.stmt):
                    hoist(sub)
            for h in getattr(st, "handlers", ()):
                hoist(h.body)
            if isinstance(st, ast.For) and isinstance(st.iter, ast.Call) and ast.unparse(st.iter.func) == "zip" and not st.iter.keywords:
                new = []
                for j, a in enumerate(st.iter.args):
                    if isinstance(a, ast.Subscript) and isinstance(a.value, ast.Name) and isinstance(a.slice, ast.Slice):
                        nm = f"_zs{counter[0]}"
                        counter[0] += 1
                        asg = ast.Assign(targets=[ast.Name(id=nm, ctx=ast.Store())], value=a)
                        ast.copy_location(asg, a)
                        ast.copy_location(asg.targets[0], a)
                        new.append(asg)
                        st.iter.args[j] = ast.copy_location(ast.Name(id=nm, ctx=ast.Load()), a)
                body[k:k] = new
                k += len(new)
            k += 1
    hoist(fn.body)
    pre = []
    for g, v in consts.items():
        a = ast.Assign(targets=[ast.Name(id=g, ctx=ast.Store())], value=copy.deepcopy(v))
        ast.copy_location(a, v)
        pre.append(a)
    # keep a leading docstring first
    k = 1 if fn.body and isinstance(fn.body[0], ast.Expr) and isinstance(fn.body[0].value, ast.Constant) else 0
    fn.body[k:k] = pre
    ast.fix_missing_locations(fn)


def rule_p9(f, R):
    """Row completeness: the row pattern is applied to every line of the record's text - the loop iterates the complete
    `.split("\\n")` / `.splitlines()` of the text (no prefix, stride or count taken from the header), and a line that does
    not match is skipped with `continue` (never ends the loop)."""
    _CONST_SCOPE[:] = [(f.node, f.module)]
    fn = f.node
    D = Defs(fn)
    n = 0
    for c, _pat, g in row_patterns(f):
        fn = g.node
        chain = enclosing_stmt_chain(fn, c)
        loops = [st for st in chain if isinstance(st, ast.For)]
        if not loops:
            raise AnalysisError("P9", "row pattern is not applied inside a loop over lines", g.where(c))
        loop = loops[-1]
        if not (isinstance(loop.target, ast.Name) and len(c.args) >= 2 and ast.unparse(c.args[1]) == loop.target.id):
            raise AnalysisError("P9", "row loop idiom not recognised (pattern not applied to the loop variable)", g.where(c))
        its = [loop.iter]
        if g is not f and isinstance(loop.iter, ast.Name) and loop.iter.id in g.params and not [
                n2 for n2 in ast.walk(fn) if isinstance(n2, ast.Name) and n2.id == loop.iter.id and isinstance(n2.ctx, ast.Store)]:
            # the helper iterates its parameter: what the parser hands over at each call site is what is examined
            k = g.params.index(loop.iter.id)
            sites = [n2 for n2 in ast.walk(f.node) if isinstance(n2, ast.Call) and isinstance(n2.func, ast.Name) and n2.func.id == g.name]
            its = []
            for sc_ in sites:
                a = sc_.args[k] if len(sc_.args) > k else next((kw.value for kw in sc_.keywords if kw.arg == loop.iter.id), None)
                if a is None:
                    raise AnalysisError("P9", f"call of {g.name} without its lines argument", f.where(sc_))
                its.append(a)
            fn = f.node
            loop_line = min(sc_.lineno for sc_ in sites) if sites else loop.lineno
        for it in its:
            n += _p9_one(R, f, g, fn, loop, it)
    return n


def _p9_one(R, f, g, fn, loop, it):
    if True:
        seen = []
        limit = loop.lineno if fn is g.node else getattr(it, "lineno", 10 ** 9) + 1
        while isinstance(it, ast.Name):
            # resolve through rebindings `x = x.split(...)` / `lines = text.split(...)`: the binding that reaches the loop
            cands = [st for st in ast.walk(fn) if isinstance(st, ast.Assign) and len(st.targets) == 1 and isinstance(st.targets[0], ast.Name)
                     and st.targets[0].id == it.id and st.lineno < limit and st not in seen]
            if not cands:
                break
            st = max(cands, key=lambda x: x.lineno)
            seen.append(st)
            it = st.value
        text = ast.unparse(it)
        full = isinstance(it, ast.Call) and isinstance(it.func, ast.Attribute) and (
            (it.func.attr == "split" and len(it.args) == 1 and const_str(it.args[0]) == "\n" and not it.keywords)
            or (it.func.attr == "splitlines" and not it.args))
        partial = isinstance(it, ast.Subscript) or (isinstance(it, ast.Call) and isinstance(it.func, ast.Attribute) and it.func.attr == "split"
                                                    and (len(it.args) > 1 or it.keywords))
        if not full and not partial:
            raise AnalysisError("P9", f"lines of a record come from `{text[:60]}`: idiom not recognised", f.where(loop))
        R.check(full, "P9", f.site, f"row loop over {text[:60]}",
                "the row loop examines only part of the record's lines (a prefix / count / stride): rows beyond it are dropped "
                "silently, e.g. when comment or blank lines sit between the primitives", where=f.where(loop),
                expected="every line of the record text: text.split('\\n')", found=text[:80])
        # non-matching lines are skipped, not terminating
        exits = [x for x in ast.walk(loop) if isinstance(x, (ast.Break, ast.Return))]
        inner_loops = [x for x in ast.walk(loop) if isinstance(x, (ast.For, ast.While)) and x is not loop]
        exits = [x for x in exits if not any(x in ast.walk(il) for il in inner_loops)]
        R.check(not exits, "P9", f.site, "non-matching line skipped with continue",
                "the row loop can end early (break/return): rows after a non-matching line would be lost", where=f.where(exits[0] if exits else loop),
                expected="continue", found=[type(x).__name__ for x in exits])
    return 1


def rule_store(repo, R):
    """The shell object keeps what it is given: for the scalar properties of GeneralizedContractionShell (icenter, angmom) the
    setter is interpreted by case analysis (gbsa/cases.py) on one representative per class of argument and the getter must return
    the stored value - in particular atom index 0 (the first atom) stays 0."""
    from .. import cases
    cls = repo.cls("gbasis.contractions.GeneralizedContractionShell")
    spec = {
        # property -> [(argument, expected)]  expected = ("ok", stored value) | ("raise", exception)
        "icenter": [(None, ("ok", None)), (0, ("ok", 0)), (1, ("ok", 1)), (7, ("ok", 7)), (2.5, ("raise", "TypeError")), ("1", ("raise", "TypeError"))],
        "angmom": [(0, ("ok", 0)), (1, ("ok", 1)), (4, ("ok", 4)), (-1, ("raise", "ValueError")), (1.0, ("raise", "TypeError")), (None, ("raise", "TypeError"))],
    }
    n = 0
    for prop, table in spec.items():
        getter = setter = None
        for node in cls.node.body:
            if isinstance(node, ast.FunctionDef) and node.name == prop:
                decos = [ast.unparse(d) for d in node.decorator_list]
                if "property" in decos:
                    getter = node
                elif f"{prop}.setter" in decos:
                    setter = node
        if getter is None or setter is None:
            raise AnalysisError("STORE", f"property `{prop}` of GeneralizedContractionShell not found (getter and setter)")
        site = f"contractions.GeneralizedContractionShell.{prop}"
        where = f"{cls.module.relpath}:{setter.lineno}"
        for arg, want in table:
            obj = cases.Obj()
            try:
                got = cases.call_method(setter, obj, [arg])
                if got[0] == "ok":
                    got = cases.call_method(getter, obj, [])
            except cases.Unmodelled as ex:
                if "read before it is stored" in str(ex):
                    # the setter returned without storing what the getter reads: the property is lost (AttributeError / stale value)
                    got = ("raise", "AttributeError: " + str(ex))
                else:
                    raise AnalysisError("STORE", f"the `{prop}` setter/getter uses a construct outside the case-analysis fragment: {ex}", where)
            n += 1
            ok = got == want and (got[0] != "ok" or type(got[1]) is type(want[1]))
            R.check(ok, "STORE", site, f"{prop} = {arg!r}",
                    f"assigning {arg!r} to `{prop}` must " + (f"store {want[1]!r}" if want[0] == "ok" else f"raise {want[1]}") +
                    f"; the code " + (f"stores {got[1]!r}" if got[0] == "ok" else f"raises {got[1]}") +
                    (" (the first atom's index 0 is lost)" if prop == "icenter" and arg == 0 and got != want else ""),
                    where=where, expected=str(want), found=str(got))
    # the constructor hands each argument to its own property
    init = cls.lookup("__init__")
    pairs = {}
    for st in init.node.body:
        if isinstance(st, ast.Assign) and len(st.targets) == 1 and isinstance(st.targets[0], ast.Attribute) and ast.unparse(st.targets[0].value) == "self":
            pairs[st.targets[0].attr] = ast.unparse(st.value)
    for prop in ("angmom", "coord", "coeffs", "exps", "coord_type", "icenter"):
        n += 1
        R.check(pairs.get(prop) == prop, "STORE", "contractions.GeneralizedContractionShell.__init__", f"self.{prop} = {pairs.get(prop)}",
                f"the constructor must hand its argument `{prop}` to the property of the same name", where=init.where(), expected=f"self.{prop} = {prop}",
                found=pairs.get(prop))
    return n


def rule_p5_producer(f, R):
    """Producers build (angmom, exps, coeffs) records; column i of the coefficient matrix goes with the i-th letter."""
    _CONST_SCOPE[:] = [(f.node, f.module)]
    fn = f.node
    D = Defs(fn)
    # names bound from `a, b = <match>.groups()`
    exp_names, coeff_names = set(), set()
    for n in walk_no_nested(fn):
        if isinstance(n, ast.Assign) and isinstance(n.value, ast.Call) and isinstance(n.value.func, ast.Attribute) \
                and n.value.func.attr == "groups" and isinstance(n.targets[0], ast.Tuple) and len(n.targets[0].elts) == 2:
            a, b = n.targets[0].elts
            exp_names.add(a.id)
            coeff_names.add(b.id)
    # rows parsed in a private helper: the roles of the helper's returned tuple carry over to the names bound at the call
    for g in with_helpers(f)[1:]:
        gD = Defs(g.node)
        g_exp, g_coef = set(), set()
        for n in walk_no_nested(g.node):
            if isinstance(n, ast.Assign) and isinstance(n.value, ast.Call) and isinstance(n.value.func, ast.Attribute) \
                    and n.value.func.attr == "groups" and isinstance(n.targets[0], ast.Tuple) and len(n.targets[0].elts) == 2:
                g_exp.add(n.targets[0].elts[0].id)
                g_coef.add(n.targets[0].elts[1].id)
        rets = [n for n in walk_no_nested(g.node) if isinstance(n, ast.Return) and isinstance(n.value, ast.Tuple)]
        if not g_exp or len(rets) != 1:
            continue
        kinds = []
        for elt in rets[0].value.elts:
            nm = gD.slice_names(elt)
            kinds.append(("E" if nm & g_exp else "") + ("C" if nm & g_coef else ""))
        for n in walk_no_nested(fn):
            if isinstance(n, ast.Assign) and isinstance(n.value, ast.Call) and isinstance(n.value.func, ast.Name) and n.value.func.id == g.name \
                    and isinstance(n.targets[0], ast.Tuple) and len(n.targets[0].elts) == len(kinds):
                for tgt, kd in zip(n.targets[0].elts, kinds):
                    if isinstance(tgt, ast.Name) and kd == "E":
                        exp_names.add(tgt.id)
                    elif isinstance(tgt, ast.Name) and kd == "C":
                        coeff_names.add(tgt.id)
                    elif isinstance(tgt, ast.Name) and kd:
                        exp_names.add(tgt.id)
                        coeff_names.add(tgt.id)  # mixed: will fail the record-order rule
    if not exp_names:
        raise AnalysisError("P5", "unpacking of the row match groups not found", f.where())
    # names bound by unpacking an already stored record `a, e, c = <records>[k]`: they carry the record's positional roles
    rec_roles = {}
    for n in walk_no_nested(fn):
        if isinstance(n, ast.Assign) and len(n.targets) == 1 and isinstance(n.targets[0], ast.Tuple) and len(n.targets[0].elts) == 3 \
                and isinstance(n.value, ast.Subscript) and all(isinstance(t_, ast.Name) for t_ in n.targets[0].elts):
            for t_, role in zip(n.targets[0].elts, "AEC"):
                rec_roles[t_.id] = role

    def roles(expr):
        direct = {x.id for x in ast.walk(expr) if isinstance(x, ast.Name)}
        r = {rec_roles[x] for x in direct if x in rec_roles}
        rest = [x for x in direct if x not in rec_roles]
        names = set()
        for x in rest:
            names |= D.slice_names(ast.Name(id=x, ctx=ast.Load()))
        names -= set(rec_roles)
        if any(_is_angmom_table(D, ast.Name(id=x)) for x in names):
            r.add("A")
        if names & exp_names:
            r.add("E")
        if names & coeff_names:
            r.add("C")
        return r

    n_rec = 0
    for n in ast.walk(fn):
        tup = None
        if isinstance(n, ast.Call) and isinstance(n.func, ast.Attribute) and n.func.attr == "append" and n.args \
                and isinstance(n.args[0], ast.Tuple) and len(n.args[0].elts) == 3:
            tup = n.args[0]
        if isinstance(n, ast.Assign) and isinstance(n.value, ast.Tuple) and len(n.value.elts) == 3 and \
                isinstance(n.targets[0], ast.Subscript):
            tup = n.value
        if tup is None:
            continue
        n_rec += 1
        r0, r1, r2 = (roles(e) for e in tup.elts)
        ok = ("A" in r0 and "E" not in r0 and "C" not in r0) and ("E" in r1 and "C" not in r1) and ("C" in r2 and "E" not in r2)
        R.check(ok, "P5", f.site, ast.unparse(tup),
                "a shell record is not (angular momentum, exponents, coefficients): consumers unpack it in that order",
                where=f.where(tup), expected="(from letter table, from row group 1, from row group 2)",
                found=[sorted(r0), sorted(r1), sorted(r2)])
        # SP / generalized split: the coefficient column index is the enumerate index of the letter loop
        c = tup.elts[2]
        c_nodes = list(ast.walk(c))
        for nm_ in [x for x in ast.walk(c) if isinstance(x, ast.Name)]:
            dv = D.single_assign(nm_.id)
            if dv is not None:
                c_nodes.extend(ast.walk(dv))  # the column may be cut out in a named temporary
        for sub in c_nodes:
            if isinstance(sub, ast.Subscript) and isinstance(sub.slice, ast.Tuple) and len(sub.slice.elts) == 2:
                col = sub.slice.elts[1]
                colnames = {x.id for x in ast.walk(col) if isinstance(x, ast.Name)}
                # find the enumerate loop that binds the angmom element
                a0 = tup.elts[0]
                okc = False
                in_letter_loop = False
                for loop in enclosing_stmt_chain(fn, tup if isinstance(n, ast.Assign) else n):
                    if isinstance(loop, ast.For) and isinstance(loop.iter, ast.Call) and dotted(loop.iter.func) == "enumerate":
                        in_letter_loop = True
                    if isinstance(loop, ast.For) and isinstance(loop.iter, ast.Call) and dotted(loop.iter.func) == "enumerate" \
                            and isinstance(loop.target, ast.Tuple) and len(loop.target.elts) == 2:
                        idx, item = loop.target.elts
                        if isinstance(a0, ast.Name) and isinstance(item, ast.Name) and item.id == a0.id and colnames == {idx.id}:
                            okc = True
                            # i:i+1 or i
                            if isinstance(col, ast.Slice):
                                okc = (ast.unparse(col.lower) == idx.id and ast.unparse(col.upper) in (f"{idx.id} + 1", f"1 + {idx.id}")
                                       and col.step is None)
                            else:
                                okc = ast.unparse(col) == idx.id
                if not in_letter_loop:
                    continue  # a single-letter record: the whole coefficient table belongs to it
                R.check(okc, "P5", f.site, ast.unparse(sub),
                        "the coefficient column stored with a letter is not the column at that letter's position",
                        where=f.where(sub), expected="column index = enumerate index of the letter", found=ast.unparse(col))
    if n_rec < 2:
        raise AnalysisError("P5", f"expected >= 2 record constructions in {f.qualname}, found {n_rec}", f.where())
    return n_rec


def rule_make_contractions(repo, f, R):
    """P5 consumer, P6 order, P7 coordinate-type consumption, P8 protocol."""
    fn = f.node
    D = Defs(fn)
    shell_cls = repo.cls("gbasis.contractions.GeneralizedContractionShell")
    init = shell_cls.lookup("__init__")
    ctor_params = init.params[1:]
    ctor_calls = [c for c in calls_in(fn, "GeneralizedContractionShell")]
    if len(ctor_calls) != 1:
        raise AnalysisError("P5", f"expected one GeneralizedContractionShell(...) call in make_contractions, found {len(ctor_calls)}", f.where())
    call = ctor_calls[0]
    amap = {}
    for p, a in zip(ctor_params, call.args):
        amap[p] = a
    for k in call.keywords:
        if k.arg is None:
            raise AnalysisError("P5", "**kwargs in the shell constructor call", f.where(call))
        amap[k.arg] = k.value
    chain = enclosing_stmt_chain(fn, call)
    loops = [s for s in chain if isinstance(s, ast.For)]
    comp_list = None
    if not loops:
        # `basis = [Shell(...) for <atoms> for <shells>]`: the same two loops, the list is built in iteration order
        comps = [n for n in ast.walk(fn) if isinstance(n, ast.ListComp) and n.elt is call and len(n.generators) == 2
                 and not any(g.ifs for g in n.generators)]
        asg = [st for st in ast.walk(fn) if isinstance(st, ast.Assign) and comps and st.value is comps[0] and len(st.targets) == 1
               and isinstance(st.targets[0], ast.Name)]
        rts = [st for st in ast.walk(fn) if isinstance(st, ast.Return) and comps and st.value is not None and
               (st.value is comps[0] or (isinstance(st.value, ast.Call) and st.value.args and st.value.args[0] is comps[0]))]
        if len(comps) == 1 and (asg or rts):
            g0, g1 = comps[0].generators
            inner_for = ast.For(target=g1.target, iter=g1.iter, body=[ast.Expr(value=call)], orelse=[])
            outer_for = ast.For(target=g0.target, iter=g0.iter, body=[inner_for], orelse=[])
            for node_ in (inner_for, outer_for):
                ast.copy_location(node_, comps[0])
            loops = [outer_for, inner_for]
            comp_list = asg[0].targets[0].id if asg else "<returned comprehension>"
    if len(loops) != 2:
        raise AnalysisError("P6", f"expected the shell constructor inside two nested loops (atoms, shells), found {len(loops)}", f.where(call))
    outer, inner = loops
    params = f.params  # basis_dict, atoms, coords, coord_types
    if len(params) < 4:
        raise AnalysisError("P6", "make_contractions signature changed", f.where())
    p_dict, p_atoms, p_coords, p_ct = params[:4]
    # ---- P6 outer loop: enumerate(zip(atoms, coords))
    it = outer.iter
    ok6 = False
    icenter_var = atom_var = coord_var = None
    if isinstance(it, ast.Call) and dotted(it.func) == "enumerate" and it.args and isinstance(it.args[0], ast.Call) \
            and dotted(it.args[0].func) == "zip" and [ast.unparse(a) for a in it.args[0].args] == [p_atoms, p_coords] \
            and isinstance(outer.target, ast.Tuple) and len(outer.target.elts) == 2 and isinstance(outer.target.elts[1], ast.Tuple):
        icenter_var = ast.unparse(outer.target.elts[0])
        atom_var, coord_var = (ast.unparse(x) for x in outer.target.elts[1].elts)
        ok6 = len(it.args) == 1 and not it.keywords
    elif isinstance(it, ast.Call) and dotted(it.func) == "zip" and [ast.unparse(a) for a in it.args] == [p_atoms, p_coords] \
            and isinstance(outer.target, ast.Tuple) and len(outer.target.elts) == 2 and all(isinstance(x, ast.Name) for x in outer.target.elts):
        # no enumerate: the atom index must come from a counter that advances once per atom
        atom_var, coord_var = (x.id for x in outer.target.elts)
        ic = amap.get("icenter")
        src = ic
        if isinstance(ic, ast.Name):
            inside = [st for st in ast.walk(outer) if isinstance(st, ast.Assign) and len(st.targets) == 1 and isinstance(st.targets[0], ast.Name)
                      and st.targets[0].id == ic.id]
            if len(inside) == 1:
                src = inside[0].value
        if isinstance(src, ast.Call) and isinstance(src.func, ast.Attribute) and src.func.attr == "index" and len(src.args) == 1 \
                and ast.unparse(src.args[0]) == atom_var:
            R.fail("P6", f.site, "icenter = " + ast.unparse(src), f"the atom index is looked up with `{ast.unparse(src)}`: `index` returns the FIRST atom with "
                   "that symbol, so every shell of a repeated element gets the index of its first occurrence", where=f.where(src),
                   expected=f"enumerate(zip({p_atoms}, {p_coords}))", found=ast.unparse(src))
            icenter_var = ast.unparse(ic) if ic is not None else None
            ok6 = True
        elif isinstance(ic, ast.Name):
            # counter: `k = 0` before the loop and exactly one `k += 1` at the top level of the outer body after the shells of the atom
            before = [st for st in fn.body if isinstance(st, ast.Assign) and len(st.targets) == 1 and isinstance(st.targets[0], ast.Name)
                      and st.targets[0].id == ic.id and isinstance(st.value, ast.Constant) and st.value.value == 0 and st.lineno < outer.lineno]
            incs = [st for st in outer.body if isinstance(st, ast.AugAssign) and isinstance(st.target, ast.Name) and st.target.id == ic.id
                    and isinstance(st.op, ast.Add) and isinstance(st.value, ast.Constant) and st.value.value == 1]
            others = [st for st in ast.walk(outer) if isinstance(st, (ast.Assign, ast.AugAssign)) and ic.id in target_names(st) and st not in incs]
            if len(before) == 1 and len(incs) == 1 and not others and outer.body.index(incs[0]) > max(outer.body.index(x) for x in outer.body if inner in ast.walk(x)):
                icenter_var = ic.id
                ok6 = True
            else:
                raise AnalysisError("P6", "the atom index is neither enumerate(...) nor a counter advanced once per atom", f.where(outer))
        else:
            raise AnalysisError("P6", "unrecognised outer loop idiom", f.where(outer))
    elif isinstance(it, ast.Call) and dotted(it.func) == "zip":
        raise AnalysisError("P6", "unrecognised outer loop idiom", f.where(outer))
    R.check(ok6, "P6", f.site, "for " + ast.unparse(outer.target) + " in " + ast.unparse(it),
            "atoms must be visited in the given order together with their coordinate row and index",
            where=f.where(outer), expected=f"enumerate(zip({p_atoms}, {p_coords}))", found=ast.unparse(it))
    if not ok6:
        return
    # inner loop: for angmom, exps, coeffs in basis_dict[atom]   (optionally wrapped in enumerate)
    in_iter, in_target = inner.iter, inner.target
    if isinstance(in_iter, ast.Call) and dotted(in_iter.func) == "enumerate" and len(in_iter.args) == 1 and not in_iter.keywords \
            and isinstance(in_target, ast.Tuple) and len(in_target.elts) == 2:
        in_iter, in_target = in_iter.args[0], in_target.elts[1]
    okin = isinstance(in_iter, ast.Subscript) and ast.unparse(in_iter.value) == p_dict and ast.unparse(in_iter.slice) == atom_var
    R.check(okin, "P6", f.site, "for ... in " + ast.unparse(inner.iter),
            "the shells of an atom must come from the dictionary entry of that atom, in stored order",
            where=f.where(inner), expected=f"{p_dict}[{atom_var}]", found=ast.unparse(inner.iter))
    if not (isinstance(in_target, ast.Tuple) and len(in_target.elts) == 3):
        raise AnalysisError("P5", "record unpacking in the inner loop not recognised", f.where(inner))
    v_ang, v_exp, v_coef = (ast.unparse(x) for x in in_target.elts)
    want = {"angmom": v_ang, "exps": v_exp, "coeffs": v_coef, "coord": coord_var, "icenter": icenter_var}
    for p, v in want.items():
        got = ast.unparse(amap[p]) if p in amap else None
        R.check(got == v, "P5", f.site, f"GeneralizedContractionShell({p}=...)",
                f"constructor parameter `{p}` receives `{got}`; the record is (angmom, exps, coeffs) and the atom supplies coord/icenter",
                where=f.where(call), expected=v, found=got)
    # appended in loop order to the returned list, no reordering
    app = [c for c in calls_in(fn, attr="append") if any(n is call for n in ast.walk(c))]
    R.check(len(app) == 1 or comp_list is not None, "P6", f.site, "basis.append(shell)", "the shell must be appended to the result list inside the inner loop",
            where=f.where(call))
    if app or comp_list is not None:
        lst = ast.unparse(app[0].func.value) if app else comp_list
        rets = [n for n in walk_no_nested(fn) if isinstance(n, ast.Return) and n.value is not None]
        okr = (all(ast.unparse(r.value) in (lst, f"tuple({lst})", f"list({lst})") for r in rets) and rets) or lst == "<returned comprehension>"
        R.check(okr, "P6", f.site, "return " + (ast.unparse(rets[-1].value) if rets else "?"),
                "the function must return the shells in construction order", where=f.where(rets[-1]) if rets else f.where(),
                expected=f"tuple({lst})")
        for n in ast.walk(fn):
            if isinstance(n, ast.Call) and isinstance(n.func, ast.Attribute) and n.func.attr in ("sort", "reverse", "insert") \
                    and ast.unparse(n.func.value) == lst:
                R.fail("P6", f.site, ast.unparse(n), "the result list is reordered", where=f.where(n))
    # ---- P7: one coordinate type per shell, consumed in construction order, never reset
    ct = amap.get("coord_type")
    if ct is None:
        raise AnalysisError("P7", "coord_type argument of the shell constructor not found", f.where(call))
    rule_p7(f, R, D, ct, outer, inner, p_ct, lst if app else None)
    # ---- P8 protocol of coord_types on the non-string path
    rule_p8(f, R, p_ct)


def rule_p7(f, R, D, ct, outer, inner, p_ct, result_list):
    fn = f.node
    text = ast.unparse(ct)
    site = f.site
    expect = f"next(iter over {p_ct}) created before the atom loop / {p_ct}[running shell count]"

    def before_outer(node):
        return node.lineno < outer.lineno and not any(n is node for n in ast.walk(outer))

    # idiom 1: next(it) with `it = iter(coord_types)` assigned once before the outer loop
    if isinstance(ct, ast.Call) and dotted(ct.func) == "next" and ct.args and isinstance(ct.args[0], ast.Name):
        itname = ct.args[0].id
        defs = [d for d in D.of(itname) if d[0] != "param"]
        iters = [d for d in defs if d[0] == "assign" and isinstance(d[2], ast.Call) and dotted(d[2].func) == "iter" and d[2].args]
        good = False
        where = f.where(ct)
        if len(iters) == 1:
            st = iters[0][1]
            where = f.where(st)
            chain = enclosing_stmt_chain(fn, st)
            in_loop = any(isinstance(c, (ast.For, ast.While)) for c in chain)
            later = [d for d in defs if d is not iters[0] and getattr(d[1], "lineno", 0) > st.lineno]
            good = (p_ct in D.slice_names(iters[0][2].args[0]) | {ast.unparse(iters[0][2].args[0])} and before_outer(st)
                    and not in_loop and not later and not any(isinstance(c, ast.If) for c in chain[:-1]))
        R.check(good, "P7", site, text,
                f"the coordinate type given to each shell must be the next entry of `{p_ct}` in shell order; the iterator "
                f"`{itname}` is not a single iterator over it created before the atom loop",
                where=where, expected=expect, found=text, detail="iterator idiom")
        return
    # idiom 2: coord_types[idx]
    if isinstance(ct, ast.Subscript) and p_ct in D.slice_names(ct.value):
        idx = ct.slice
        idxt = ast.unparse(idx)
        inner_vars = set(target_names(inner.target))
        outer_vars = set(target_names(outer.target))
        names = {n.id for n in ast.walk(idx) if isinstance(n, ast.Name)}
        # len(result list) is the running count
        if result_list and idxt == f"len({result_list})":
            R.ok("P7", site, text, detail="index = number of shells built so far")
            return
        # a counter initialised before the outer loop and incremented exactly once per inner iteration
        if isinstance(idx, ast.Name):
            ds = D.of(idx.id)
            inits = [d for d in ds if d[0] == "assign"]
            augs = [d for d in ds if d[0] == "aug"]
            if len(inits) == 1 and before_outer(inits[0][1]) and len(augs) == 1 and \
                    any(n is augs[0][1] for n in ast.walk(inner)) and isinstance(augs[0][1].op, ast.Add) and \
                    ast.unparse(augs[0][1].value) == "1" and ast.unparse(inits[0][2]) == "0" and \
                    not any(isinstance(s, (ast.If, ast.Try)) for s in enclosing_stmt_chain(inner, augs[0][1])[:-1] if s is not inner):
                R.ok("P7", site, text, detail="running counter")
                return
        if names & (inner_vars | outer_vars) or any(
                d[0] in ("for", "comp") for nme in names for d in D.of(nme)):
            R.fail("P7", site, text,
                   f"the coordinate type of a shell is taken from `{p_ct}` at index `{idxt}`, a loop variable that restarts "
                   f"for every atom / counts atoms: from the second atom on shells get the wrong entry",
                   where=f.where(ct), expected=expect, found=text)
            return
        raise AnalysisError("P7", f"unrecognised index idiom `{text}`", f.where(ct))
    # idiom 3 (the defect repaired by F6): coord_types.pop(0) - right order, but P8/E1 report it
    if isinstance(ct, ast.Call) and isinstance(ct.func, ast.Attribute) and ct.func.attr == "pop" and \
            [ast.unparse(a) for a in ct.args] == ["0"] and p_ct in D.slice_names(ct.func.value):
        R.ok("P7", site, text, detail="pop(0): order right (mutation is reported by P8/E1)")
        return
    if p_ct not in D.slice_names(ct):
        R.fail("P7", site, text, f"the coordinate type given to the shells does not come from `{p_ct}`",
               where=f.where(ct), expected=expect, found=text)
        return
    raise AnalysisError("P7", f"unrecognised coordinate-type consumption idiom `{text}`", f.where(ct))


SEQ_METHODS_OK = {"index", "count", "__getitem__", "__len__", "__iter__", "__contains__"}


def rule_p8(f, R, p_ct):
    """Operations applied to coord_types (documented: str, list or tuple) stay within the Sequence protocol."""
    fn = f.node
    n = 0
    # aliases of the parameter object (plain rebinding `x = coord_types` only)
    names = {p_ct}
    for node in ast.walk(fn):
        if isinstance(node, ast.Attribute) and isinstance(node.value, ast.Name) and node.value.id in names:
            n += 1
            # method call on the sequence
            R.check(node.attr in SEQ_METHODS_OK, "P8", f.site, ast.unparse(node),
                    f"`{ast.unparse(node)}` is not part of the Sequence protocol: a tuple of coordinate types (documented as accepted) "
                    f"fails, and a list is modified for the caller",
                    where=f.where(node), expected="len / iteration / indexing only", found="." + node.attr)
        if isinstance(node, (ast.Assign, ast.AugAssign, ast.Delete)):
            tg = node.targets if not isinstance(node, ast.AugAssign) else [node.target]
            for t in tg:
                if isinstance(t, ast.Subscript) and isinstance(t.value, ast.Name) and t.value.id in names:
                    n += 1
                    R.fail("P8", f.site, ast.unparse(node), "item assignment/deletion on the caller's coord_types",
                           where=f.where(node))
    uses = sum(1 for node in ast.walk(fn) if isinstance(node, ast.Name) and node.id == p_ct and isinstance(node.ctx, ast.Load))
    if uses < 3:
        raise AnalysisError("P8", f"`{p_ct}` is used {uses} time(s) in make_contractions; expected the str/len/consume uses", f.where())
    if n == 0:
        R.ok("P8", f.site, f"{uses} uses of {p_ct}: len / iter / compare only", detail="no attribute or item-store use")


def rule_pyscf(repo, f, R):
    """from_pyscf: row 0 of each shell record -> angmom, column 0 -> exponents, columns 1: -> coefficients,
    one shell per entry in _atom order, coordinate copied per atom."""
    fn = f.node
    D = Defs(fn)
    init = repo.cls("gbasis.contractions.GeneralizedContractionShell").lookup("__init__")
    ctor_params = init.params[1:]
    calls = [c for c in ast.walk(fn) if isinstance(c, ast.Call) and isinstance(c.func, ast.Name) and
             (c.func.id in f.local_classes or c.func.id == "GeneralizedContractionShell")]
    if not calls:
        R.fail("PYSCF", f.site, "shell constructor", "from_pyscf never constructs a shell: the returned basis is empty whatever the molecule holds",
               where=f.where(), expected="one PyscfShell(...) per shell record")
        return
    if len(calls) != 1:
        raise AnalysisError("PYSCF", f"expected one shell constructor call in from_pyscf, found {len(calls)}", f.where())
    call = calls[0]
    amap = dict(zip(ctor_params, call.args))
    amap.update({k.arg: k.value for k in call.keywords})
    chain = [s for s in enclosing_stmt_chain(fn, call) if isinstance(s, ast.For)]
    if len(chain) != 2:
        raise AnalysisError("PYSCF", "expected two nested loops (atoms, shells)", f.where(call))
    outer, inner = chain
    ok = ast.unparse(outer.iter).endswith("._atom") and isinstance(outer.target, ast.Tuple) and len(outer.target.elts) == 2
    R.check(ok, "PYSCF", f.site, "for " + ast.unparse(outer.target) + " in " + ast.unparse(outer.iter),
            "atoms must be visited in mol._atom order as (symbol, coordinate)", where=f.where(outer), expected="for atom, coord in mol._atom")
    if not ok:
        return
    atom_v, coord_v = (ast.unparse(x) for x in outer.target.elts)
    shell_v = ast.unparse(inner.target)
    # inner iterable = mol._basis[atom]
    itx = inner.iter
    src = itx
    if isinstance(itx, ast.Name):
        src = D.single_assign(itx.id) or itx
    okb = isinstance(src, ast.Subscript) and ast.unparse(src.value).endswith("._basis") and ast.unparse(src.slice) == atom_v
    R.check(okb, "PYSCF", f.site, "shell records of " + ast.unparse(src), "shell records must come from mol._basis[atom]",
            where=f.where(inner), expected=f"mol._basis[{atom_v}]", found=ast.unparse(src))

    tuple_defs = {}
    for st_ in ast.walk(fn):
        if isinstance(st_, ast.Assign) and len(st_.targets) == 1 and isinstance(st_.targets[0], ast.Tuple) and isinstance(st_.value, ast.Tuple) \
                and len(st_.targets[0].elts) == len(st_.value.elts):
            for t_, v_ in zip(st_.targets[0].elts, st_.value.elts):
                if isinstance(t_, ast.Name):
                    tuple_defs.setdefault(t_.id, []).append(v_)

    def one_def(name):
        v = D.single_assign(name)
        if v is None and len(tuple_defs.get(name, [])) == 1 and name not in (atom_v, coord_v, shell_v):
            v = tuple_defs[name][0]
        return v

    def resolve(e):
        seen = 0
        while isinstance(e, ast.Name) and seen < 5:
            v = one_def(e.id)
            if v is None:
                break
            e = v
            seen += 1
        return e

    def deep(e, depth=0):
        """names replaced by their (single) definitions throughout the expression"""
        import copy

        class Sub(ast.NodeTransformer):
            def visit_Name(self, n):
                v = one_def(n.id) if isinstance(n.ctx, ast.Load) else None
                if v is not None and depth < 4:
                    return deep(copy.deepcopy(v), depth + 1)
                return n
        return Sub().visit(copy.deepcopy(e)) if e is not None else None

    def strip_array(e):
        e = resolve(e)
        while True:
            if isinstance(e, ast.Call) and dotted(e.func) in ("np.array", "np.asarray", "numpy.array", "np.ascontiguousarray") and e.args:
                e = resolve(e.args[0])
                continue
            if isinstance(e, ast.Call) and isinstance(e.func, ast.Attribute) and e.func.attr == "copy" and not e.args:
                e = resolve(e.func.value)
                continue
            break
        return e

    ang = strip_array(amap.get("angmom"))
    R.check(ast.unparse(ang) == f"{shell_v}[0]", "PYSCF", f.site, "angmom=" + ast.unparse(ang),
            "the angular momentum is the first item of the PySCF shell record", where=f.where(call), expected=f"{shell_v}[0]",
            found=ast.unparse(ang))
    ex = strip_array(amap.get("exps"))
    co = strip_array(amap.get("coeffs"))

    def table_col(e):
        if isinstance(e, ast.Subscript) and isinstance(e.slice, ast.Tuple) and len(e.slice.elts) == 2:
            rows, col = e.slice.elts
            base = deep(strip_array(e.value))
            return ast.unparse(base), ast.unparse(rows), ast.unparse(col)
        return None

    te, tc = table_col(ex), table_col(co)
    R.check(te is not None and te[1:] == (":", "0"), "PYSCF", f.site, "exps=" + ast.unparse(ex),
            "exponents are column 0 of the stacked primitive rows", where=f.where(call), expected="rows[:, 0]", found=ast.unparse(ex))
    R.check(tc is not None and tc[1:] == (":", "1:"), "PYSCF", f.site, "coeffs=" + ast.unparse(co),
            "coefficients are columns 1: of the stacked primitive rows (every contraction column)", where=f.where(call),
            expected="rows[:, 1:]", found=ast.unparse(co))
    if te and tc:
        R.check(te[0] == tc[0] and te[0] in (f"np.vstack({shell_v}[1:])", f"np.array({shell_v}[1:])", f"np.asarray({shell_v}[1:])"),
                "PYSCF", f.site, "rows=" + te[0], "the primitive rows are items 1: of the shell record", where=f.where(call),
                expected=f"np.vstack({shell_v}[1:])", found=te[0])
    cd = strip_array(amap.get("coord"))
    R.check(ast.unparse(cd) == coord_v, "PYSCF", f.site, "coord=" + ast.unparse(cd), "each shell sits at its atom's coordinate",
            where=f.where(call), expected=coord_v, found=ast.unparse(cd))
    app = [c for c in calls_in(fn, attr="append") if any(n is call for n in ast.walk(c))]
    R.check(len(app) == 1, "PYSCF", f.site, "basis.append(shell)", "one shell appended per record, in order", where=f.where(call))
    # coordinate type of every shell: Cartesian iff the molecule says so
    ct = amap.get("coord_type")
    k = 0
    while isinstance(ct, ast.Name) and k < 4:
        ct = D.single_assign(ct.id) or ct
        k += 1
        if not isinstance(ct, ast.Name):
            break
    okct = isinstance(ct, ast.IfExp) and ast.unparse(ct.test) in ("mol.cart", "bool(mol.cart)") and isinstance(ct.body, ast.Constant) \
        and ct.body.value == "cartesian" and isinstance(ct.orelse, ast.Constant) and ct.orelse.value == "spherical"
    if isinstance(ct, ast.IfExp) and ast.unparse(ct.test) in ("not mol.cart",):
        okct = isinstance(ct.body, ast.Constant) and ct.body.value == "spherical" and isinstance(ct.orelse, ast.Constant) and ct.orelse.value == "cartesian"
    R.check(okct, "PYSCF", f.site, "coord_type=" + (ast.unparse(ct)[:60] if ct is not None else "?"),
            "the shells must be Cartesian exactly when `mol.cart` is set (spherical otherwise)", where=f.where(call),
            expected="'cartesian' if mol.cart else 'spherical'", found=ast.unparse(ct)[:80] if ct is not None else None)
    # the argument check must accept a Mole: raise iff not (class name == 'Mole' and has `_basis`)
    guards = [st for st in fn.body if isinstance(st, ast.If) and st.body and isinstance(st.body[-1], ast.Raise) and "__class__" in ast.unparse(st.test)]
    if guards:
        from .. import cases
        g0 = guards[0]

        def outcome(clsname, has_basis):
            mol = cases.Fake("other", **({"_basis": {}} if has_basis else {}))
            mol.attrs["__class__"] = cases.Fake("other", __name__=clsname)
            env = {"mol": mol}
            try:
                cases.run([g0], env)
            except cases.Raised as r:
                return "raise"
            except cases.Unmodelled as ex:
                raise AnalysisError("PYSCF", f"argument check of from_pyscf outside the case-analysis fragment: {ex}", f.where(g0))
            return "pass"
        for clsname, hb, want in (("Mole", True, "pass"), ("Mole", False, "raise"), ("IOData", True, "raise"), ("dict", False, "raise")):
            got = outcome(clsname, hb)
            R.check(got == want, "PYSCF", f.site, f"argument check for a {clsname} {'with' if hb else 'without'} _basis",
                    f"from_pyscf must {'accept' if want == 'pass' else 'reject'} an object of class {clsname} {'with' if hb else 'without'} `_basis`; the check "
                    f"{'raises' if got == 'raise' else 'lets it through'}", where=f.where(g0), expected=want, found=got)
    # pyscf orders p functions x, y, z: the override of the spherical order applies to l = 1 and to nothing else
    for cname, cnode in f.local_classes.items() if isinstance(f.local_classes, dict) else []:
        pass
    for node in ast.walk(fn):
        if isinstance(node, ast.FunctionDef) and node.name == "angmom_components_sph":
            ifs = [st for st in node.body if isinstance(st, ast.If)]
            okp = len(ifs) == 1 and ast.unparse(ifs[0].test) in ("self.angmom == 1", "1 == self.angmom") and len(ifs[0].body) == 1 \
                and isinstance(ifs[0].body[0], ast.Return) and ast.unparse(ifs[0].body[0].value) in ("('c1', 's1', 'c0')", "['c1', 's1', 'c0']")
            rest = [st for st in node.body if isinstance(st, ast.Return)]
            okp = okp and len(rest) == 1 and ast.unparse(rest[0].value).replace(" ", "") in ("super().angmom_components_sph",)
            R.check(okp, "PYSCF", f.site, "p-shell order override", "PySCF lists spherical p functions as x, y, z = (c1, s1, c0) and every other l in the "
                    "default order: the override must apply to l = 1 only and fall back to the base class otherwise", where=f.where(node),
                    expected="if self.angmom == 1: return ('c1', 's1', 'c0'); return super().angmom_components_sph",
                    found=" / ".join(ast.unparse(st)[:60] for st in node.body if not isinstance(st, ast.Expr)))


def run(repo, R):
    from .momfam import compose_state_rules as _csr
    _csr(R, repo, ['gbasis/parsers.py', 'gbasis/wrappers.py'], "the property holds for every call, also after a shell's parameters were changed through its setters")
    R.rule("UNDEF", "every name read in the parsers, make_contractions and from_pyscf is bound on every path that reaches the read")
    from ..pitfalls import report as _pitfalls
    _pitfalls(repo, R, ["gbasis.parsers", "gbasis.wrappers"], rule="UNDEF", kinds=("UNDEF",), only=lambda f_: "from_iodata" not in f_.qualname)
    R.rule("P1", "re.split with g capture groups is consumed with stride g+1, each record field once, from the first match")
    R.rule("P2", "the segment before the first element is dropped unconditionally and the element pattern can match at offset 0")
    R.rule("P3", "number tokens admit 0-9 . D E + -; every float() argument went through .lower().replace('d','e'); one row pattern")
    R.rule("P4", "shell-letter table = s,p,d,f,g,h,i,k -> 0..7 (constant-folded) and looked up case-insensitively")
    R.rule("P5", "record layout (angmom, exps, coeffs) agrees between producers, consumer and constructor parameters; column i <-> letter i")
    R.rule("P6", "shells are built atom-major in the given order with that atom's coordinate row and index")
    R.rule("P7", "each shell receives the next coordinate type in construction order (iterator/running index, never per-atom)")
    R.rule("P9", "every line of a record's text is tried against the row pattern (complete split, non-matching lines skipped with continue)")
    R.rule("STORE", "the shell keeps the atom index / angular momentum it is given (setter by case analysis: None, 0, positive, invalid); __init__ hands each argument to its own property")
    R.rule("P8", "operations on coord_types stay within the Sequence protocol (list or tuple accepted, nothing consumed)")
    R.rule("PYSCF", "from_pyscf unpacks [l, [exp, c1, c2...], ...] records: l, column 0, columns 1:, per atom in _atom order")
    R.rule("E1", "the import functions do not mutate their arguments (EFFECTS)")
    _REPO[:] = [repo]
    for _q in ("gbasis.parsers.parse_nwchem", "gbasis.parsers.parse_gbs"):
        for _g in with_helpers(repo.func(_q)):
            normalise_parser(_g)
    nw = repo.func("gbasis.parsers.parse_nwchem")
    gbs = repo.func("gbasis.parsers.parse_gbs")
    mk = repo.func("gbasis.parsers.make_contractions")
    pyscf = repo.func("gbasis.wrappers.from_pyscf")
    iod = repo.func("gbasis.wrappers.from_iodata")
    for f in (nw, gbs, mk, pyscf, iod):
        R.note_function(f.qualname)
    # canary: the FIRST-set computation and group count on known patterns
    c1, n1 = first_set(r"\n\s*(\w[\w]?)[ ]+(\w+)\s*\n")
    c2, n2 = first_set(r"\n?\s*(\w+)\s+\w+\s+\w+\.\w+\s*\n")
    R.canary("P2", c1 == {"\n"} and not n1 and c2 != {"\n"} and "\n" in c2 and regex_groups(r"(a)(b)c") == 2,
             "FIRST-set of a newline-anchored pattern is {newline}; optional newline is not mandatory")
    R.canary("P4", const_eval(ast.parse('{k: i for i, k in enumerate("spdfghijk")}', mode="eval").body)["k"] == 8,
             "constant folding exposes a table built from a string containing j")
    s_nw = rule_p1_p2(nw, R, 1)
    s_gbs = rule_p1_p2(gbs, R, 2)
    rule_roles(nw, R, s_nw, [1], "rows")
    rule_roles(gbs, R, s_gbs, [None, 0], "rows")
    rule_p4(nw, R)
    rule_p4(gbs, R)
    rp = rule_p3(nw, R) + rule_p3(gbs, R)
    R.check(len(set(rp)) == 1, "P3", "parsers", "row patterns equal",
            "parse_nwchem and parse_gbs use different number-row patterns", expected=rp[0], found=sorted(set(rp)))
    n9 = rule_p9(nw, R) + rule_p9(gbs, R)
    if n9 < 2:
        raise AnalysisError("P9", f"expected a row loop in each parser, found {n9}")
    rule_p5_producer(nw, R)
    rule_p5_producer(gbs, R)
    rule_make_contractions(repo, mk, R)
    rule_store(repo, R)
    rule_pyscf(repo, pyscf, R)
    # E1 restricted to the import functions
    eff = Effects(repo)
    targets = {nw, gbs, mk, pyscf, iod}
    for f in targets:
        s = eff.summ[f]
        bad = [(r, ev) for r, ev in s.mutates.items() if r.startswith("P:")]
        for r, ev in bad:
            R.fail("E1", f.site, ev.text, f"{f.qualname} mutates its argument `{r[2:].split('.')[0]}`: `{ev.text}` at {ev.where}",
                   where=ev.where, expected="arguments left intact")
        if not bad:
            R.ok("E1", f.site, "mutate-set(params)=={}", detail={"params": f.params})
    R.floor("P1", R.rules["P1"][0], 5, "stride obligations over 3 splits")
    R.floor("P3", R.rules["P3"][0], 6, "number-token obligations")
    R.assumptions += [
        "NWChem header line is `<element> <letters>`, Gaussian94 element line `<element> 0` and shell line `<letters> <n> <scale>`",
        "python re semantics: re.split returns text, groups..., text, ...; FIRST sets from re._parser",
        "PySCF internal basis format: [l, [exp, c1, ...], ...] per shell, mol._atom = [(symbol, coord), ...]",
    ]
    return ("PARSE rules on the regex ASTs (re._parser) and record layouts of parse_nwchem / parse_gbs / make_contractions / "
            "from_pyscf, plus EFFECTS E1 on the five import functions. Decided: stride/group agreement, unconditional leading drop "
            "with a pattern that can match at offset 0, Fortran-D normalisation of every float() argument, the constant-folded "
            "shell-letter table, producer/consumer/constructor layout agreement, atom-major order, one coordinate type per shell in "
            "construction order, Sequence-protocol use of coord_types, no argument mutation. Not decided: round-trip of arbitrary "
            "generated files (a statement over all strings matched by the patterns).")
