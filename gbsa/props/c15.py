"""C15 Stress tensor, Ehrenfest force and Ehrenfest Hessian obey their definitions (TERMALG)."""
import ast

import sympy as sp

from ..termalg import (TermInterp, Terms, Table, G, R_of, LAP, ALPHA, BETA, E3, guard_root_findings, vec_add)
from ..report import AnalysisError

MOD = "gbasis.evals.stress_tensor."
CALLEES = {
    "evaluate_deriv_reduced_density_matrix": ("G", 2),
    "evaluate_deriv_density": ("R", 1),
    "evaluate_density_laplacian": ("LAP", 0),
}


class Sites:
    def __init__(self):
        self.calls = {}  # id(call node) -> (node, problems)
        self.funcs = []  # private helpers interpreted in place


def make_handler(f, sites, symmetric=True, extra_forward=(), repo=None):
    """Handler for the density primitives: returns the atom and records forwarding obligations per call site."""
    passthrough = ["one_density_matrix", "basis", "points"]

    def inline_helper(interp, e, d, g):
        """A private helper of the module: interpreted in place.  The pass-through inputs (density matrix, basis, points, transform)
        must reach the helper's parameters of the same name unchanged - a parameter left to its default is a dropped input."""
        a = g.node.args
        if a.vararg or a.kwarg or a.kwonlyargs or a.posonlyargs:
            interp.err(f"helper {d} with */** parameters", e)
        names = [x.arg for x in a.args]
        defaults = dict(zip(names[len(names) - len(a.defaults):], a.defaults))
        bound = {}
        for nm, arg in zip(names, e.args):
            bound[nm] = arg
        if len(e.args) > len(names):
            interp.err(f"too many arguments in the call of {d}", e)
        for k in e.keywords:
            if k.arg is None or k.arg not in names or k.arg in bound:
                interp.err(f"keyword `{k.arg}` in the call of {d}", e)
            bound[k.arg] = k.value
        problems = []
        env2 = {}
        for nm in names:
            must = nm in passthrough or nm == "transform" or nm in extra_forward
            if nm in bound:
                if must:
                    if ast.unparse(bound[nm]) != nm:
                        problems.append(f"`{nm}` of the helper receives `{ast.unparse(bound[nm])[:40]}`")
                    env2[nm] = nm
                else:
                    env2[nm] = interp.expr(bound[nm])
            elif nm in defaults:
                if must:
                    problems.append(f"`{nm}` is not forwarded to the helper ({nm} is left to its default {ast.unparse(defaults[nm])})")
                    env2[nm] = nm
                else:
                    try:
                        env2[nm] = ast.literal_eval(defaults[nm])
                    except Exception:
                        interp.err(f"default of `{nm}` in {d}", e)
            else:
                interp.err(f"the call of {d} misses `{nm}`", e)
        if nm_ := [n_ for n_ in ("alpha", "beta") if n_ in names and n_ not in bound]:
            interp.err(f"{d}: {nm_} left to a default", e)
        sites.calls[id(e)] = (e, problems, d)
        if getattr(interp, "depth", 0) >= 2:
            interp.err("helpers nested too deeply", e)
        sub = TermInterp(g, env2, make_handler(g, sites, symmetric, extra_forward, repo), symmetric=symmetric)
        sub.depth = getattr(interp, "depth", 0) + 1
        sites.funcs.append(g)
        sub.run()
        if len(sub.returns) != 1:
            interp.err(f"the helper {d} does not have exactly one return", e)
        return sub.returns[0][1]

    def handler(interp, e, d):
        short = d.split(".")[-1] if d else None
        if short not in CALLEES and d and "." not in d and d.startswith("_") and repo is not None:
            g = repo.resolve_name(f.module, d, f)
            if hasattr(g, "node") and g.module is f.module:
                return inline_helper(interp, e, d, g)
        if short not in CALLEES:
            return NotImplemented
        kind, nvec = CALLEES[short]
        args = list(e.args)
        vecs = [interp.expr(a) for a in args[:nvec]]
        for v in vecs:
            if not (isinstance(v, tuple) and len(v) == 3 and all(isinstance(x, int) for x in v)):
                interp.err(f"order vector `{v}` is not a constant triple", e)
        rest = [ast.unparse(a) for a in args[nvec:]]
        kws = {k.arg: ast.unparse(k.value) for k in e.keywords}
        problems = []
        if rest != passthrough:
            problems.append(f"positional arguments {rest} instead of {passthrough}")
        want_kw = {"transform": "transform"}
        for k in extra_forward:
            want_kw[k] = k
        for k, v in want_kw.items():
            if kws.get(k) != v:
                problems.append(f"`{k}` is not forwarded ({k}={kws.get(k)})")
        for k in kws:
            if k not in want_kw and k != "deriv_type":
                problems.append(f"unexpected keyword {k}")
        sites.calls[id(e)] = (e, problems, short)
        if kind == "G":
            return G(vecs[0], vecs[1], symmetric)
        if kind == "R":
            return R_of(vecs[0], symmetric)
        return LAP(symmetric)

    return handler


def run_function(repo, name, R, sites, symmetric_flag=False, dm_symmetric=True):
    f = repo.func(MOD + name)
    R.note_function(f.qualname)
    env = {p: p for p in f.params}
    env["alpha"], env["beta"] = ALPHA, BETA
    if "symmetric" in env:
        env["symmetric"] = symmetric_flag
    for need in ("one_density_matrix", "basis", "points", "alpha", "beta", "transform"):
        if need not in f.params:
            raise AnalysisError("TERMALG", f"parameter `{need}` of {name} not found", f.where())
    it = TermInterp(f, env, make_handler(f, sites, dm_symmetric, repo=repo), symmetric=dm_symmetric)
    it.run()
    if len(it.returns) != 1:
        raise AnalysisError("TERMALG", f"{name}: expected one return", f.where())
    return f, it, it.returns[0][1]


def final_element(tab, idx):
    """Value of result[n, idx...] where the array's axes are tab.axes (first must be Pts)."""
    names = tab.axes[1:]
    cell = [None] * len(tab.shape)
    for nm, i in zip(names, idx):
        cell[int(nm[1:])] = i
    return tab.get(tuple(cell))


def run(repo, R):
    from .momfam import compose_state_rules as _csr
    _csr(R, repo, ['gbasis/evals/stress_tensor.py', 'gbasis/evals/density.py', 'gbasis/evals/eval_deriv.py', 'gbasis/evals/_deriv.py', 'gbasis/contractions.py', 'gbasis/spherical.py', 'gbasis/utils.py', 'gbasis/base.py', 'gbasis/base_one.py', 'gbasis/base_two_symm.py', 'gbasis/base_two_asymm.py', 'gbasis/base_four_symm.py'], "the property holds for every call, also after a shell's parameters were changed through its setters")
    R.rule("PITFALL", "no result buffer typed after an input, no real cast of a transformation, no unbuffered accumulation / first-occurrence scatter through np.unique")
    from ..pitfalls import report as _pitfalls
    _pitfalls(repo, R, ['gbasis.evals.stress_tensor'])
    R.rule("SIGMA", "extracted stress tensor == documented -alpha G(e_i,e_j) + (1-alpha) G(e_i+e_j,0) - 1/2 delta_ij beta LAP, and symmetric")
    R.rule("FORCE", "extracted force == - sum_i d_i sigma_ij, derived from the extracted sigma by the Leibniz laws")
    R.rule("HESSIAN", "extracted Hessian H[i][j] == d_j F_i derived from the extracted force; symmetric=True gives (H + H^T)/2")
    R.rule("GUARD-ROOT", "an update skipped when a parameter equals v has a coefficient that vanishes at v")
    R.rule("LAYOUT", "returned arrays are (points, 3[, 3]) with the index axes in the documented order")
    R.rule("FWD", "one_density_matrix, basis, points and transform reach every density primitive")
    sites = Sites()
    zero = (0, 0, 0)
    # ---------------------------------------------------------------- stress tensor
    f, it, ret = run_function(repo, "evaluate_stress_tensor", R, sites)
    guards = list(it.guards)
    if not isinstance(ret, Table) or ret.shape != (3, 3):
        raise AnalysisError("SIGMA", "stress tensor result is not a 3x3 table", f.where())
    R.check(ret.axes[0] == "Pts" and sorted(ret.axes[1:]) == ["I0", "I1"], "LAYOUT", f.site, f"axes {ret.axes}",
            "the stress tensor must be returned as (points, 3, 3)", where=f.where(it.returns[0][0]), expected="(Pts, i, j)", found=ret.axes)
    sigma = {}
    for i in range(3):
        for j in range(3):
            got = final_element(ret, (i, j))
            sigma[(i, j)] = got
            want = G(E3[i], E3[j]) * (-ALPHA) + G(vec_add(E3[i], E3[j]), zero) * (1 - ALPHA)
            if i == j:
                want = want + LAP() * (-sp.Rational(1, 2) * BETA)
            R.check(got.equals(want), "SIGMA", f.site, f"sigma[{i}][{j}]",
                    f"stress tensor component ({i},{j}) differs from the documented expression: {got.diff_str(want)}",
                    where=f.where(), expected=str(want), found=str(got))
    for i in range(3):
        for j in range(i + 1, 3):
            R.check(sigma[(i, j)].equals(sigma[(j, i)]), "SIGMA", f.site, f"sigma[{i}][{j}] == sigma[{j}][{i}]",
                    "the stress tensor is not symmetric", where=f.where())
    # ---------------------------------------------------------------- force
    f2, it2, ret2 = run_function(repo, "evaluate_ehrenfest_force", R, sites)
    guards += it2.guards
    if not isinstance(ret2, Table) or ret2.shape != (3,):
        raise AnalysisError("FORCE", "force result is not a 3-vector table", f2.where())
    R.check(ret2.axes == ["Pts", "I0"], "LAYOUT", f2.site, f"axes {ret2.axes}", "the force must be returned as (points, 3)",
            where=f2.where(it2.returns[0][0]), expected="(Pts, j)", found=ret2.axes)
    force = {}
    sigma_ok = not [x for x in R.findings if x.rule == "SIGMA"]
    for j in range(3):
        got = final_element(ret2, (j,)) if ret2.axes[0] == "Pts" else ret2.get((j,))
        force[j] = got
        want = Terms()
        for i in range(3):
            want = want + sigma[(i, j)].ddk(i) * -1
        R.check(got.equals(want), "FORCE", f2.site, f"F[{j}] == -sum_i d_i sigma[i][{j}]",
                f"force component {j} is not minus the divergence of the stress tensor: {got.diff_str(want)}",
                where=f2.where(), expected=str(want), found=str(got))
    # ---------------------------------------------------------------- hessian
    f3, it3, ret3 = run_function(repo, "evaluate_ehrenfest_hessian", R, sites, symmetric_flag=False, dm_symmetric=True)
    guards += it3.guards
    if not isinstance(ret3, Table) or ret3.shape != (3, 3):
        raise AnalysisError("HESSIAN", "Hessian result is not a 3x3 table", f3.where())
    R.check(ret3.axes == ["Pts", "I0", "I1"], "LAYOUT", f3.site, f"axes {ret3.axes}",
            "the Hessian must be returned as (points, i, j) = d_j F_i", where=f3.where(it3.returns[0][0]), expected="(Pts, I0, I1)", found=ret3.axes)
    hess = {}
    for i in range(3):
        for j in range(3):
            got = ret3.get((i, j))
            hess[(i, j)] = got
            want = force[i].ddk(j)
            R.check(got.equals(want), "HESSIAN", f3.site, f"H[{i}][{j}] == d_{j} F[{i}]",
                    f"Hessian entry ({i},{j}) is not the derivative of force component {i} along {j}: {got.diff_str(want)}",
                    where=f3.where(), expected=str(want), found=str(got))
    f4, it4, ret4 = run_function(repo, "evaluate_ehrenfest_hessian", R, sites, symmetric_flag=True)
    if isinstance(ret4, Table) and ret4.shape == (3, 3):
        for i in range(3):
            for j in range(3):
                want = (hess[(i, j)] + hess[(j, i)]) * sp.Rational(1, 2)
                got = final_element(ret4, (i, j)) if ret4.axes[0] == "Pts" else ret4.get((i, j))
                R.check(got.equals(want), "HESSIAN", f3.site, f"symmetric=True: H[{i}][{j}] == (H+H^T)/2",
                        f"symmetric option: entry ({i},{j}) is not the average with the transpose: {got.diff_str(want)}", where=f3.where())
    # ---------------------------------------------------------------- guard-root
    n_g = 0
    seen = set()
    for g, st, bad in guard_root_findings(guards):
        key = (id(st), str(g.var), str(g.value))
        if key in seen:
            continue
        seen.add(key)
        n_g += 1
        fn_of = [ff for ff in (f, f2, f3) if any(n is st for n in ast.walk(ff.node))]
        ff = fn_of[0] if fn_of else f
        text = ast.unparse(st).split("\n")[0][:70]
        R.check(not bad, "GUARD-ROOT", ff.site, f"if {g.var} != {g.value}: {text}",
                f"the update `{text}...` is skipped when {g.var} == {g.value}, but its coefficient there is "
                f"{[str(b[2]) for b in bad][:3]} (not zero): the result is wrong exactly at the special-cased value",
                where=ff.where(st), expected=f"coefficient with a root at {g.var} = {g.value}", found=[str(b[1]) for b in bad][:3])
    # ---------------------------------------------------------------- forwarding
    for cid, (node, problems, short) in sites.calls.items():
        ff = [x for x in (f, f2, f3) + tuple(sites.funcs) if any(n is node for n in ast.walk(x.node))][0]
        R.check(not problems, "FWD", ff.site, f"{short}(...) at line-site {ast.unparse(node.args[0])[:40] if node.args else ''}#{node.lineno - ff.node.lineno}",
                f"call of {short}: " + "; ".join(problems), where=ff.where(node), expected="(…, one_density_matrix, basis, points, transform=transform)")
    R.floor("GUARD-ROOT", n_g, 8, "guarded updates")
    R.floor("FWD", len(sites.calls), 8, "density-primitive call sites")
    R.extra.update({"guarded_updates": n_g, "call_sites": len(sites.calls), "alpha_beta": "symbolic"})
    # the three quantities are sums of derivatives of the reduced density matrix, of the density and of its Laplacian: they obey their
    # definitions only if those routines do (C06, which in turn needs the orbital derivatives, C05)
    from ..report import compose
    from . import c06
    used = ("evaluate_deriv_reduced_density_matrix", "evaluate_deriv_density", "evaluate_density_laplacian", "evaluate_density_using_evaluated_orbs",
            "_eval_deriv_contractions", "_eval_first_second_order_deriv_contractions", "_first_derivative", "_second_derivative", "evaluate_deriv_basis",
            "construct_array_contraction")
    compose(R, "C06", c06.run, repo, keep=lambda fd: fd.site.split(".")[-1] in used,
            why="stress tensor, Ehrenfest force and Hessian are linear combinations of the density-matrix derivative routines")
    R.assumptions += ["G(p,q) = G(q,p): the density matrix is symmetric (validated by the density routines)",
                      "evaluate_deriv_reduced_density_matrix / evaluate_deriv_density / evaluate_density_laplacian return G, R, LAP (decided under C06)"]
    return ("TERMALG: the three functions of stress_tensor.py are interpreted in the formal term algebra over Q[alpha, beta] generated "
            "by G(p,q) (loops over np.identity(3) unrolled as constant propagation). The extracted sigma equals the documented "
            "expression and is symmetric; the extracted force equals minus the divergence of the extracted sigma and the extracted "
            "Hessian the Jacobian of the extracted force, both derived with d_k G(p,q) = G(p+e_k,q) + G(p,q+e_k) (so the relations do "
            "not depend on a transcription of the expanded formulas); symmetric=True is (H+H^T)/2; each guarded update's coefficient "
            "has a root at the special-cased parameter value (guard-root rule); output axes and argument forwarding at all call "
            "sites. alpha, beta symbolic: holds for all real values including 0, 1/2, 1. Nothing numerical is claimed.")
