"""Shared driver for the kernels built on the 1-D Obara-Saika tables (overlap, moment, kinetic energy, momentum)."""
import ast

import sympy as sp

from ..kernels import (run_public, contraction_normal_form, check_gather_1d, expect_labels, K_labels, MOMENT_INT, DIFF_INT)
from ..stencil import SV, Lab, LabelMismatch, OrderTab, c, Gather
from ..stencil_spec import Finding, check_moment_kernel, check_diff_kernel, Cm
from ..report import AnalysisError



def _lm_text(lm):
    return lm.msg if getattr(lm, "plain", False) else "axes of different provenance are combined: " + lm.msg

def report(R, f_default, findings, site_of=None):
    for fd in findings:
        st = fd.store
        f = st.func if st is not None else f_default
        where = f.where(st.node) if st is not None else f.where()
        R.fail(fd.rule, f.site, fd.construct or (st.text if st is not None else ""), fd.msg, where=where, expected=fd.expected, found=fd.found)


def run_kernel_forks(repo, R, qual, extra_env_factory=None, if_handler_factory=None):
    """Like run_kernel, once per outcome of every undecided scalar branch.  -> f, [(tag, extractor or None)] (one entry on the
    unmodified tree)."""
    from ..kernels import run_public_forks
    f = repo.func(qual)
    R.note_function(f.qualname)
    out = []
    for choices, ex in run_public_forks(repo, f, extra_env_factory, if_handler_factory):
        tag = "".join(f"[{k}={'T' if v else 'F'}]" for k, v in sorted(choices.items()))
        if isinstance(ex, LabelMismatch):
            lm = ex
            g = f
            for cand in repo.all_functions():
                if any(n is lm.node for n in ast.walk(cand.node)):
                    g = cand
            R.fail("AXTYPE-K", g.site, ast.unparse(lm.node)[:100], f"{tag} {_lm_text(lm)}", where=g.where(lm.node),
                   expected="aligned/contracted axes of equal provenance")
            out.append((tag, None))
            continue
        for sub in ex.all_extractors():
            R.note_function(sub.func.qualname)
        out.append((tag, ex))
    return f, out


def run_kernel(repo, R, qual, extra_env=None, if_handler=None):
    f = repo.func(qual)
    R.note_function(f.qualname)
    try:
        ex = run_public(repo, f, extra_env, if_handler)
    except LabelMismatch as lm:
        # find the function the node belongs to
        g = f
        for cand in repo.all_functions():
            if any(n is lm.node for n in ast.walk(cand.node)):
                g = cand
        R.fail("AXTYPE-K", g.site, ast.unparse(lm.node)[:100], f"{_lm_text(lm)}", where=g.where(lm.node),
               expected="aligned/contracted axes of equal provenance")
        return f, None
    for sub in ex.all_extractors():
        R.note_function(sub.func.qualname)
    cover_rule(R, f, ex)
    return f, ex


def cover_rule(R, f, ex, tag=""):
    """COVER: every table entry that reaches the result is computed by some recursion step (gbsa/cover.py)."""
    from .. import cover
    R.rule("COVER", "every entry of a recursion table that reaches the result has been computed: stores, loads and gathers replayed in program order "
                    "on index regions for all small size parameters (a deleted or shortened recursion step leaves zeros behind)")
    thorough = getattr(R, "tier", "quick") == "thorough"
    gaps, info = cover.check(ex, bound=4 if thorough else 3, max_configs=600 if thorough else 200)
    if info.get("events") and not info.get("configs"):
        raise AnalysisError("COVER", "no assignment of the size parameters could be replayed", f.where())
    for g in gaps:
        ev = g.event
        cfg = dict(zip(info["parameters"], g.config))
        if g.kind == "range":
            msg = f"{g.msg}: the index falls outside the table for the sizes {cfg}"
        else:
            msg = (f"{g.msg}; it is read by `{ast.unparse(ev['node'])[:70]}` for the sizes {cfg}: a recursion step is missing or does not reach this "
                   f"entry, so the zero of np.zeros (or an uninitialised value) enters the integrals")
        R.fail("COVER", ev["func"].site, f"{g.table.name}: {ast.unparse(ev['node'])[:70]}", msg, where=ev["func"].where(ev["node"]),
               expected="computed before it is used")
    if not gaps:
        R.ok("COVER", f.site, f"{tag}{info['events']} stores/loads/gathers on {info['tables']} table(s) replayed for {info['configs']} assignments of "
                              f"{info['parameters']} in {info.get('values')}", detail=info.get("recursion_axes"))


def sub_extractor(ex, qual_suffix):
    return [s for s in ex.all_extractors() if s.func.qualname.endswith(qual_suffix)]


def compose_state_rules(R, repo, files, why):
    """Results that depend only on the arguments cannot come from a memo: the caching / persistent-state findings of C19 (E3: module,
    class and closure state, memoising decorators; E1 attribute stores outside setters: per-instance caches) that lie in the modules this
    property's quantities are computed in are findings of this property too (a stale entry is a wrong result after a shell changed)."""
    from . import c19 as _c19
    from ..report import compose as _compose

    def keep(fd):
        where = (fd.where or "").split(":")[0]
        if where not in files:
            return False
        return fd.rule.endswith("/E3") or (fd.rule.endswith("/E1") and "attribute-store" in (fd.message or "")) or fd.rule.endswith("/E5")
    return _compose(R, "C19", _c19.run, repo, keep=keep, why=why)
