"""C14 Electrostatic potential equals nuclear minus electronic Coulomb potential.

FLOW dependency rules D1/D2, FORMULA sign algebra, forwarding (DESIGN 3, C14).
"""
import ast

import sympy as sp

from ..astutil import Defs, dotted, normal_compare, flip, walk_no_nested
from ..flow import path_conditions, stmt_of, classify_coord_pred, cond_text
from ..formula import strip_restrict, Elem, LinearSum
from ..report import AnalysisError

FUNC = "gbasis.evals.electrostatic_potential.electrostatic_potential"


def unwrap_scalar(e):
    """threshold_dist, np.array(threshold_dist), float(threshold_dist) -> Name node or None."""
    while isinstance(e, ast.Call) and dotted(e.func) in ("np.array", "numpy.array", "float", "np.asarray", "np.float64") and len(e.args) == 1:
        e = e.args[0]
    return e if isinstance(e, ast.Name) else None


def run(repo, R):
    from .momfam import compose_state_rules as _csr
    _csr(R, repo, ['gbasis/evals/electrostatic_potential.py', 'gbasis/integrals/point_charge.py', 'gbasis/integrals/_one_elec_int.py', 'gbasis/contractions.py', 'gbasis/spherical.py', 'gbasis/utils.py', 'gbasis/base.py', 'gbasis/base_one.py', 'gbasis/base_two_symm.py', 'gbasis/base_two_asymm.py', 'gbasis/base_four_symm.py'], "the property holds for every call, also after a shell's parameters were changed through its setters")
    R.rule("PITFALL", "no result buffer typed after an input, no real cast of a transformation, no unbuffered accumulation / first-occurrence scatter through np.unique")
    from ..pitfalls import report as _pitfalls
    _pitfalls(repo, R, ['gbasis.evals.electrostatic_potential'])
    R.rule("D1", "a nuclear term is zeroed exactly under `distance < threshold_dist`: the mask depends on points, nuclear_coords, "
                 "threshold_dist and not on nuclear_charges; the distance is sqrt(sum((point - nucleus)^2))")
    R.rule("D2", "the density-matrix size check is made against the transformed orbitals when a transformation is given")
    R.rule("SIGN", "result == + sum_A Z_A/d_A - sum_ab P_ab * I_ab with point_charge_integral(q) == -q*I (sympy normal form)")
    R.rule("FWD", "basis, points and transform reach point_charge_integral unchanged; unit charges are -1 per point")
    f = repo.func(FUNC)
    R.note_function(f.qualname)
    fn = f.node
    params = f.params
    need = ["basis", "one_density_matrix", "points", "nuclear_coords", "nuclear_charges", "transform", "threshold_dist"]
    for p in need:
        if p not in params:
            raise AnalysisError("ANCHOR", f"parameter `{p}` of electrostatic_potential not found", f.where())
    D = Defs(fn)

    # D1 is decided below on the symbolic value of the nuclear term (idiom independent)
    # ------------------------------------------------------------------ SIGN + FWD
    Z, d, P, I, thr_s = sp.symbols("Z d P I threshold_dist", real=True)
    p, n = sp.symbols("p n", real=True)
    dist_sym = sp.sqrt(LinearSum((p - n) ** 2))
    pci_calls = []

    def h_pci(interp, call):
        pci_calls.append(call)
        args = list(call.args)
        if len(args) < 3:
            raise AnalysisError("FWD", "point_charge_integral call without basis/points/charges", f.where(call))
        q = interp.expr(args[2])
        return -q * I

    E = Elem(f, {"points": p, "nuclear_coords": n, "nuclear_charges": Z, "one_density_matrix": P,
                 "threshold_dist": thr_s, "transform": sp.Symbol("T"), "basis": sp.Symbol("basis")},
             handlers={"point_charge_integral": h_pci}, rule="SIGN", attr_symbols={"points.shape": sp.Symbol("npts")})

    class E2(Elem):
        def on_if(self, st):
            if st.body and isinstance(st.body[-1], ast.Raise) and not st.orelse:
                return  # validation branches only raise; nothing on the value path
            # a branch on the value path: both sides are evaluated, names that differ become Piecewise((then, cond), (else, True))
            cond = self.expr(st.test)
            if not isinstance(cond, (sp.Basic, bool)) or isinstance(cond, sp.Symbol) and not cond.is_Boolean:
                self.err("branch on a condition that is not a comparison", st)
            env0 = dict(self.env)
            for s_ in st.body:
                self.stmt(s_)
            env1 = self.env
            self.env = dict(env0)
            for s_ in st.orelse:
                self.stmt(s_)
            env2 = self.env
            merged = dict(env0)
            for k in set(env1) | set(env2):
                a_, b_ = env1.get(k), env2.get(k)
                if a_ is b_ or a_ == b_:
                    merged[k] = a_
                elif a_ is None or b_ is None:
                    merged[k] = a_ if a_ is not None else b_  # bound on one side only: used later only where that side ran
                else:
                    merged[k] = sp.Piecewise((a_, cond), (b_, True))
            self.env = merged

    E.__class__ = E2
    E.lenient = True
    E.track_restrict = True
    p_xyz = sp.symbols("p_x p_y p_z", real=True)
    n_xyz = sp.symbols("n_x n_y n_z", real=True)
    E.component_symbols_multi = {p: p_xyz, n: n_xyz}
    dist_explicit = sp.sqrt(sum((a_ - b_) ** 2 for a_, b_ in zip(p_xyz, n_xyz)))
    # run only the statements after the validation part: every statement that is not an If
    for st in fn.body:
        if isinstance(st, ast.If):
            continue
        E.stmt(st)
    if len(E.returns) != 1:
        raise AnalysisError("SIGN", f"expected a single return, found {len(E.returns)}", f.where())
    ret = E.returns[0][1]
    E.check_not_opaque(ret, E.returns[0][0])
    where_ret = f.where(E.returns[0][0])
    # boolean-mask reads (x[cond]) filter the arrays: every later sum runs over the selected elements only
    ret, conds = strip_restrict(ret)
    conds = sorted(set(conds), key=str)
    zconds = [c for c in conds if c.free_symbols and c.free_symbols <= {Z}]
    others = [c for c in conds if c not in zconds]
    Zp = sp.Symbol("Zp", positive=True)
    for c in zconds:
        for name, val in (("positive", Zp), ("negative", -Zp)):
            kept = sp.simplify(c.subs(Z, val))
            R.check(kept == sp.true, "SIGN", f.site, f"nuclei with {name} charge under the selection `{c}`",
                    f"the arrays of nuclei are filtered by `{c}` before the sum: a nucleus with {name} charge is left out of "
                    "sum_A Z_A/|r - R_A| (only a zero charge may be skipped)", where=where_ret,
                    expected="every nucleus with non-zero charge contributes", found=f"selection {c}")
    ret = ret.subs(dist_sym, d)
    # the same distance written out per Cartesian direction
    if ret.has(*p_xyz) or ret.has(*n_xyz):
        w_ = sp.Wild("w_")
        ret = ret.subs(dist_explicit, d).subs(dist_explicit ** 2, d ** 2)
        ret = ret.replace(lambda z: isinstance(z, sp.Pow) and sp.simplify(z.base - dist_explicit ** 2) == 0, lambda z: d ** (2 * z.exp))
    # split the result into the part that depends on the nuclear charges and the rest
    ret = sp.expand(ret) if ret.is_Add else ret
    terms = sp.Add.make_args(ret)
    nuc_terms = [t for t in terms if t.has(Z)]
    el_terms = [t for t in terms if not t.has(Z)]
    nuc_total = sp.Add(*nuc_terms)
    el_total = sp.Add(*el_terms)
    R.check(sp.simplify(el_total + LinearSum(P * I)) == 0, "SIGN", f.site, "electronic term",
            "the electronic part of the result is not minus the density-matrix weighted sum of the Coulomb integrals",
            where=where_ret, expected=str(-LinearSum(P * I)), found=str(el_total))
    # nuclear part: + Sum_A T(Z, d, threshold)
    T = None
    if isinstance(nuc_total, LinearSum):
        T = nuc_total.args[0]
    else:
        c, rest = nuc_total.as_coeff_Mul()
        if isinstance(rest, LinearSum):
            T = c * rest.args[0]
    if T is None:
        R.fail("SIGN", f.site, "nuclear term", "the nuclear part of the result is not a sum over nuclei of a per-nucleus term",
               where=where_ret, expected="+ sum_A Z_A / d_A (thresholded)", found=str(nuc_total))
    else:
        if others:
            T = sp.Piecewise((T, sp.And(*others)), (sp.Integer(0), True))
        decide_d1(R, f, T, Z, d, thr_s, p, n, where_ret)
    if len(pci_calls) != 1:
        raise AnalysisError("FWD", f"expected one call of point_charge_integral, found {len(pci_calls)}", f.where())
    call = pci_calls[0]
    a = [ast.unparse(x) for x in call.args]
    kw = {k.arg: ast.unparse(k.value) for k in call.keywords}
    pos = dict(zip(["basis", "points_coords", "points_charge", "transform"], a))
    pos.update(kw)
    R.check(pos.get("basis") == "basis" and pos.get("points_coords") == "points", "FWD", f.site, "point_charge_integral(basis, points, ...)",
            "the electronic term must be evaluated for the given basis at the given points", where=f.where(call),
            expected="(basis, points, ...)", found=a[:2])
    R.check(pos.get("transform") == "transform", "FWD", f.site, "point_charge_integral(..., transform=transform)",
            "the transformation is not forwarded to the integrals: the density matrix would be contracted with untransformed integrals",
            where=f.where(call), expected="transform=transform", found=pos.get("transform"))
    q = E.expr(call.args[2]) if len(call.args) > 2 else None
    R.check(q == -1, "FWD", f.site, "unit negative charges " + (a[2] if len(a) > 2 else "?"),
            "the electronic potential needs one unit negative charge per point", where=f.where(call), expected="-1 per point", found=str(q))

    # ------------------------------------------------------------------ D2
    pc = path_conditions(fn)
    compares = []
    for node in walk_no_nested(fn):
        if isinstance(node, ast.Compare) and "one_density_matrix.shape[0]" in ast.unparse(node) and len(node.ops) == 1 \
                and isinstance(node.ops[0], (ast.NotEq, ast.Eq)):
            sides = [node.left, node.comparators[0]]
            other = [s for s in sides if "one_density_matrix.shape[0]" != ast.unparse(s)]
            if len(other) != 1:
                continue
            if "one_density_matrix" in ast.unparse(other[0]):
                continue  # squareness check shape[0] == shape[1]
            st = stmt_of(fn, node)
            conds = pc.get(id(st), ())
            if isinstance(other[0], ast.Name) and other[0].id not in params:
                # the expected size is computed first (on several paths) and compared once: each definition counts as a
                # comparison under the conditions of that definition
                defs_ = [a for a in ast.walk(fn) if isinstance(a, ast.Assign) and len(a.targets) == 1 and isinstance(a.targets[0], ast.Name)
                         and a.targets[0].id == other[0].id and a.lineno < node.lineno]
                if defs_:
                    for a in defs_:
                        compares.append((node, a.value, tuple(pc.get(id(a), ())) + tuple(conds), a))
                    continue
            compares.append((node, other[0], conds, st))
    if not compares:
        raise AnalysisError("D2", "size check of the density matrix not found", f.where())
    have_tr = False
    for node, other, conds, st in compares:
        kinds = [(classify_coord_pred(t), pol) for t, pol in conds]
        # is this compare executed on the transform-given path / only on the no-transform path?
        # (the test of the enclosing `if` itself is part of conds for statements in its body;
        #  a compare that *is* the test of an if has the conds of that if statement)
        under_tr = any((k == "transform" and pol) or (k == "no-transform" and not pol) for k, pol in kinds)
        under_notr = any((k == "transform" and not pol) or (k == "no-transform" and pol) for k, pol in kinds)
        deps = {n.id for n in ast.walk(other) if isinstance(n, ast.Name)}
        if "transform" in deps:
            ok = under_tr and ast.unparse(other) == "transform.shape[0]"
            have_tr |= ok
            R.check(ok, "D2", f.site, ast.unparse(node),
                    "with a transformation the density matrix is in the transformed orbitals: its size must equal transform.shape[0]",
                    where=f.where(node), expected="transform.shape[0] on the transform-given path", found=ast.unparse(other)[:80])
        elif "basis" in deps:
            R.check(under_notr, "D2", f.site, ast.unparse(node)[:100],
                    "the density matrix is validated against the number of atomic orbitals even when a transformation is given "
                    "(rectangular transformations are rejected)", where=f.where(node),
                    expected="AO-count comparison only when transform is None", found="path: " + cond_text(conds)[:120])
        else:
            raise AnalysisError("D2", f"size comparison against an unrecognised quantity `{ast.unparse(other)[:50]}`", f.where(node))
    # the checks must let the matching size through and count the atomic orbitals of the branch they sit in
    from ..flow import branch_state
    for node, other, conds, st in compares:
        holder = stmt_of(fn, node)
        if isinstance(holder, ast.If) and holder.test is node:
            raises = bool(holder.body) and isinstance(holder.body[-1], ast.Raise)
            R.check(raises and isinstance(node.ops[0], ast.NotEq), "D2", f.site, "size check rejects a mismatch only: " + ast.unparse(node)[:70],
                    "the size check of the density matrix raises when the sizes MATCH (or does not raise when they differ): every valid call is rejected",
                    where=f.where(node), expected="if <expected size> != one_density_matrix.shape[0]: raise", found=ast.unparse(node)[:100])
        deps = {n.id for n in ast.walk(other) if isinstance(n, ast.Name)}
        if "basis" not in deps:
            continue
        tr_, ty_ = branch_state(conds)
        per_type = ao_count_per_type(other)
        if per_type is None:
            raise AnalysisError("D2", f"expected size `{ast.unparse(other)[:60]}` is not a sum over the shells of (functions per shell) x (segments)", f.where(node))
        if "__defect__" in per_type:
            R.fail("D2", f.site, "atomic-orbital count: " + ast.unparse(other)[:60], per_type["__defect__"] + ": AttributeError on this branch", where=f.where(node))
            continue
        NS, NC, M_ = sp.symbols("num_sph num_cart num_seg_cont", positive=True)
        want = {"cartesian": NC * M_, "spherical": NS * M_}
        types = {"cartesian": ["cartesian"], "spherical": ["spherical"], "mix": ["cartesian", "spherical"], "any": ["cartesian", "spherical"],
                 "partial": ["cartesian", "spherical"]}.get(ty_, ["cartesian", "spherical"])
        for tname in types:
            got = per_type.get(tname)
            R.check(got is not None and sp.simplify(got - want[tname]) == 0, "D2", f.site, f"atomic-orbital count of a {tname} shell in `{ast.unparse(other)[:50]}`",
                    f"on this branch a {tname} shell is counted as {got} functions; it contributes {want[tname]}: valid density matrices are rejected "
                    f"(or wrong ones accepted)", where=f.where(node), expected=str(want[tname]), found=str(got))
    R.check(have_tr, "D2", f.site, "size check on the transform path",
            "no size check of the density matrix against the transformation was found", where=f.where(),
            expected="one_density_matrix.shape[0] vs transform.shape[0]")
    R.floor("D1", R.rules["D1"][0], 1, "threshold obligations")
    from ..flow import check_wrapper_dispatch
    pcf = repo.func("gbasis.integrals.point_charge.point_charge_integral")
    R.note_function(pcf.qualname)
    check_wrapper_dispatch(repo, pcf, R, "FWD")
    # the electronic term is sum_ab P_ab x (point-charge integral at the grid point): the potential is right only if those integrals
    # are (C03).  The nuclear-attraction wrapper is not used here, its findings are not this property's.
    from ..report import compose
    from . import c03
    compose(R, "C03", c03.run, repo, keep=lambda fd: "nuclear_electron_attraction" not in fd.site and "nuclear_electron_attraction" not in (fd.where or ""),
            why="the electronic Coulomb potential is the density matrix contracted with the point-charge integrals at each point")
    R.assumptions += ["point_charge_integral(basis, R, q)[a,b,k] == -q_k * integral phi_a phi_b / |r - R_k| (property C03, composed into this check)",
                      "elementwise abstraction: broadcasting adapters dropped, np.sum linear"]
    return ("FLOW + FORMULA on electrostatic_potential: D1 backward slice and comparison normal form of the condition that zeroes a "
            "nuclear term (depends on points/nuclear_coords/threshold only, strict `<`, Euclidean distance by sympy normal form); "
            "D2 path conditions of every density-matrix size comparison (transform path vs AO-count path); SIGN the returned "
            "expression equals +sum Z/d (thresholded) - sum P*I as a sympy identity given point_charge_integral(q) = -q*I; FWD "
            "basis/points/transform forwarded, unit negative charges. Decided: these structural clauses. Not decided: the values "
            "of the integrals (C03) and the axis bookkeeping of the two sums (left to AXTYPE).")


def ao_count_per_type(expr):
    """`sum(<per-shell count> for cont in basis)` / `... for cont, t in zip(basis, coord_type)`: the per-shell count as a sympy expression
    for a cartesian and for a spherical shell ({type: expr}), or None if the expression is not of that form."""
    if not (isinstance(expr, ast.Call) and dotted(expr.func) in ("sum", "np.sum") and len(expr.args) == 1
            and isinstance(expr.args[0], (ast.GeneratorExp, ast.ListComp)) and len(expr.args[0].generators) == 1):
        return None
    g = expr.args[0].generators[0]
    if g.ifs:
        return None
    shell_var = type_var = None
    if isinstance(g.target, ast.Name):
        shell_var = g.target.id
    elif isinstance(g.target, ast.Tuple) and len(g.target.elts) == 2 and all(isinstance(x, ast.Name) for x in g.target.elts) \
            and isinstance(g.iter, ast.Call) and dotted(g.iter.func) == "zip" and len(g.iter.args) == 2:
        # the shells come from the argument that is the basis, the types from the other one - whatever the order of the target names
        names = [ast.unparse(a_) for a_ in g.iter.args]
        if "basis" in names[0] and "basis" not in names[1]:
            shell_var, type_var = g.target.elts[0].id, g.target.elts[1].id
        elif "basis" in names[1] and "basis" not in names[0]:
            shell_var, type_var = g.target.elts[1].id, g.target.elts[0].id
        else:
            return None
    else:
        return None
    NS, NC, M_ = sp.symbols("num_sph num_cart num_seg_cont", positive=True)
    attr = {"num_sph": NS, "num_cart": NC, "num_seg_cont": M_}

    def ev(e, tname):
        if isinstance(e, ast.Constant) and isinstance(e.value, (int, float)) and not isinstance(e.value, bool):
            return sp.nsimplify(e.value)
        if isinstance(e, ast.Constant) and isinstance(e.value, str):
            return e.value
        if isinstance(e, ast.Name) and e.id == type_var:
            return tname
        if isinstance(e, ast.Name) and e.id == shell_var:
            raise AttributeError(f"the shell object `{e.id}` is used where its coordinate type is expected (the loop variables are bound in the other order)")
        if isinstance(e, ast.Attribute) and isinstance(e.value, ast.Name) and e.value.id == type_var:
            raise AttributeError(f"`{ast.unparse(e)}` reads an attribute of the coordinate-type string (the loop variables are bound in the other order)")
        if isinstance(e, ast.Attribute) and isinstance(e.value, ast.Name) and e.value.id == shell_var:
            if e.attr in attr:
                return attr[e.attr]
            if e.attr == "coord_type":
                return tname
            raise ValueError(e.attr)
        if isinstance(e, ast.BinOp) and isinstance(e.op, (ast.Mult, ast.Add, ast.Sub, ast.Div, ast.FloorDiv)):
            l, r = ev(e.left, tname), ev(e.right, tname)
            return {ast.Mult: l * r, ast.Add: l + r, ast.Sub: l - r, ast.Div: l / r, ast.FloorDiv: l / r}[type(e.op)]
        if isinstance(e, ast.IfExp):
            return ev(e.body, tname) if ev(e.test, tname) else ev(e.orelse, tname)
        if isinstance(e, ast.Compare) and len(e.ops) == 1 and isinstance(e.ops[0], (ast.Eq, ast.NotEq)):
            l, r = ev(e.left, tname), ev(e.comparators[0], tname)
            return (l == r) if isinstance(e.ops[0], ast.Eq) else (l != r)
        raise ValueError(type(e).__name__)
    out = {}
    for tname in ("cartesian", "spherical"):
        try:
            out[tname] = ev(expr.args[0].elt, tname)
        except AttributeError as ex:
            return {"__defect__": str(ex)}
        except (ValueError, TypeError):
            return None
    return out


def eval_through_defs(E, D, expr):
    """Evaluate `expr` with Elem after evaluating the (single-assignment) definitions of the names it uses."""
    order = []
    seen = set()

    def visit(e):
        for nm in sorted(D.names_in(e)):
            if nm in seen or nm in E.env:
                continue
            seen.add(nm)
            v = D.single_assign(nm)
            if v is None:
                continue
            visit(v)
            order.append((nm, v))

    visit(expr)
    for nm, v in order:
        E.env[nm] = E.expr(v)
    return E.expr(expr)


def poisoned(expr, case, d):
    """Does evaluating `expr` numerically involve a division by the distance `d` although d may be 0 in this case?
    `case` maps relational atoms to True/False.  Piecewise selects only the taken branch; products propagate (0*inf = nan)."""
    if isinstance(expr, sp.Piecewise):
        for e, c in expr.args:
            cv = c if c in (sp.true, sp.false) else c.subs(case)
            if cv == sp.true or cv is True:
                return poisoned(e, case, d)
            if cv == sp.false or cv is False:
                continue
            return True
        return False
    if isinstance(expr, sp.Pow) and expr.base.has(d) and not (expr.exp.is_nonnegative is True):
        return True
    return any(poisoned(a, case, d) for a in expr.args)


def decide_d1_by_orderings(R, f, T, Z, d, thr, atoms, where):
    """Several comparisons (e.g. the masked store guarded by `threshold_dist > 0`).  When every comparison is between two of
    {distance, threshold, a number}, its truth is constant on each order type of (distance, threshold) relative to those numbers, so the
    term is decided for all real inputs by one representative per order type (distance >= 0): it must be 0 where d < threshold and Z/d
    elsewhere, and a dropped nucleus must not be divided by its distance."""
    site = f.site
    consts = {sp.Integer(0)}
    for at in atoms:
        sides = (at.lhs, at.rhs)
        if not all(x in (d, thr) or x.is_number for x in sides) or not isinstance(at, (sp.Lt, sp.Le, sp.Gt, sp.Ge, sp.Eq, sp.Ne)):
            R.fail("D1", site, "threshold", f"the nuclear term depends on several comparisons {atoms}; `{at}` is not a comparison between the distance, "
                   "the threshold and a number", where=where, expected="term dropped exactly when d < threshold_dist", found=str(T)[:160])
            return
        consts |= {x for x in sides if x.is_number}
    marks = sorted(consts)
    cands = [marks[0] - 1]
    for a_, b_ in zip(marks, marks[1:]):
        cands += [a_, a_ + (b_ - a_) / 3, a_ + 2 * (b_ - a_) / 3]
    cands += [marks[-1], marks[-1] + 1, marks[-1] + 2]
    bad = None
    n_types = 0
    for dv in [c_ for c_ in cands if c_ >= 0]:
        for tv in cands:
            n_types += 1
            case = {}
            for at in atoms:
                tvl = at.subs({d: dv, thr: tv})
                case[at] = sp.true if tvl == sp.true or tvl is True else sp.false
            got = sp.simplify(sp.piecewise_fold(T.subs(case)))
            dropped = dv < tv
            want = sp.Integer(0) if dropped else Z / d
            if sp.simplify(got - want) != 0:
                bad = bad or (dv, tv, got, want, "value")
            elif dropped and poisoned(T, case, d):
                bad = bad or (dv, tv, got, want, "0/0")
    R.check(bad is None or bad[4] != "value", "D1", site, f"thresholded nuclear term under {len(atoms)} comparisons ({n_types} order types of distance/threshold)",
            "the per-nucleus term must be 0 below the threshold and +Z/d otherwise" + (f": for distance {bad[0]}, threshold {bad[1]} it is {bad[2]}" if bad else ""),
            where=where, expected="Piecewise((0, d < thr), (Z/d, True))", found=str(T)[:200])
    R.check(bad is None or bad[4] != "0/0", "D1-DEF", site, "dropped nucleus is not divided by its distance",
            "for a dropped nucleus the code still divides by the point-nucleus distance: a point exactly on a nucleus gives 0/0 = nan",
            where=where, expected="value 0 assigned (masked store / where)", found=str(T)[:200])


def decide_d1(R, f, T, Z, d, thr, p, n, where):
    """T: per-nucleus term as a sympy expression in Z (charge), d (distance symbol), thr; possibly still containing the raw
    distance expression if the code's distance is not the Euclidean one."""
    site = f.site
    if T.has(p) or T.has(n):
        R.fail("D1", site, "distance", "the nuclear term is not a function of the Euclidean point-nucleus distance sqrt(sum((point - nucleus)^2))",
               where=where, expected="Z / sqrt(sum((p - n)^2))", found=str(T)[:160])
        return
    atoms = sorted(T.atoms(sp.core.relational.Relational), key=str)
    if not atoms:
        R.fail("D1", site, "threshold", "no nucleus is ever left out: the result does not depend on a distance/threshold comparison",
               where=where, expected="term dropped when d < threshold_dist", found=str(T)[:120])
        return
    if len(atoms) != 1:
        decide_d1_by_orderings(R, f, T, Z, d, thr, atoms, where)
        return
    at = atoms[0]
    free = at.free_symbols
    R.check(Z not in free and free <= {d, thr}, "D1", site, f"drop condition {at} :: dependencies",
            f"whether a nucleus is dropped must depend on its distance and the threshold only, whatever its charge; the condition `{at}` "
            f"involves {sorted(str(x) for x in free - {d, thr})}", where=where, expected="condition over (distance, threshold_dist)", found=str(at))
    if not (free <= {d, thr}):
        return
    # normalise the atom to  d < thr  (polarity True means: atom true <=> d < thr)
    canon = None
    for rel, pol in ((sp.Lt(d, thr), True), (sp.Gt(thr, d), True), (sp.Ge(d, thr), False), (sp.Le(thr, d), False)):
        if at == rel or at == rel.canonical or at.canonical == rel.canonical:
            canon = pol
    R.check(canon is not None, "D1", site, f"drop condition {at} :: comparison",
            f"a nucleus is left out exactly when its distance is below the threshold (strict, threshold unmodified); found `{at}`",
            where=where, expected="d < threshold_dist", found=str(at))
    if canon is None:
        return
    dropped_case = {at: sp.true if canon else sp.false}
    kept_case = {at: sp.false if canon else sp.true}
    v_drop = sp.simplify(sp.piecewise_fold(T.subs(dropped_case)))
    v_keep = sp.simplify(sp.piecewise_fold(T.subs(kept_case)))
    R.check(v_drop == 0 and sp.simplify(v_keep - Z / d) == 0, "D1", site, "thresholded nuclear term",
            "the per-nucleus term must be 0 below the threshold and +Z/d otherwise",
            where=where, expected="Piecewise((0, d < thr), (Z/d, True))", found=f"below: {v_drop}; otherwise: {v_keep}")
    R.check(not poisoned(T, dropped_case, d), "D1-DEF", site, "dropped nucleus is not divided by its distance",
            "for a dropped nucleus the code still divides by the point-nucleus distance (the mask is multiplied in instead of "
            "overwriting the value): a point exactly on a nucleus gives 0/0 = nan instead of leaving the nucleus out",
            where=where, expected="value 0 assigned (masked store / where)", found=str(T))
