"""C14 Electrostatic potential equals nuclear minus electronic Coulomb potential.

FLOW dependency rules D1/D2, FORMULA sign algebra, forwarding (DESIGN 3, C14).
"""
import ast

import sympy as sp

from ..astutil import Defs, dotted, normal_compare, flip, walk_no_nested
from ..flow import path_conditions, stmt_of, classify_coord_pred, cond_text
from ..formula import Elem, LinearSum
from ..report import AnalysisError

FUNC = "gbasis.evals.electrostatic_potential.electrostatic_potential"


def unwrap_scalar(e):
    """threshold_dist, np.array(threshold_dist), float(threshold_dist) -> Name node or None."""
    while isinstance(e, ast.Call) and dotted(e.func) in ("np.array", "numpy.array", "float", "np.asarray", "np.float64") and len(e.args) == 1:
        e = e.args[0]
    return e if isinstance(e, ast.Name) else None


def run(repo, R):
    R.rule("D1", "a nuclear term is zeroed exactly under `distance < threshold_dist`: the mask depends on points, nuclear_coords, "
                 "threshold_dist and not on nuclear_charges; the distance is sqrt(sum((point - nucleus)^2))")
    R.rule("D2", "the density-matrix size check is made against the transformed orbitals when a transformation is given")
    R.rule("SIGN", "result == + sum_A Z_A/d_A - sum_ab P_ab * I_ab with point_charge_integral(q) == -q*I (sympy normal form)")
    R.rule("FWD", "basis, points and transform reach point_charge_integral unchanged; unit charges are -1 per point")
    f = repo.func(FUNC)
    R.note_function(f.qualname)
    fn = f.node
    params = f.params
    need = ["basis", "one_density_matrix", "points", "nuclear_coords", "nuclear_charges", "transform", "threshold_dist"]
    for p in need:
        if p not in params:
            raise AnalysisError("ANCHOR", f"parameter `{p}` of electrostatic_potential not found", f.where())
    D = Defs(fn)

    # ------------------------------------------------------------------ D1
    stores = []
    for st in walk_no_nested(fn):
        if isinstance(st, ast.Assign) and len(st.targets) == 1 and isinstance(st.targets[0], ast.Subscript) \
                and isinstance(st.targets[0].value, ast.Name):
            arr = st.targets[0].value.id
            if "nuclear_charges" in D.slice_names(ast.Name(id=arr)) and isinstance(st.value, ast.Constant) and st.value.value in (0, 0.0):
                stores.append(st)
    if not stores:
        # np.where(mask, 0, Z/d) form
        raise AnalysisError("D1", "masked store of 0 into the nuclear potential not found (thresholding idiom not recognised)", f.where())
    dist_expr = None
    for st in stores:
        sl = st.targets[0].slice
        mask = sl
        if isinstance(mask, ast.Name):
            mv = D.single_assign(mask.id)
            if mv is None:
                raise AnalysisError("D1", "mask variable has more than one definition", f.where(st))
            mask = mv
        nc = normal_compare(mask)
        text = ast.unparse(st)
        if nc is None:
            R.fail("D1", f.site, text, "the condition that drops a nucleus is not a single comparison distance < threshold_dist",
                   where=f.where(st), expected="dist < threshold_dist", found=ast.unparse(mask))
            continue
        lhs, op, rhs = nc
        # orient: threshold side on the right
        if unwrap_scalar(lhs) is not None and unwrap_scalar(lhs).id == "threshold_dist":
            lhs, rhs, op = rhs, lhs, flip(op)
        thr = unwrap_scalar(rhs)
        thr_ok = thr is not None and thr.id == "threshold_dist" and len([d for d in D.of("threshold_dist") if d[0] != "param"]) == 0
        R.check(thr_ok, "D1", f.site, text + " :: threshold side",
                "the distance must be compared with `threshold_dist` itself (unmodified parameter)",
                where=f.where(st), expected="threshold_dist", found=ast.unparse(rhs))
        deps = D.slice_names(lhs)
        dep_ok = {"points", "nuclear_coords"} <= deps and "nuclear_charges" not in deps and "threshold_dist" not in deps \
            and "one_density_matrix" not in deps
        R.check(dep_ok, "D1", f.site, text + " :: dependencies",
                "whether a nucleus is dropped must depend on the point-nucleus distance only, whatever its charge: the compared "
                f"quantity `{ast.unparse(lhs)[:60]}` depends on {sorted(deps & set(params))}",
                where=f.where(st), expected="depends on {points, nuclear_coords} only", found=sorted(deps & set(params)))
        R.check(op == "<", "D1", f.site, text + " :: comparison",
                f"a nucleus is left out exactly when its distance is below the threshold; found `distance {op} threshold_dist`",
                where=f.where(st), expected="distance < threshold_dist", found=f"distance {op} threshold_dist")
        dist_expr = lhs
        # distance formula
        if dep_ok:
            p, n = sp.symbols("p n", real=True)
            E = Elem(f, {"points": p, "nuclear_coords": n}, rule="D1")
            try:
                # evaluate the definition chain of the compared quantity
                val = eval_through_defs(E, D, lhs)
            except AnalysisError:
                raise
            want = sp.sqrt(LinearSum((p - n) ** 2))
            ok = sp.simplify(val - want) == 0
            R.check(ok, "D1", f.site, text + " :: distance formula",
                    "the compared quantity is not the Euclidean point-nucleus distance",
                    where=f.where(st), expected=str(want), found=str(val))

    # ------------------------------------------------------------------ SIGN + FWD
    Z, d, P, I, thr_s = sp.symbols("Z d P I threshold_dist", real=True)
    p, n = sp.symbols("p n", real=True)
    dist_sym = sp.sqrt(LinearSum((p - n) ** 2))
    pci_calls = []

    def h_pci(interp, call):
        pci_calls.append(call)
        args = list(call.args)
        if len(args) < 3:
            raise AnalysisError("FWD", "point_charge_integral call without basis/points/charges", f.where(call))
        q = interp.expr(args[2])
        return -q * I

    E = Elem(f, {"points": p, "nuclear_coords": n, "nuclear_charges": Z, "one_density_matrix": P,
                 "threshold_dist": thr_s, "transform": sp.Symbol("T"), "basis": sp.Symbol("basis")},
             handlers={"point_charge_integral": h_pci}, rule="SIGN", attr_symbols={"points.shape": sp.Symbol("npts")})

    class E2(Elem):
        def on_if(self, st):
            return  # validation branches only raise; nothing on the value path

    E.__class__ = E2
    E.lenient = True
    # run only the statements after the validation part: every statement that is not an If
    for st in fn.body:
        if isinstance(st, ast.If):
            continue
        E.stmt(st)
    if len(E.returns) != 1:
        raise AnalysisError("SIGN", f"expected a single return, found {len(E.returns)}", f.where())
    ret = E.returns[0][1]
    E.check_not_opaque(ret, E.returns[0][0])
    ret = ret.subs(dist_sym, d)
    nuc = sp.Piecewise((0, d < thr_s), (Z / d, True))
    want = LinearSum(nuc) - LinearSum(P * I)
    diff = sp.simplify(sp.piecewise_fold(ret - want))
    R.check(diff == 0, "SIGN", f.site, "return " + ast.unparse(E.returns[0][0].value)[:60],
            "the returned value is not (sum over nuclei of Z/d, thresholded) minus (density-matrix weighted Coulomb integrals)",
            where=f.where(E.returns[0][0]), expected=str(want), found=str(ret))
    if len(pci_calls) != 1:
        raise AnalysisError("FWD", f"expected one call of point_charge_integral, found {len(pci_calls)}", f.where())
    call = pci_calls[0]
    a = [ast.unparse(x) for x in call.args]
    kw = {k.arg: ast.unparse(k.value) for k in call.keywords}
    pos = dict(zip(["basis", "points_coords", "points_charge", "transform"], a))
    pos.update(kw)
    R.check(pos.get("basis") == "basis" and pos.get("points_coords") == "points", "FWD", f.site, "point_charge_integral(basis, points, ...)",
            "the electronic term must be evaluated for the given basis at the given points", where=f.where(call),
            expected="(basis, points, ...)", found=a[:2])
    R.check(pos.get("transform") == "transform", "FWD", f.site, "point_charge_integral(..., transform=transform)",
            "the transformation is not forwarded to the integrals: the density matrix would be contracted with untransformed integrals",
            where=f.where(call), expected="transform=transform", found=pos.get("transform"))
    q = E.expr(call.args[2]) if len(call.args) > 2 else None
    R.check(q == -1, "FWD", f.site, "unit negative charges " + (a[2] if len(a) > 2 else "?"),
            "the electronic potential needs one unit negative charge per point", where=f.where(call), expected="-1 per point", found=str(q))

    # ------------------------------------------------------------------ D2
    pc = path_conditions(fn)
    compares = []
    for node in walk_no_nested(fn):
        if isinstance(node, ast.Compare) and "one_density_matrix.shape[0]" in ast.unparse(node) and len(node.ops) == 1 \
                and isinstance(node.ops[0], (ast.NotEq, ast.Eq)):
            sides = [node.left, node.comparators[0]]
            other = [s for s in sides if "one_density_matrix.shape[0]" != ast.unparse(s)]
            if len(other) != 1:
                continue
            if "one_density_matrix" in ast.unparse(other[0]):
                continue  # squareness check shape[0] == shape[1]
            st = stmt_of(fn, node)
            conds = pc.get(id(st), ())
            compares.append((node, other[0], conds, st))
    if not compares:
        raise AnalysisError("D2", "size check of the density matrix not found", f.where())
    have_tr = False
    for node, other, conds, st in compares:
        kinds = [(classify_coord_pred(t), pol) for t, pol in conds]
        # is this compare executed on the transform-given path / only on the no-transform path?
        # (the test of the enclosing `if` itself is part of conds for statements in its body;
        #  a compare that *is* the test of an if has the conds of that if statement)
        under_tr = any((k == "transform" and pol) or (k == "no-transform" and not pol) for k, pol in kinds)
        under_notr = any((k == "transform" and not pol) or (k == "no-transform" and pol) for k, pol in kinds)
        deps = {n.id for n in ast.walk(other) if isinstance(n, ast.Name)}
        if "transform" in deps:
            ok = under_tr and ast.unparse(other) == "transform.shape[0]"
            have_tr |= ok
            R.check(ok, "D2", f.site, ast.unparse(node),
                    "with a transformation the density matrix is in the transformed orbitals: its size must equal transform.shape[0]",
                    where=f.where(node), expected="transform.shape[0] on the transform-given path", found=ast.unparse(other)[:80])
        elif "basis" in deps:
            R.check(under_notr, "D2", f.site, ast.unparse(node)[:100],
                    "the density matrix is validated against the number of atomic orbitals even when a transformation is given "
                    "(rectangular transformations are rejected)", where=f.where(node),
                    expected="AO-count comparison only when transform is None", found="path: " + cond_text(conds)[:120])
        else:
            raise AnalysisError("D2", f"size comparison against an unrecognised quantity `{ast.unparse(other)[:50]}`", f.where(node))
    R.check(have_tr, "D2", f.site, "size check on the transform path",
            "no size check of the density matrix against the transformation was found", where=f.where(),
            expected="one_density_matrix.shape[0] vs transform.shape[0]")
    R.floor("D1", R.rules["D1"][0], 3, "mask obligations")
    R.assumptions += ["point_charge_integral(basis, R, q)[a,b,k] == -q_k * integral phi_a phi_b / |r - R_k| (property C03)",
                      "elementwise abstraction: broadcasting adapters dropped, np.sum linear"]
    return ("FLOW + FORMULA on electrostatic_potential: D1 backward slice and comparison normal form of the condition that zeroes a "
            "nuclear term (depends on points/nuclear_coords/threshold only, strict `<`, Euclidean distance by sympy normal form); "
            "D2 path conditions of every density-matrix size comparison (transform path vs AO-count path); SIGN the returned "
            "expression equals +sum Z/d (thresholded) - sum P*I as a sympy identity given point_charge_integral(q) = -q*I; FWD "
            "basis/points/transform forwarded, unit negative charges. Decided: these structural clauses. Not decided: the values "
            "of the integrals (C03) and the axis bookkeeping of the two sums (left to AXTYPE).")


def eval_through_defs(E, D, expr):
    """Evaluate `expr` with Elem after evaluating the (single-assignment) definitions of the names it uses."""
    order = []
    seen = set()

    def visit(e):
        for nm in sorted(D.names_in(e)):
            if nm in seen or nm in E.env:
                continue
            seen.add(nm)
            v = D.single_assign(nm)
            if v is None:
                continue
            visit(v)
            order.append((nm, v))

    visit(expr)
    for nm, v in order:
        E.env[nm] = E.expr(v)
    return E.expr(expr)
