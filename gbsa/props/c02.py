"""C02 Kinetic-energy integrals are exact (structural clauses)."""
import ast

import sympy as sp

from ..kernels import contraction_normal_form, expect_labels, K_labels
from ..stencil_spec import Finding, check_moment_kernel
from ..report import AnalysisError
from .momfam import run_kernel, run_kernel_forks, cover_rule, report, sub_extractor
from .difffam import check_diff_extractor, terms_of_row_sum, order_vector_of_core, shell_roles

KIN = "gbasis.integrals.kinetic_energy.KineticEnergyIntegral.construct_array_contraction"


def run(repo, R):
    from .momfam import compose_state_rules as _csr
    _csr(R, repo, ['gbasis/integrals/kinetic_energy.py', 'gbasis/integrals/_diff_operator_int.py', 'gbasis/integrals/_moment_int.py', 'gbasis/contractions.py', 'gbasis/spherical.py', 'gbasis/utils.py', 'gbasis/base.py', 'gbasis/base_one.py', 'gbasis/base_two_symm.py', 'gbasis/base_two_asymm.py', 'gbasis/base_four_symm.py'], "the property holds for every call, also after a shell's parameters were changed through its setters")
    R.rule("PITFALL", "no result buffer typed after an input, no real cast of a transformation, no unbuffered accumulation / first-occurrence scatter through np.unique")
    from ..pitfalls import report as _pitfalls
    _pitfalls(repo, R, ['gbasis.integrals.kinetic_energy', 'gbasis.integrals._diff_operator_int', 'gbasis.integrals._moment_int'], single_row_tables=True)
    R.rule("INPUTS", "the public wrapper uses its parameters as given: no path replaces one by a filtered/re-ordered/scaled/defaulted copy")
    R.rule("DISPATCH", "the wrapper assembles Cartesian, spherical, mixed and transformed results through the four assembly routes, same keywords on each")
    from ..flow import check_wrapper_inputs, check_wrapper_dispatch
    for _w in ['gbasis.integrals.kinetic_energy.kinetic_energy_integral']:
        _wf = repo.func(_w)
        R.note_function(_wf.qualname)
        check_wrapper_inputs(repo, _wf, R)
        check_wrapper_dispatch(repo, _wf, R, "DISPATCH")
    R.rule("D", "derivative recurrence D[k] = 2 alpha_a D[k-1, i+1] - i D[k-1, i-1] on the first shell's index")
    R.rule("D0", "order 0 of the derivative table is the overlap table of (shell one: A, alpha) against (shell two: B, beta)")
    R.rule("PAD", "the overlap table is padded by the maximum derivative order and the returned cut stays inside the valid region")
    R.rule("LAPLACE", "the kernel is -1/2 times the sum over the order vectors {2e_x, 2e_y, 2e_z}, each exactly once")
    R.rule("AXTYPE-K", "well-typed in the axis-provenance domain")
    R.rule("K", "contract K: (M_1, L_1, M_2, L_2)")
    R.rule("LIN", "primitives contracted once per shell with that shell's coefficients and primitive norms")
    R.rule("GATHER", "x, y, z factors selected with the shells' own component lists on the matching table axes")
    R.rule("S0", "base entry of the shared overlap/moment table is the 1-D Gaussian product integral")
    R.rule("Sa", "Obara-Saika step on the first index: M[i] = (P-A) M[i-1] + (i-1)/(2p) M[i-2]")
    R.rule("Sb", "Obara-Saika step on the second index with the coupling i/(2p) M[i-1, j-1]")
    R.rule("S-LEAD", "each table axis is incremented with one centre throughout")
    R.rule("MPT", "every return of the kernel passes through the recursion (no data-dependent shortcut)")
    from .mpt import must_pass_through
    must_pass_through(repo, R, repo.func(KIN))
    if R.findings:
        return "a data-dependent shortcut bypasses the recursion; the remaining rules were not evaluated"
    f, forks = run_kernel_forks(repo, R, KIN)
    findings = []
    nD = 0
    for tag, ex in forks:
        if ex is None:
            continue
        cover_rule(R, f, ex, tag=tag)
        st, ret = ex.returns[-1]
        expect_labels(ret, K_labels(2), findings, "KineticEnergyIntegral.construct_array_contraction", f)
        dsubs = sub_extractor(ex, "_compute_differential_operator_integrals_intermediate")
        if len(dsubs) != 1:
            raise AnalysisError("STENCIL", "the kinetic kernel does not reach the derivative table exactly once", f.where())
        info = check_diff_extractor(repo, dsubs[0], findings)
        # the derivative table is built on the overlap table: every step of that table is part of the kinetic-energy formula too
        minfo = check_moment_kernel(repo, info["moment"].func, None, findings, ex=info["moment"])
        for s, name, _r in minfo["stores"]:
            if not [fd for fd in findings if fd.store is s]:
                R.ok(name, s.func.site, s.text, detail="conforms")
        # (second derivatives are symmetric under the exchange of the two shells: no sign on an exchanged path)
        roles = shell_roles(minfo, info)
        terms = terms_of_row_sum(ret.e)
        vecs = []
        for cf, t in terms:
            if sp.simplify(cf + sp.Rational(1, 2)) != 0:
                findings.append(Finding("LAPLACE", None, f"a second-derivative term enters with the factor {cf}; the kinetic energy operator is -1/2 Laplacian",
                                        expected="-1/2", found=str(cf), construct="prefactor"))
            nf = contraction_normal_form(type("X", (), {"e": t})(), 2, findings, f)
            if nf is None:
                continue
            core, factors = nf
            v = order_vector_of_core(ex, core, findings, f, roles, dsubs[0].all_tables[0])
            if v is not None:
                vecs.append(tuple(int(x) if x.is_number else x for x in v))
        want = {(2, 0, 0), (0, 2, 0), (0, 0, 2)}
        if vecs and (set(vecs) != want or len(vecs) != 3):
            findings.append(Finding("LAPLACE", None, f"the derivative orders summed are {sorted(vecs, key=str)}; the Laplacian is d2/dx2 + d2/dy2 + d2/dz2",
                                    expected=sorted(want), found=sorted(vecs, key=str), construct="order table"))
        nD = len([s for s in info["stores"] if s[1] in ("D", "D0")])
        for s, name in info["stores"]:
            if not [fd for fd in findings if fd.store is s]:
                R.ok(name, s.func.site, s.text, detail="conforms")
        if not [fd for fd in findings if fd.rule in ("K", "LIN", "GATHER", "LAPLACE", "PAD")]:
            R.ok("K", f.site, "returns (M_1, L_1, M_2, L_2)")
            R.ok("LAPLACE", f.site, "-1/2 * sum over {2e_x, 2e_y, 2e_z}")
            R.ok("PAD", f.site, f"table {dsubs[0].all_tables[0].sizes[2]} >= cut {info['cut']} + max order")
            R.ok("LIN", f.site, "coef_s * NPC_s once per shell in each term")
            R.ok("GATHER", f.site, "prod_c D[order(c), comp_2(c), comp_1(c), c]")
    report(R, f, findings)
    if any(e_ is not None for _t, e_ in forks):
        R.floor("D", nD, 3, "derivative-table stores")
    # the property is stated for Cartesian, spherical and mixed bases and with a transformation: the assembly of this operator's base
    # class (norm once per index, own Cartesian->spherical matrix, segment-major blocks, transformation on every index) is part of it
    from ..report import compose as _compose
    from . import c09 as _c09
    _bases = ('base_two_symm',)
    _compose(R, "C09", _c09.run, repo, keep=lambda fd: any(b_ in (fd.where or "") or b_ in fd.site for b_ in _bases) or "spherical.py" in (fd.where or ""),
             why="results for spherical / mixed / transformed bases are assembled by " + ", ".join(_bases))
    R.assumptions += ["derivative recurrence from d/dx x^i exp(-a x^2) = i x^(i-1) - 2a x^(i+1) and integration by parts", "the overlap recurrences are decided under C01",
                      "assembly is decided under C09"]
    return ("STENCIL + AXTYPE on the kinetic-energy kernel chain: the five stores of the derivative table are compared with the derivative "
            "recurrence (coefficient 2*alpha of the FIRST shell, index factor, symbolic l); order 0 is the overlap table built for (A, alpha) "
            "vs (B, beta) with the first index padded by the maximum order, and the returned cut lies inside the region that is still valid "
            "after that many derivative steps; the returned expression is -1/2 times the sum over the order vectors {2e_x,2e_y,2e_z} of "
            "products of x/y/z factors selected with the shells' own component lists, contracted once per shell; every return passes "
            "through the recursion. Not decided: accuracy relative to sqrt(T_aa T_bb).")
