"""C04 Electron-repulsion integrals are exact in both index conventions (structural clauses)."""
import ast

import sympy as sp

from ..kernels import expect_labels, K_labels
from ..stencil import SV, Lab, ClsSym, Gather, ARange, Contract, TabSym, Boys, c, LabelMismatch
from ..stencil_spec import Finding, A, B, C, D, al, be, ga, de
from ..stencil_eri import check_two_elec, check_gathers, zeta, eta, rho, P, Q, EXP
from ..flow import path_conditions, stmt_of
from ..report import AnalysisError
from .momfam import run_kernel, report, sub_extractor
from .mpt import must_pass_through

ERI = "gbasis.integrals.electron_repulsion.ElectronRepulsionIntegral.construct_array_contraction"
WRAP = "gbasis.integrals.electron_repulsion.electron_repulsion_integral"


def branch_handler(take_zero):
    def h(ex, st):
        t = ast.unparse(st.test)
        if "angmom" in t:
            ex.shared["dispatch_test"] = st.test
            for s in (st.body if take_zero else st.orelse):
                ex.stmt(s)
            return True
        return False
    return h


def peel(e):
    layers = []
    cur = e
    while isinstance(cur, Contract):
        inner, marker = cur.args
        args_ = list(sp.Mul.make_args(inner))
        subc = [a for a in args_ if isinstance(a, Contract)]
        rest = sp.Mul(*[a for a in args_ if not isinstance(a, Contract)])
        layers.append((str(marker), rest))
        if not subc:
            return layers, None
        cur = subc[0]
    return layers, cur


def check_contraction(init, etr_tab, ex, findings, with_l=True):
    layers, _ = peel(init.rhs.e)
    ok = len(layers) == 4
    msg = f"{len(layers)} contraction(s) found"
    if ok:
        seen = set()
        for k, (marker, fac) in enumerate(layers):
            if not marker.startswith("over_dim_K_"):
                ok, msg = False, f"contraction over {marker}"
                break
            s = int(marker.rsplit("_", 1)[1])
            if s in seen:
                ok, msg = False, f"primitive axis of shell {s} contracted twice"
                break
            seen.add(s)
            a = EXP[s]
            N = (2 * a / sp.pi) ** sp.Rational(3, 4) * ((4 * a) ** (sp.Symbol(f"l{s}", integer=True, nonnegative=True) / 2) if with_l else 1)
            want = N * sp.Symbol(f"coef{s}")
            core = fac
            if k == len(layers) - 1:
                ts = list(fac.atoms(TabSym)) + list(fac.atoms(sp.Function("TabRef")))
                if with_l:
                    if len(ts) != 1:
                        ok, msg = False, "the contracted quantity is not the electron-transfer table"
                        break
                    core = sp.simplify(fac / ts[0])
            if with_l or k < len(layers) - 1:
                if sp.simplify(core / want - 1) != 0:
                    ok, msg = False, f"the factor contracted over the primitives of shell {s} is {core}; expected {want}"
                    break
        if ok and seen != {1, 2, 3, 4}:
            ok, msg = False, f"shells contracted: {sorted(seen)}"
    if not ok:
        findings.append(Finding("Ec", init, "after the electron transfer the primitives of every shell must be contracted exactly once with that shell's coefficients "
                                            "and (2a/pi)^(3/4) (4a)^(l/2): " + msg, found=str(init.rhs.e)[:160]))
    return ok


def run(repo, R):
    from .momfam import compose_state_rules as _csr
    _csr(R, repo, ['gbasis/integrals/electron_repulsion.py', 'gbasis/integrals/_two_elec_int.py', 'gbasis/integrals/point_charge.py', 'gbasis/contractions.py', 'gbasis/spherical.py', 'gbasis/utils.py', 'gbasis/base.py', 'gbasis/base_one.py', 'gbasis/base_two_symm.py', 'gbasis/base_two_asymm.py', 'gbasis/base_four_symm.py'], "the property holds for every call, also after a shell's parameters were changed through its setters")
    R.rule("PITFALL", "no result buffer typed after an input, no real cast of a transformation, no unbuffered accumulation / first-occurrence scatter through np.unique")
    from ..pitfalls import report as _pitfalls
    _pitfalls(repo, R, ['gbasis.integrals.electron_repulsion', 'gbasis.integrals._two_elec_int'])
    R.rule("INPUTS", "the public wrapper uses its parameters as given: no path replaces one by a filtered/re-ordered/scaled/defaulted copy")
    R.rule("DISPATCH", "the wrapper assembles Cartesian, spherical, mixed and transformed results through the four assembly routes, same keywords on each")
    from ..flow import check_wrapper_inputs, check_wrapper_dispatch
    for _w in ['gbasis.integrals.electron_repulsion.electron_repulsion_integral']:
        _wf = repo.func(_w)
        R.note_function(_wf.qualname)
        check_wrapper_inputs(repo, _wf, R)
        check_wrapper_dispatch(repo, _wf, R, "DISPATCH")
    R.rule("E0", "start: 2 pi^(5/2)/(zeta eta sqrt(zeta+eta)) F_m(rho |P-Q|^2) exp(-mu_ab|A-B|^2) exp(-mu_cd|C-D|^2)")
    R.rule("Ev", "vertical step [a+1_c,0|00]^m for x, y, z (coefficients (P-A), (rho/zeta)(P-Q), a_c/(2 zeta))")
    R.rule("Et", "electron-transfer step [a, c+1_c] for x, y, z (coefficients (Q-C)+(zeta/eta)(P-A), a_c/(2 eta), c_c/(2 eta), zeta/eta)")
    R.rule("Ec", "primitive contraction once per shell with coefficients x (2a/pi)^(3/4)(4a)^(l/2)")
    R.rule("Eh", "horizontal transfers to the fourth and to the second shell for x, y, z ((C-D) and (A-B))")
    R.rule("E-ROLE", "every table axis keeps one meaning (shell, component) through the six tables")
    R.rule("GATHER", "component selections use the exponent column of the shell/direction that the axis counts; component-list axes paired by identity")
    R.rule("NORM", "final component normalisation 1/sqrt(prod (2a_c-1)!!) of all four shells")
    R.rule("K", "contract K: (M_1, L_1, M_2, L_2, M_3, L_3, M_4, L_4) on both dispatch branches")
    R.rule("ALLS", "all-s closed form = the same start value at m = 0, contracted once per shell, dispatched exactly when all four l are 0")
    R.rule("NOTATION", "notation validated against {physicist, chemist}; physicist = chemist array with axes (0,2,1,3); chemist untouched")
    R.rule("BOYS", "the Boys function the electron-repulsion class inherits is 1F1(m+1/2; m+3/2; -x)/(2m+1) on its whole domain")
    from .c03 import boys_rule
    boys_rule(repo, R)
    R.rule("MPT", "every return passes through the recursion / closed form")
    R.rule("AXTYPE-K", "well-typed in the axis-provenance domain")
    feri = repo.func(ERI)
    must_pass_through(repo, R, feri)
    if R.findings:
        return "a data-dependent shortcut bypasses the recursion; the remaining rules were not evaluated"
    # ------------------------------------------------------------------ general branch
    findings = []
    f, ex = run_kernel(repo, R, ERI, extra_env={"cls": ClsSym()}, if_handler=branch_handler(False))
    n_rec = 0
    if ex is not None:
        st, ret = ex.returns[-1]
        expect_labels(ret, K_labels(4), findings, "ElectronRepulsionIntegral.construct_array_contraction", f)
        subs = sub_extractor(ex, "_compute_two_elec_integrals")
        if len(subs) != 1:
            raise AnalysisError("STENCIL", "the ERI kernel does not reach the two-electron recursion exactly once", f.where())
        sub = subs[0]
        info = check_two_elec(sub, findings)
        vert, etr, hd, hd2, hb, hb2 = info["tables"]
        inits = [s for s, nm in info["stores"] if nm == "INIT"]
        hd_init = [s for s in inits if s.table is hd]
        if len(hd_init) == 1:
            check_contraction(hd_init[0], etr, sub, findings)
        else:
            findings.append(Finding("Ec", None, "initialisation of the first horizontal table from the contracted integrals not found", construct="horiz_d init"))
        # m = 0 is what leaves the vertical table
        et_init = [s for s in inits if s.table is etr]
        if len(et_init) == 1:
            rid = getattr(et_init[0].rhs, "table_ref", None)
            okm = rid is not None and sub.refs[rid]["table"] is vert and sub.refs[rid]["index"][0].kind == "const" and sub.refs[rid]["index"][0].value == 0
            if not okm:
                findings.append(Finding("Ev", et_init[0], "the electron-transfer table must start from the vertical table at Boys order m = 0", found=ast.unparse(et_init[0].node)[:100]))
        ng = check_gathers(sub, info["roles"], findings, sub.func)
        # final normalisation
        gs = list(ret.e.atoms(Gather))
        F2 = sp.Function("F2")
        if len(gs) == 1:
            want = gs[0]
            for s_ in (1, 2, 3, 4):
                Cs = sp.Function(f"Comp{s_}")
                want = want / sp.sqrt(F2(2 * Cs(0) - 1) * F2(2 * Cs(1) - 1) * F2(2 * Cs(2) - 1))
            if sp.simplify(ret.e / want - 1) != 0:
                findings.append(Finding("NORM", None, "the selected integrals must be divided by sqrt(prod_c (2a_c - 1)!!) of each of the four shells exactly once",
                                        expected=str(want)[:200], found=str(ret.e)[:200], construct="component normalisation"))
        else:
            findings.append(Finding("GATHER", None, f"the result is not a single final selection: {str(ret.e)[:100]}", construct="final selection"))
        for s, name in info["stores"]:
            if not [fd for fd in findings if fd.store is s]:
                R.ok(name if name != "INIT" else "E-ROLE", s.func.site, s.text, detail="conforms")
                n_rec += 1
        if not [fd for fd in findings if fd.rule in ("K", "GATHER", "NORM", "Ec")]:
            R.ok("K", f.site, "returns (M_1, L_1, ..., M_4, L_4)")
            R.ok("GATHER", f.site, f"{ng} index arrays on recursion / component-list axes", detail={k[0] + f":{k[1]}": str(v) for k, v in info["roles"].r.items()})
            R.ok("NORM", f.site, "1/sqrt(prod (2a-1)!!) for each shell")
            R.ok("Ec", f.site, "one contraction per shell")
    report(R, f, findings)
    if ex is not None:
        R.floor("Et", n_rec, 16, "two-electron recursion stores")
    # ------------------------------------------------------------------ all-s branch
    findings = []
    f, ex0 = run_kernel(repo, R, ERI, extra_env={"cls": ClsSym()}, if_handler=branch_handler(True))
    if ex0 is not None:
        st, ret = ex0.returns[-1]
        labs = [l.base for l in (ret.labels or [])]
        wantl = []
        for s_ in (1, 2, 3, 4):
            wantl += [("dim", "M", s_), None]
        if labs != wantl:
            findings.append(Finding("ALLS", None, f"the all-s branch returns axes {ret.labels}; contract K for s shells is (M_1, 1, M_2, 1, M_3, 1, M_4, 1)",
                                    construct="all-s returned axes", expected=str(wantl), found=str(ret.labels)))
        layers, _ = peel(ret.e)
        ok = len(layers) == 4
        total = sp.Integer(1)
        seen = []
        for marker, fac in layers:
            total *= fac
            seen.append(marker)
        RPQ2 = sum((P(k) - Q(k)) ** 2 for k in range(3))
        RAB2 = sum((A(k) - B(k)) ** 2 for k in range(3))
        RCD2 = sum((C(k) - D(k)) ** 2 for k in range(3))
        want = (2 * sp.pi ** sp.Rational(5, 2)) / (zeta * eta * sp.sqrt(zeta + eta)) * Boys(0, rho * RPQ2) * sp.exp(-al * be / zeta * RAB2) * sp.exp(-ga * de / eta * RCD2)
        for s_ in (1, 2, 3, 4):
            want *= (2 * EXP[s_] / sp.pi) ** sp.Rational(3, 4) * sp.Symbol(f"coef{s_}")
        if not ok or sorted(seen) != [f"over_dim_K_{s_}" for s_ in (1, 2, 3, 4)] or sp.simplify(total / want - 1) != 0:
            findings.append(Finding("ALLS", None, "the all-s closed form is not the start value at m = 0 times (2a/pi)^(3/4) and the coefficients of each shell, "
                                                  "contracted once per shell", expected=str(want)[:200], found=str(total)[:200], construct="all-s closed form"))
        else:
            R.ok("ALLS", f.site, "closed form == E0(m=0) x prod_s (2a_s/pi)^(3/4) coef_s, axes (M_1,1,M_2,1,M_3,1,M_4,1)")
        # dispatch predicate: exactly "all four angular momenta are zero"
        t = ex0.shared.get("dispatch_test")
        txt = ast.unparse(t) if t is not None else ""
        names = [f"{p}.angmom" for p in f.params if p.startswith("cont")]
        okd = isinstance(t, ast.Compare) and all(isinstance(o, ast.Eq) for o in t.ops) and \
            sorted([ast.unparse(t.left)] + [ast.unparse(x) for x in t.comparators[:-1]]) == sorted(names) and ast.unparse(t.comparators[-1]) == "0"
        if not okd and isinstance(t, ast.Call) and ast.unparse(t.func) == "all" and len(t.args) == 1 and isinstance(t.args[0], (ast.GeneratorExp, ast.ListComp)):
            # all(c.angmom == 0 for c in (the four shells))
            g = t.args[0]
            if len(g.generators) == 1 and not g.generators[0].ifs and isinstance(g.generators[0].target, ast.Name):
                v = g.generators[0].target.id
                seq = g.generators[0].iter
                if isinstance(seq, ast.Name):
                    from ..astutil import Defs as _Defs
                    seq = _Defs(f.node).single_assign(seq.id) or seq
                shells = sorted(ast.unparse(x) for x in seq.elts) if isinstance(seq, (ast.Tuple, ast.List)) else None
                okd = ast.unparse(g.elt) in (f"{v}.angmom == 0", f"0 == {v}.angmom") and shells == sorted(p for p in f.params if p.startswith("cont"))
        R.check(okd, "ALLS", f.site, f"dispatch `{txt[:70]}`", "the closed form is only valid when all four shells are s shells; the recursion does not support that case",
                where=f.where(t) if t is not None else f.where(), expected=" == ".join(names) + " == 0", found=txt)
    report(R, f, findings)
    # ------------------------------------------------------------------ notation
    w = repo.func(WRAP)
    R.note_function(w.qualname)
    fn = w.node
    guard = [st for st in fn.body if isinstance(st, ast.If) and st.body and isinstance(st.body[-1], ast.Raise) and "notation" in ast.unparse(st.test)]
    handled = set()
    for n in ast.walk(fn):
        if isinstance(n, ast.Compare) and ast.unparse(n.left) == "notation" and isinstance(n.ops[0], ast.Eq) and isinstance(n.comparators[0], ast.Constant):
            handled.add(n.comparators[0].value)
    allowed = set()
    if guard:
        for n in ast.walk(guard[0].test):
            if isinstance(n, (ast.List, ast.Tuple, ast.Set)):
                try:
                    allowed = set(ast.literal_eval(n))
                except Exception:
                    pass
    R.check(bool(guard) and allowed == {"physicist", "chemist"}, "NOTATION", w.site, "notation validated",
            "`notation` must be validated against exactly {'physicist', 'chemist'}", where=w.where(), expected=["chemist", "physicist"], found=sorted(allowed))
    # for each notation, follow every path of the wrapper: what is returned must be the assembled (chemists') array, with its two
    # middle axes exchanged exactly when notation == 'physicist'
    def swap_of(e, env):
        """-> ('arr', swapped?) for expressions that are the assembled array possibly with axes 1 and 2 exchanged, else None"""
        if isinstance(e, ast.Name):
            return env.get(e.id)
        if isinstance(e, ast.Call):
            d = ast.unparse(e.func)
            if isinstance(e.func, ast.Attribute) and e.func.attr.startswith("construct_array_"):
                return ("arr", False)
            if isinstance(e.func, ast.Name) and e.func.id.startswith("_"):
                g_ = repo.resolve_name(w.module, e.func.id, w)
                if hasattr(g_, "node") and g_.module is w.module:
                    body_calls = [n2 for n2 in ast.walk(g_.node) if isinstance(n2, ast.Call)]
                    asm = [n2 for n2 in body_calls if isinstance(n2.func, ast.Attribute) and n2.func.attr.startswith("construct_array_")]
                    perm = [n2 for n2 in body_calls if ast.unparse(n2.func).split(".")[-1] in ("transpose", "swapaxes", "moveaxis", "einsum")]
                    if asm and not perm:
                        return ("arr", False)  # a helper that only dispatches to the assembly
            args = list(e.args)
            base = None
            if d in ("np.transpose", "numpy.transpose") and len(args) == 2:
                base, perm = swap_of(args[0], env), ast.unparse(args[1])
                ok = perm in ("(0, 2, 1, 3)", "[0, 2, 1, 3]")
            elif d in ("np.swapaxes", "numpy.swapaxes") and len(args) == 3:
                base = swap_of(args[0], env)
                ok = sorted(ast.unparse(a) for a in args[1:]) in (["1", "2"], ["-3", "2"], ["-2", "1"], ["-2", "-3"], ["-3", "-2"])
            elif isinstance(e.func, ast.Attribute) and e.func.attr == "transpose":
                base = swap_of(e.func.value, env)
                ok = ", ".join(ast.unparse(a) for a in args) in ("0, 2, 1, 3", "(0, 2, 1, 3)")
            elif isinstance(e.func, ast.Attribute) and e.func.attr == "swapaxes" and len(args) == 2:
                base = swap_of(e.func.value, env)
                ok = sorted(ast.unparse(a) for a in args) == ["1", "2"]
            else:
                return None
            if base is None:
                return None
            if not ok:
                return ("arr", "other")
            return ("arr", (not base[1]) if base[1] in (True, False) else "other")
        return None

    def follow(stmts, states, notation, out):
        """run the statements over a set of environments (one per path); returns are collected in `out`; -> surviving environments"""
        for st_ in stmts:
            if not states:
                return []
            if isinstance(st_, ast.Return):
                for env in states:
                    out.append((st_, swap_of(st_.value, env) if st_.value is not None else None))
                return []
            if isinstance(st_, ast.Raise):
                return []
            if isinstance(st_, ast.Assign) and len(st_.targets) == 1 and isinstance(st_.targets[0], ast.Name):
                new_states = []
                for env in states:
                    v = swap_of(st_.value, env)
                    env = dict(env)
                    if v is not None:
                        env[st_.targets[0].id] = v
                    else:
                        env.pop(st_.targets[0].id, None)
                    new_states.append(env)
                states = new_states
                continue
            if isinstance(st_, ast.If):
                t = st_.test
                val = None
                if isinstance(t, ast.Compare) and ast.unparse(t.left) == "notation" and len(t.ops) == 1:
                    try:
                        rhs = ast.literal_eval(t.comparators[0])
                    except Exception:
                        rhs = None
                    if rhs is not None:
                        if isinstance(t.ops[0], ast.Eq):
                            val = notation == rhs
                        elif isinstance(t.ops[0], ast.NotEq):
                            val = notation != rhs
                        elif isinstance(t.ops[0], ast.In):
                            val = notation in rhs
                        elif isinstance(t.ops[0], ast.NotIn):
                            val = notation not in rhs
                branches = [st_.body if val else st_.orelse] if val is not None else [st_.body, st_.orelse]
                new_states = []
                for b in branches:
                    new_states.extend(follow(b, [dict(e) for e in states], notation, out))
                states = new_states
                continue
        return states

    n_ret = 0
    for notation in ("chemist", "physicist"):
        outs = []
        follow(fn.body, [{}], notation, outs)
        if not outs:
            raise AnalysisError("NOTATION", f"no return of electron_repulsion_integral reached for notation='{notation}'", w.where())
        for rst, v in outs:
            n_ret += 1
            if v is None:
                raise AnalysisError("NOTATION", f"returned expression `{ast.unparse(rst.value)[:60]}` is not the assembled array (idiom not recognised)", w.where(rst))
            want_swapped = notation == "physicist"
            R.check(v[1] is want_swapped, "NOTATION", w.site, f"notation='{notation}': return {ast.unparse(rst.value)[:50]}",
                    "the physicists' array must be the chemists' array with the two middle indices exchanged, and the chemists' array must be returned untouched"
                    + f" (for notation='{notation}' this return gives the array " + ("with another permutation" if v[1] == "other" else "exchanged" if v[1] else "unexchanged") + ")",
                    where=w.where(rst), expected="axes (0, 2, 1, 3)" if want_swapped else "the assembled array as it is", found=ast.unparse(rst.value)[:80])
    # the property is stated for Cartesian, spherical and mixed bases and with a transformation: the assembly of this operator's base
    # class (norm once per index, own Cartesian->spherical matrix, segment-major blocks, transformation on every index) is part of it
    from ..report import compose as _compose
    from . import c09 as _c09
    _bases = ('base_four_symm',)
    _compose(R, "C09", _c09.run, repo, keep=lambda fd: any(b_ in (fd.where or "") or b_ in fd.site for b_ in _bases) or "spherical.py" in (fd.where or ""),
             why="results for spherical / mixed / transformed bases are assembled by " + ", ".join(_bases))
    R.assumptions += ["Head-Gordon/Pople and Obara-Saika two-electron recurrences as in DESIGN.md 2.2", "Boys function uninterpreted apart from its arguments",
                      "assembly and the eight-fold fill under C09/C11"]
    return ("STENCIL + AXTYPE on the electron-repulsion kernel chain, both dispatch branches: the thirty stores of the six recursion tables are "
            "extracted as stencils and compared with the start value, the vertical, the electron-transfer and the horizontal recurrences for "
            "x, y and z (symbolic angular momenta); axis meanings (shell, component) are propagated through the initialisation stores and every "
            "index array of the four component selections must use the exponent column of exactly the shell/direction its axis counts, "
            "component-list axes paired by identity; primitives are contracted once per shell with that shell's coefficients and exponent "
            "normalisation; the final component normalisation covers all four shells; the kernel has type (M_1, L_1, ..., M_4, L_4). The "
            "all-s closed form equals the same start value at m = 0 and is dispatched exactly for four s shells. The physicists' array is the "
            "chemists' with axes (0,2,1,3). Not decided: the 1e-6-of-Schwarz accuracy and the ill-conditioning of the electron transfer "
            "(the suite's own xfail).")
