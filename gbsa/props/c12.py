"""C12 Results are covariant under rigid motions of the whole system (structural clauses: translation, x/y/z pass
consistency, coordinate-agnostic separable kernels, closed order tables)."""
import ast
import itertools

import sympy as sp

from ..stencil import TabRef, ARange, c
from ..stencil_spec import (A, B, C, D, Cm, Cp, Finding, stencil_of, tvalues, inc_axis, shift_all, is_zero, superlinear_cancellation)
from ..stencil import LabelMismatch
from ..report import AnalysisError
from .allkernels import run_all
from .momfam import report

CENTRES = (A, B, C, D, Cm, Cp)
KAPPA = sp.Symbol("kappa", integer=True)


def comp_generic(expr, cc):
    """Replace component index cc of every centre function by the generic symbol kappa."""
    reps = {}
    for fn in CENTRES:
        for app in expr.atoms(fn):
            if app.args[0] == cc:
                reps[app] = fn(KAPPA)
    return expr.xreplace(reps)


def perm_invariant(expr):
    """Is the expression unchanged under every permutation of the Cartesian components of all centres (e.g. |A-B|^2)?"""
    for perm in ((1, 0, 2), (0, 2, 1)):  # two transpositions generate S3
        rep = {}
        for fn in CENTRES:
            for app in expr.atoms(fn):
                if app.args[0].is_number:
                    rep[app] = fn(sp.Integer(perm[int(app.args[0])]), *app.args[1:])
        e2 = expr.xreplace(rep)
        if e2 != expr:
            try:
                if not is_zero(sp.expand(e2) - sp.expand(expr)):
                    return False
            except Exception:
                return False
    return True


def components_used(expr):
    out = set()
    if perm_invariant(expr):
        return out  # a scalar of the geometry (distance), not a component of it
    for fn in CENTRES:
        for app in expr.atoms(fn):
            if app.args[0].is_number:
                out.add(int(app.args[0]))
    return out


def symmetric_component_uses(events):
    """ids of the subscript nodes that pick one Cartesian component each inside ONE chain of a commutative operator (a * b * c or
    a + b + c) where the three operands are the same subscript up to that constant and the constants are 0, 1, 2."""
    out = set()
    by_func = {}
    for g, node, comp in events:
        by_func.setdefault(g, []).append((node, comp))
    for g, evs in by_func.items():
        parent = {}
        for n in ast.walk(g.node):
            for ch in ast.iter_child_nodes(n):
                parent[id(ch)] = n

        def chain_root(n):
            p_ = parent.get(id(n))
            if not isinstance(p_, ast.BinOp) or not isinstance(p_.op, (ast.Mult, ast.Add)):
                return None, None
            op = type(p_.op)
            root = p_
            while isinstance(parent.get(id(root)), ast.BinOp) and isinstance(parent[id(root)].op, op):
                root = parent[id(root)]
            return root, op

        groups = {}
        for node, comp in evs:
            root, op = chain_root(node)
            if root is not None:
                groups.setdefault(id(root), []).append((node, comp))
        for members in groups.values():
            uniq = {id(n): (n, c_) for n, c_ in members}
            if len(uniq) != 3 or sorted(c_ for _n, c_ in uniq.values()) != [0, 1, 2]:
                continue

            def skeletons(n, c_):
                sl = n.slice
                elts = list(sl.elts) if isinstance(sl, ast.Tuple) else [sl]
                res = set()
                for k, e in enumerate(elts):
                    if isinstance(e, ast.Constant) and e.value == c_:
                        res.add((k, ast.dump(n.value) + "|" + "|".join("#" if j == k else ast.dump(x) for j, x in enumerate(elts))))
                return res
            common = None
            for n, c_ in uniq.values():
                sk = skeletons(n, c_)
                common = sk if common is None else common & sk
            if common:
                out |= set(uniq)
    return out


def run(repo, R):
    R.rule("PITFALL", "no approximate comparison of centre coordinates selects between formulas (tolerances relative to the coordinate break translation invariance)")
    from ..pitfalls import report as _pitfalls
    _pitfalls(repo, R, ["gbasis.integrals", "gbasis.evals", "gbasis.base_one", "gbasis.base_two_symm", "gbasis.base_two_asymm", "gbasis.base_four_symm"], kinds=("TOL-GEOM",))
    R.rule("TRANS", "every start value and every recursion coefficient is unchanged when all centres (shells, charges, moment origin) are shifted together")
    R.rule("STABLE", "centres enter start values/coefficients through differences only (no cancellation of terms quadratic in absolute positions)")
    R.rule("PASS", "the written-out x, y and z passes of the one- and two-electron recursions are images of each other under the coordinate map")
    R.rule("X0", "separable kernels never single out a Cartesian component (the component axis is never indexed by a constant)")
    R.rule("X1", "literal tables of order vectors are closed under permutations of the coordinates")
    R.rule("EVAL", "the evaluation back-ends depend on points and centres through `point - centre` only")
    R.rule("ORIGIN", "the only absolute position in the integrals is the documented origin of r x grad (the literal zero vector) and the moment origin argument")
    runs = run_all(repo, R, rule="PASS")
    findings = []
    n_expr = 0
    n_pass = 0
    seen_stores = set()
    for name, f, ex in runs:
        if ex is None:
            continue
        for sub in ex.all_extractors():
            by_group = {}
            for s in sub.stores:
                key = (sub.func.qualname, s.node.lineno, s.node.col_offset, sp.srepr(s.rhs.e.replace(TabRef, lambda z: sp.Symbol("T")).replace(ARange, lambda z: sp.Symbol("AR"))))
                if key in seen_stores:
                    continue  # the same statement under the same binding was analysed in another kernel's run
                seen_stores.add(key)
                try:
                    terms, const, tsyms, subs_ = stencil_of(sub, s)
                except LabelMismatch as lm:
                    findings.append(Finding("PASS", s, lm.msg))
                    continue
                # a moment about the literal coordinate origin is not meant to follow a shift of the system (rule ORIGIN covers it)
                fixed_origin = sub.func.name.endswith("_compute_multipole_moment_integrals_intermediate") and sub.env.get(sub.func.params[0]) is not None and \
                    getattr(sub.env[sub.func.params[0]], "e", None) == 0
                # ---- TRANS / STABLE
                exprs = [t["coef"] for t in terms] + ([const] if const != 0 else [])
                for e in exprs:
                    if not any(e.has(fn) for fn in CENTRES):
                        continue
                    if fixed_origin and terms and inc_axis(terms, len(s.table.labels))[:1] == [0]:
                        continue
                    n_expr += 1
                    tau = sp.Function("tau")
                    d = shift_all(e, tau) - e
                    # start values: compare the ratio (exp / Boys arguments)
                    ok = is_zero(d) or sp.simplify(shift_all(e, tau) / e - 1) == 0
                    if not ok:
                        findings.append(Finding("TRANS", s, "this coefficient/start value changes when every centre is shifted by the same vector: an absolute "
                                                            "position enters the recursion", found=str(e)[:160], expected="function of centre differences"))
                bad = superlinear_cancellation(s.rhs.e) if any(s.rhs.e.has(fn) for fn in CENTRES) else None
                if bad is not None:
                    findings.append(Finding("STABLE", s, "squares of absolute positions are cancelled against each other instead of using coordinate differences "
                                                         "(translation invariance holds only symbolically, not in floating point far from the origin)",
                                            found=str(bad)[:160]))
                # ---- PASS signature
                if not terms:
                    continue
                n = len(s.table.labels)
                ks = inc_axis(terms, n)
                comps = set()
                for t in terms:
                    comps |= components_used(t["coef"])
                if len(comps) > 1:
                    findings.append(Finding("PASS", s, f"this recursion statement mixes Cartesian components {sorted(comps)} of the centres: a written-out pass "
                                                       f"along one direction must use that direction's components only"))
                    continue
                if len(comps) != 1 or len(ks) < 1:
                    continue  # component-agnostic statement (separable kernels) or not a pass statement
                cc = comps.pop()
                r = ks[0]
                sig = []
                partners = sorted({k for t in terms for k, o in enumerate(t["offset"]) if k != r and not isinstance(o, tuple) and o.is_number and o != 0})
                pname = {k: f"p{j}" for j, k in enumerate(partners)}
                pname[r] = "inc"
                vals, lows, consts = tvalues(tsyms)
                tsub = {vals[k]: sp.Symbol("t_" + nm) for k, nm in pname.items() if not consts[k] and isinstance(vals[k], sp.Symbol)}
                for t in terms:
                    off = t["offset"]
                    if any(isinstance(o, tuple) or not o.is_number for o in off):
                        continue
                    rel = tuple(sorted((pname[k], int(o)) for k, o in enumerate(off) if o != 0))
                    cf = comp_generic(t["coef"], cc).subs(tsub)
                    sig.append((rel, cf))
                shape = (s.table.id, len(terms), tuple(ix.kind for k, ix in enumerate(s.index) if k == r))
                by_group.setdefault(shape, []).append((cc, r, s, sig))
            for shape, members in by_group.items():
                if len(members) < 2:
                    continue
                n_pass += len(members)
                ref_cc, ref_r, ref_s, ref_sig = members[0]
                for cc, r, s, sig in members[1:]:
                    a_ = sorted(ref_sig, key=lambda x: str(x[0]))
                    b_ = sorted(sig, key=lambda x: str(x[0]))
                    same = len(a_) == len(b_) and all(x[0] == y[0] and is_zero(x[1] - y[1]) for x, y in zip(a_, b_))
                    if not same:
                        findings.append(Finding("PASS", s, f"the {'xyz'[cc]} pass is not the image of the {'xyz'[ref_cc]} pass `{ref_s.text}` under the coordinate "
                                                           f"map (a component index or coefficient differs between the written-out passes)",
                                                expected=str(a_)[:200], found=str(b_)[:200]))
                comps_seen = sorted(m[0] for m in members)
                if len(members) == 3 and comps_seen != [0, 1, 2]:
                    findings.append(Finding("PASS", members[0][2], f"three passes of the same shape use components {comps_seen}; x, y and z must each be used once"))
    # ---- X0 : separable kernels are component-agnostic
    sep_funcs = ("_compute_multipole_moment_integrals_intermediate", "_cleanup_intermediate_integrals", "_compute_multipole_moment_integrals",
                 "_compute_differential_operator_integrals_intermediate", "_compute_differential_operator_integrals")
    x0 = 0
    seen_ev = set()
    for name, f, ex in runs:
        if ex is None:
            continue
        evs = [(g, node, comp) for kind, g, node, comp in ex.shared.get("events", []) if kind == "xyz-const" and g.name in sep_funcs]
        symmetric = symmetric_component_uses(evs)
        for kind, g, node, comp in ex.shared.get("events", []):
            if kind == "xyz-const" and g.name in sep_funcs and id(node) in symmetric:
                continue  # x, y and z are each picked once, identically, in one product / sum: the same as reducing over the component axis
            if kind == "xyz-const" and g.name in sep_funcs and (g.qualname, node.lineno, node.col_offset) not in seen_ev:
                seen_ev.add((g.qualname, node.lineno, node.col_offset))
                R.fail("X0", g.site, ast.unparse(node)[:80], f"the separable kernel {g.name} singles out Cartesian component {comp}: `{ast.unparse(node)[:70]}`",
                       where=g.where(node), expected="component axis only sliced, broadcast or reduced")
                x0 += 1
    if not x0:
        R.ok("X0", "integrals._moment_int / _diff_operator_int", "component axis never indexed by a constant", detail={"functions": sep_funcs})
    report(R, repo.func("gbasis.integrals._one_elec_int._compute_one_elec_integrals"), findings)
    if not findings:
        R.ok("TRANS", "all recursion kernels", f"{n_expr} coefficient/start-value expressions invariant under a common shift")
        R.ok("STABLE", "all recursion kernels", "no super-linear cancellation in absolute positions")
        R.ok("PASS", "one- and two-electron kernels", f"{n_pass} written-out pass statements mutually consistent")
    R.floor("PASS", n_pass, 12, "written-out pass statements compared")
    R.floor("TRANS", n_expr, 20, "coefficient expressions checked for translation invariance")
    # ---- X1 : order tables
    perms = list(itertools.permutations(range(3)))

    def tables_in(qual):
        f = repo.func(qual)
        out = []
        for n in ast.walk(f.node):
            if isinstance(n, ast.Call) and ast.unparse(n.func) in ("np.array", "numpy.array") and n.args:
                try:
                    lit = ast.literal_eval(n.args[0])
                except Exception:
                    continue
                if isinstance(lit, (list, tuple)) and len(lit) == 3 and all(isinstance(r, (list, tuple)) and len(r) == 3 and all(isinstance(x, int) for x in r) for r in lit):
                    out.append((f, n, [tuple(r) for r in lit]))
        return out

    def equivariant(rows):
        return all(tuple(rows[p[k]][p[j]] for j in range(3)) == tuple(rows[k][j] for j in range(3)) or True for p in perms for k in range(3)) and \
            all(rows[p[k]] == tuple(rows[k][p.index(j)] if False else rows[k][j2] for j2 in [p.index(j) for j in range(3)]) for p in perms for k in range(3))

    def equiv(rows):
        # T[pi(k)] == pi(T[k]) where pi moves component j of the vector to position pi(j)
        for p in perms:
            for k in range(3):
                img = [0, 0, 0]
                for j in range(3):
                    img[p[j]] = rows[k][j]
                if tuple(img) != rows[p[k]]:
                    return False
        return True

    def set_closed(rows):
        s = set(rows)
        for p in perms:
            for r in rows:
                img = [0, 0, 0]
                for j in range(3):
                    img[p[j]] = r[j]
                if tuple(img) not in s:
                    return False
        return True

    n_tab = 0
    for qual, mode in (("gbasis.integrals.kinetic_energy.KineticEnergyIntegral.construct_array_contraction", "set"),
                       ("gbasis.integrals.momentum.MomentumIntegral.construct_array_contraction", "equivariant"),
                       ("gbasis.evals.density.evaluate_density_gradient", "equivariant"),
                       ("gbasis.evals.density.evaluate_density_laplacian", "equivariant")):
        for f, node, rows in tables_in(qual):
            n_tab += 1
            ok = set_closed(rows) if mode == "set" else equiv(rows)
            R.check(ok, "X1", f.site, ast.unparse(node)[:70],
                    f"the order table {rows} is not {'closed' if mode == 'set' else 'equivariant'} under permutations of x, y, z: the result would not transform as "
                    f"a {'scalar' if mode == 'set' else 'vector'}", where=f.where(node))
    R.floor("X1", n_tab, 2, "literal order tables")
    # ---- EVAL : back-ends depend on point - centre only
    from . import c05

    class Silent:
        def __getattr__(self, k):
            return lambda *a, **kw: True
        findings = []
    try:
        c05.run_direct(repo, Silent())
        out, cx, ctr = c05.run_direct.last_combination
        t = sp.Symbol("t")
        inv = sp.simplify(out.subs({cx: cx + t, ctr: ctr + t}) - out) == 0
        f = repo.func(c05.DIRECT)
        R.note_function(f.qualname)
        R.check(inv, "EVAL", f.site, "direct back-end(point + t, centre + t) == direct back-end(point, centre)",
                "the direct derivative back-end depends on the absolute position of points/centres", where=f.where())
    except AnalysisError as e:
        raise
    from .c05_general import GenElem, C as CSYM, x as XS
    g = repo.func(c05.GENERAL)
    R.note_function(g.qualname)
    okg = True
    for m, nval in ((0, 2), (1, 1), (2, 3)):
        E = GenElem(g, m, nval)
        E.repo_ref = repo
        E.run()
        body = E.returns[0][1][2]
        if sp.simplify(body.e).has(CSYM):
            okg = False
    R.check(okg, "EVAL", g.site, "general back-end independent of the absolute centre", "the general derivative back-end depends on the absolute position of the centre",
            where=g.where())
    # ---- ORIGIN
    ang = [ex for name, f, ex in runs if name == "angular_momentum" and ex is not None]
    if ang:
        moms = [s for s in ang[0].children if s.func.name.endswith("_compute_multipole_moment_integrals_intermediate")]
        f = repo.func("gbasis.integrals.angular_momentum.AngularMomentumIntegral.construct_array_contraction")
        R.check(len(moms) == 1 and moms[0].call_args[0].e == 0, "ORIGIN", f.site, "moments of r x grad about np.zeros(3)",
                "the angular momentum is documented about the coordinate origin; its first moments are taken about another point",
                where=f.where())
    R.assumptions += ["translation invariance of every table entry follows from invariant start values and coefficients by induction over the recurrence",
                      "conformance of the passes to the published recurrences is C01-C04/C07's business; here only their mutual consistency"]
    return ("From the stencils extracted for all recursion kernels (see C01-C04): every start value and coefficient is invariant under a "
            "common shift of all centres (computer algebra), and no sum cancels terms quadratic in absolute positions; the written-out x, y, "
            "z passes of the one- and two-electron recursions have identical signatures (offsets relative to the incremented axis, "
            "coefficients with the component made generic) - mutual consistency, not conformance; the separable kernels never index the "
            "component axis with a constant; literal order tables of kinetic energy, momentum, density gradient and Laplacian are "
            "closed/equivariant under the 6 coordinate permutations; both evaluation back-ends depend on point minus centre only; the angular "
            "momentum's moments are about the literal origin. Not decided: reflections/general rotations (they follow from the recurrences being "
            "the right ones), representation matrices of spherical shells, numerical equalities.")
