"""MPT: must-pass-through rule - every success return of a kernel depends on the recursion result."""
import ast

from ..astutil import Defs, walk_no_nested, dotted
from ..flow import path_conditions, cond_text, RAISE_GUARDS
from ..model import Func


def must_pass_through(repo, R, f, allowed_shortcuts=(), depth=3):
    """In `f` and the private functions it calls: every `return` value must have a call that reaches the recursion in its
    backward slice, and must not sit under a data-dependent condition other than the documented ones.  A shortcut that
    returns zeros (or anything else) without computing is reported."""
    seen = set()
    work = [f]
    while work:
        g = work.pop()
        if g in seen:
            continue
        seen.add(g)
        fn = g.node
        D = Defs(fn)
        pc = path_conditions(fn)
        calls_gb = []
        for n in walk_no_nested(fn):
            if isinstance(n, ast.Call):
                d = dotted(n.func)
                r = repo.resolve_name(g.module, d, g) if d else None
                if isinstance(r, Func) and r.module.name.startswith("gbasis.integrals") and r.name.startswith("_"):
                    calls_gb.append((n, r))
                    work.append(r)
        rets = [n for n in walk_no_nested(fn) if isinstance(n, ast.Return) and n.value is not None]
        for r in rets:
            conds = [(t, pol) for t, pol in pc.get(id(r), ()) if not (id(t) in RAISE_GUARDS and not pol)]
            data_conds = []
            for t, pol in conds:
                txt = ast.unparse(t)
                # only the documented predicate itself is an accepted reason, not a larger condition that contains it
                if isinstance(t, ast.Call) and (dotted(t.func) or "").split(".")[-1] in allowed_shortcuts:
                    continue
                data_conds.append(("" if pol else "not ") + txt)
            names = D.slice_names(r.value)
            via_call = any(any(isinstance(x, ast.Name) and False for x in [n]) for n, _ in calls_gb)
            uses_kernel = bool(calls_gb) and any(_expr_reaches(D, r.value, n) for n, _ in calls_gb)
            if g is f or calls_gb:
                ok = (uses_kernel or not calls_gb) and not (data_conds and not uses_kernel)
                if calls_gb and not uses_kernel:
                    skip = not data_conds and any(isinstance(t, ast.Call) and (dotted(t.func) or "").split(".")[-1] in allowed_shortcuts
                                                  for t, pol in conds if pol)
                    if skip:
                        continue
                    R.fail("MPT", g.site, "return " + ast.unparse(r.value)[:70],
                           f"{g.qualname} returns `{ast.unparse(r.value)[:60]}` without going through the integral recursion"
                           + (f" when [{' and '.join(data_conds)}]" if data_conds else "") + ": a data-dependent shortcut replaces the computed integrals",
                           where=g.where(r), expected="every return derived from the recursion kernel", found=cond_text(pc.get(id(r), ()))[:120])
                else:
                    R.ok("MPT", g.site, "return " + ast.unparse(r.value)[:50], nontrivial=bool(calls_gb))
    return len(seen)


def _expr_reaches(D, expr, call_node):
    """Is `call_node` inside `expr` or inside the definition chain of a name used by `expr`?"""
    if any(n is call_node for n in ast.walk(expr)):
        return True
    seen = set()
    work = list(D.names_in(expr))
    while work:
        nm = work.pop()
        if nm in seen:
            continue
        seen.add(nm)
        for kind, st, val, _p in D.of(nm):
            if val is None:
                continue
            if any(n is call_node for n in ast.walk(val)):
                return True
            work.extend(D.names_in(val))
    return False
