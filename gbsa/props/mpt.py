"""MPT: must-pass-through rule - every success return of a kernel depends on the recursion result."""
import ast

from ..astutil import Defs, walk_no_nested, dotted
from ..flow import path_conditions, cond_text, RAISE_GUARDS
from ..model import Func
from ..report import AnalysisError

# the modules that hold the Obara-Saika / HGP recursions: a value "goes through the recursion" when a call into one of them is in its
# backward slice
KERNEL_MODULES = ("gbasis.integrals._moment_int", "gbasis.integrals._diff_operator_int", "gbasis.integrals._one_elec_int",
                  "gbasis.integrals._two_elec_int")


def _reaches_kernel(repo, g, depth=4, _seen=None):
    """Does `g` (a gbasis function) call into a recursion module, directly or through other gbasis functions?"""
    if g.module.name in KERNEL_MODULES:
        return True
    if depth == 0:
        return False
    _seen = _seen if _seen is not None else set()
    if g in _seen:
        return False
    _seen.add(g)
    for n in walk_no_nested(g.node):
        if isinstance(n, ast.Call):
            d = dotted(n.func)
            r = repo.resolve_name(g.module, d, g) if d else None
            if isinstance(r, Func) and r.module.name.startswith("gbasis.") and _reaches_kernel(repo, r, depth - 1, _seen):
                return True
    return False


def _is_none_scope(t, pol, names):
    """`name is not None` (taken) / `name is None` (not taken) for a parameter the property fixes to None: the path is outside its scope"""
    if isinstance(t, ast.Compare) and len(t.ops) == 1 and isinstance(t.left, ast.Name) and t.left.id in names \
            and isinstance(t.comparators[0], ast.Constant) and t.comparators[0].value is None:
        return (isinstance(t.ops[0], ast.IsNot) and pol) or (isinstance(t.ops[0], ast.Is) and not pol)
    return False


def must_pass_through(repo, R, f, allowed_shortcuts=(), depth=3, none_scope=()):
    """In `f` and the private functions it calls: every `return` value must have a call that reaches the recursion in its
    backward slice, and must not sit under a data-dependent condition other than the documented ones.  A shortcut that
    returns zeros (or anything else) without computing is reported.

    none_scope: parameters the calling property takes as None (e.g. the screening tolerance for the exactness of the overlap); a
    return that is only reached when such a parameter is given is outside the property's scope and is left to the property that
    owns the parameter.  A return whose value is computed by a private helper that never reaches the recursion (a closed form)
    cannot be decided by this rule: ANALYSIS-ERROR, not a violation."""
    seen = set()
    work = [f]
    while work:
        g = work.pop()
        if g in seen:
            continue
        seen.add(g)
        fn = g.node
        D = Defs(fn)
        pc = path_conditions(fn)
        calls_gb = []
        helper_calls = []
        for n in walk_no_nested(fn):
            if isinstance(n, ast.Call):
                d = dotted(n.func)
                r = repo.resolve_name(g.module, d, g) if d else None
                if isinstance(r, Func) and r.module.name.startswith("gbasis.integrals") and r.name.startswith("_"):
                    if _reaches_kernel(repo, r):
                        calls_gb.append((n, r))
                        work.append(r)
                    else:
                        helper_calls.append((n, r))
        rets = [n for n in walk_no_nested(fn) if isinstance(n, ast.Return) and n.value is not None]
        for r in rets:
            conds = [(t, pol) for t, pol in pc.get(id(r), ()) if not (id(t) in RAISE_GUARDS and not pol)]
            if any(_is_none_scope(t, pol, none_scope) for t, pol in _conjuncts(conds)):
                R.ok("MPT", g.site, "return " + ast.unparse(r.value)[:50] + " (only with " + "/".join(none_scope) + " given: out of scope)", nontrivial=False)
                continue
            # the documented predicate itself (taken) is an accepted reason for a shortcut, whatever else holds on that path
            documented = any(pol and isinstance(t, ast.Call) and (dotted(t.func) or "").split(".")[-1] in allowed_shortcuts for t, pol in _conjuncts(conds))
            data_conds = []
            for t, pol in conds:
                if isinstance(t, ast.Call) and (dotted(t.func) or "").split(".")[-1] in allowed_shortcuts:
                    continue
                data_conds.append(("" if pol else "not ") + ast.unparse(t))
            uses_kernel = bool(calls_gb) and any(_expr_reaches(D, r.value, n) for n, _ in calls_gb)
            if g is f or calls_gb:
                if calls_gb and not uses_kernel:
                    if documented:
                        continue
                    via_helper = [h for n, h in helper_calls if _expr_reaches(D, r.value, n)]
                    if via_helper:
                        raise AnalysisError("MPT", f"{g.qualname} returns `{ast.unparse(r.value)[:60]}` computed by {via_helper[0].name}, which does not go "
                                                   f"through the integral recursion (a closed form?): its values cannot be decided by this rule", g.where(r))
                    R.fail("MPT", g.site, "return " + ast.unparse(r.value)[:70],
                           f"{g.qualname} returns `{ast.unparse(r.value)[:60]}` without going through the integral recursion"
                           + (f" when [{' and '.join(data_conds)}]" if data_conds else "") + ": a data-dependent shortcut replaces the computed integrals",
                           where=g.where(r), expected="every return derived from the recursion kernel", found=cond_text(pc.get(id(r), ()))[:120])
                else:
                    R.ok("MPT", g.site, "return " + ast.unparse(r.value)[:50], nontrivial=bool(calls_gb))
    return len(seen)


def _conjuncts(conds):
    """path conditions with taken `a and b` tests split into their conjuncts (each then holds on the path)"""
    out = []
    for t, pol in conds:
        if pol and isinstance(t, ast.BoolOp) and isinstance(t.op, ast.And):
            out.extend((v, True) for v in t.values)
        elif not pol and isinstance(t, ast.BoolOp) and isinstance(t.op, ast.Or):
            out.extend((v, False) for v in t.values)
        else:
            out.append((t, pol))
    return out


def _expr_reaches(D, expr, call_node):
    """Is `call_node` inside `expr` or inside the definition chain of a name used by `expr`?"""
    if any(n is call_node for n in ast.walk(expr)):
        return True
    seen = set()
    work = list(D.names_in(expr))
    while work:
        nm = work.pop()
        if nm in seen:
            continue
        seen.add(nm)
        for kind, st, val, _p in D.of(nm):
            if val is None:
                continue
            if any(n is call_node for n in ast.walk(val)):
                return True
            work.extend(D.names_in(val))
    return False
