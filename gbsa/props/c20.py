"""C20 Overlap screening follows the documented cutoff and is conservative."""
import ast

import sympy as sp

from ..astutil import Defs, dotted, normal_compare, flip, walk_no_nested, calls_in
from ..flow import path_conditions, stmt_of, check_wrapper_dispatch, terminates
from ..formula import Elem, LinearSum
from ..report import AnalysisError
from .c14 import eval_through_defs


def run(repo, R):
    from .momfam import compose_state_rules as _csr
    _csr(R, repo, ['gbasis/integrals/overlap.py', 'gbasis/contractions.py', 'gbasis/spherical.py', 'gbasis/utils.py', 'gbasis/base.py', 'gbasis/base_one.py', 'gbasis/base_two_symm.py', 'gbasis/base_two_asymm.py', 'gbasis/base_four_symm.py'], "the property holds for every call, also after a shell's parameters were changed through its setters")
    R.rule("CUT", "cutoff == sqrt(-(a+b)/(a*b) * ln(tol)) with a, b the smallest exponents of shell one / two (sympy normal form)")
    R.rule("CMP", "screened <=> |coord_two - coord_one| > cutoff (strict), `None` means no screening and is decided first, bool rejected")
    R.rule("ZERO", "the screened block has the kernel's type (M_one, L_one, M_two, L_two) taken from the two shells themselves")
    R.rule("KEEP", "the unscreened result does not depend on tol_screen; the screening predicate receives (one, two, tol_screen)")
    R.rule("DISPATCH", "tol_screen is forwarded identically on all four assembly branches of overlap_integral")
    scr = repo.func("gbasis.integrals.overlap.is_integral_screened")
    ker = repo.func("gbasis.integrals.overlap.Overlap.construct_array_contraction")
    wrap = repo.func("gbasis.integrals.overlap.overlap_integral")
    for f in (scr, ker, wrap):
        R.note_function(f.qualname)
    fn = scr.node
    p1, p2, ptol = scr.params[:3]
    D = Defs(fn)
    # ---------------------------------------------------------------- CMP: returns
    # follow every path of the predicate for the three kinds of tolerance (None / a bool / a number): what is returned or raised
    def decide(test, kind):
        """truth value of a test that only looks at the kind of the tolerance, else None"""
        txt = ast.unparse(test)
        if txt in (f"{ptol} is None", f"{ptol} == None"):
            return kind == "none"
        if txt in (f"{ptol} is not None", f"{ptol} != None"):
            return kind != "none"
        if txt == f"isinstance({ptol}, bool)":
            return kind == "bool"
        if txt == f"not {ptol}":
            return kind == "none"  # for numbers: tol == 0 gives an infinite cutoff, i.e. no screening either
        if txt == ptol:
            return kind != "none"
        if isinstance(test, ast.UnaryOp) and isinstance(test.op, ast.Not):
            v = decide(test.operand, kind)
            return None if v is None else not v
        if isinstance(test, ast.BoolOp):
            vals = [decide(v, kind) for v in test.values]
            if isinstance(test.op, ast.Or):
                return True if any(v is True for v in vals) else (False if all(v is False for v in vals) else None)
            return False if any(v is False for v in vals) else (True if all(v is True for v in vals) else None)
        return None

    def follow(stmts, states, kind, out):
        for st_ in stmts:
            if not states:
                return []
            if isinstance(st_, ast.Return):
                for env in states:
                    v = st_.value
                    k = 0
                    while isinstance(v, ast.Name) and v.id in env and k < 6:
                        v = env[v.id]
                        k += 1
                    out.append(("return", st_, v, env))
                return []
            if isinstance(st_, ast.Raise):
                out.extend(("raise", st_, None, env) for env in states)
                return []
            if isinstance(st_, ast.Assign) and len(st_.targets) == 1 and isinstance(st_.targets[0], ast.Name):
                states = [dict(env, **{st_.targets[0].id: st_.value, "__used__": env.get("__used__", ()) + (st_,)}) for env in states]
                continue
            if isinstance(st_, ast.If):
                val = decide(st_.test, kind)
                branches = [st_.body if val else st_.orelse] if val is not None else [st_.body, st_.orelse]
                nxt = []
                for b in branches:
                    nxt.extend(follow(b, [dict(e) for e in states], kind, out))
                states = nxt
                continue
        return states

    outs = {}
    for kind in ("none", "bool", "num"):
        o = []
        rest = follow(fn.body, [{}], kind, o)
        if rest:
            o.append(("fall", None, None, rest[0]))
        outs[kind] = o
    # None: no screening, decided without computing anything from the tolerance
    okn = bool(outs["none"]) and all(k == "return" and isinstance(v, ast.Constant) and v.value is False for k, _s, v, _e in outs["none"])
    R.check(okn, "CMP", scr.site, "tol_screen=None -> False",
            "`tol_screen=None` must mean no screening: every path for None has to return False",
            where=scr.where(), expected=f"if {ptol} is None: return False", found=[(k, ast.unparse(v)[:40] if v is not None else None) for k, _s, v, _e in outs["none"]])
    used_none = [a for k, _s, _v, env in outs["none"] for a in env.get("__used__", ()) if ptol in {n.id for n in ast.walk(a.value) if isinstance(n, ast.Name)}]
    R.check(not used_none, "CMP", scr.site, "None test precedes use", "tol_screen is used in a computation on the path taken for None",
            where=scr.where(used_none[0]) if used_none else scr.where())
    # bool rejected
    okb = bool(outs["bool"]) and all(k == "raise" for k, _s, _v, _e in outs["bool"])
    R.check(okb, "CMP", scr.site, "bool rejected", "a bool tolerance must be rejected (True would silently mean tol=1)",
            where=scr.where(), expected=f"if isinstance({ptol}, bool): raise TypeError", found=[k for k, _s, _v, _e in outs["bool"]])
    # a number: one comparison decides
    nums = [(k, s_, v) for k, s_, v, _e in outs["num"] if not (k == "return" and isinstance(v, ast.Constant) and v.value is False
                                                              and (decide_is_zero_path(s_, fn, ptol) or implied_not_screened(s_, fn, scr.params[:3])))]
    comps = [(s_, v) for k, s_, v in nums if k == "return"]
    if [k for k, _s, _v in nums if k != "return"]:
        R.fail("CMP", scr.site, "numeric tolerance", "a numeric tolerance can end in an exception / without a result", where=scr.where())
        return "incomplete"
    consts = [(s_, v) for s_, v in comps if isinstance(v, ast.Constant)]
    for s_, v in consts:
        R.fail("CMP", scr.site, f"return {ast.unparse(v)} for a numeric tolerance",
               f"`{ast.unparse(v)}` is returned for a numeric tolerance on a path that does not compare the centre distance with the cutoff: "
               "whether a block is kept is then decided by something other than the documented rule", where=scr.where(s_),
               expected=f"only `{ptol} is None` returns False without a comparison")
    comps = [(s_, v) for s_, v in comps if not isinstance(v, ast.Constant)]
    texts = {ast.unparse(v) for _s, v in comps}
    if len(texts) != 1:
        raise AnalysisError("CMP", f"expected one screening decision for a numeric tolerance, found {sorted(texts)[:3]}", scr.where())
    final = ast.Return(value=comps[0][1])
    ast.copy_location(final, comps[0][0])
    nc = normal_compare(final.value)
    if nc is None:
        R.fail("CMP", scr.site, ast.unparse(final), "the decision is not a single comparison distance > cutoff", where=scr.where(final))
        return "incomplete"
    lhs, op, rhs = nc
    # symbols
    a_min, b_min, A, B, eps = sp.symbols("a_min b_min A B eps", positive=True)
    ea, eb = sp.symbols("exps_one exps_two", positive=True)

    def mk():
        E = Elem(scr, {ptol: eps}, rule="CUT",
                 attr_symbols={f"{p1}.exps": ea, f"{p2}.exps": eb, f"{p1}.coord": A, f"{p2}.coord": B})
        E.repo = repo
        return E

    Minf = sp.Function("Min_over")
    want_cut = sp.sqrt(-(Minf(ea) + Minf(eb)) / (Minf(ea) * Minf(eb)) * sp.log(eps))
    want_dist = sp.sqrt(LinearSum((B - A) ** 2))
    vl = eval_through_defs(mk(), D, lhs)
    vr = eval_through_defs(mk(), D, rhs)

    def eq(x, y):
        return sp.simplify(x - y) == 0

    if eq(vl, want_cut) or (not eq(vl, want_dist) and eq(vr, want_dist)):
        vl, vr, op, lhs, rhs = vr, vl, flip(op), rhs, lhs
    R.check(eq(vr, want_cut), "CUT", scr.site, "cutoff = " + ast.unparse(rhs)[:70],
            "the cutoff differs from the documented sqrt(-(a_min + b_min)/(a_min b_min) ln(tol)) with the smallest exponent of each shell",
            where=scr.where(final), expected=str(want_cut), found=str(vr))
    R.check(eq(vl, want_dist) or eq(vl, sp.sqrt(LinearSum((A - B) ** 2))), "CUT", scr.site, "distance = " + ast.unparse(lhs)[:70],
            "the compared distance is not the Euclidean distance between the two shell centres",
            where=scr.where(final), expected=str(want_dist), found=str(vl))
    R.check(op == ">", "CMP", scr.site, f"distance {op} cutoff",
            "a block is removed exactly when the centre distance exceeds the cutoff (blocks at the cutoff are kept)",
            where=scr.where(final), expected="distance > cutoff", found=f"distance {op} cutoff")
    # monotonicity in eps (derived fact): d(cutoff^2)/d eps < 0 for eps in (0,1) : -(a+b)/(a b) / eps
    a, b = sp.symbols("a b", positive=True)
    der = sp.diff(-(a + b) / (a * b) * sp.log(eps), eps)
    R.check(sp.simplify(der + (a + b) / (a * b * eps)) == 0, "CUT", scr.site, "monotone in tol",
            "derived fact d(cutoff^2)/d(tol) = -(a+b)/(a b tol) < 0 failed", detail="lowering tol never removes more blocks", nontrivial=False)

    # ---------------------------------------------------------------- kernel: ZERO / KEEP
    kfn = ker.node
    k1, k2 = ker.params[0], ker.params[1]
    ktol = "tol_screen"
    if ktol not in ker.params:
        raise AnalysisError("KEEP", "Overlap.construct_array_contraction has no tol_screen parameter", ker.where())
    scalls = calls_in(kfn, "is_integral_screened")
    pred_name = "is_integral_screened"
    if not scalls:
        # the predicate may be reached through a private wrapper of the same module that forwards its three parameters unchanged
        # (possibly through bool(...)): follow it
        for cand in walk_no_nested(kfn):
            if isinstance(cand, ast.Call) and isinstance(cand.func, ast.Name) and cand.func.id.startswith("_"):
                g = repo.resolve_name(ker.module, cand.func.id, ker)
                if hasattr(g, "node") and g.module is ker.module:
                    inner = calls_in(g.node, "is_integral_screened")
                    rets = [n_ for n_ in walk_no_nested(g.node) if isinstance(n_, ast.Return)]
                    if len(inner) == 1 and len(rets) == 1 and rets[0].value is not None:
                        v_ = rets[0].value
                        while isinstance(v_, ast.Call) and ast.unparse(v_.func) == "bool" and len(v_.args) == 1:
                            v_ = v_.args[0]
                        if v_ is inner[0] and [ast.unparse(x) for x in inner[0].args] == list(g.params[:3]) and len(g.params) == 3 and not inner[0].keywords:
                            scalls = [cand]
                            pred_name = cand.func.id
                            break
    if len(scalls) != 1:
        raise AnalysisError("KEEP", f"expected one call of is_integral_screened in the overlap kernel, found {len(scalls)}", ker.where())
    sc = scalls[0]
    R.check([ast.unparse(x) for x in sc.args] == [k1, k2, ktol] and not sc.keywords, "KEEP", ker.site, ast.unparse(sc),
            "the screening predicate must receive (shell one, shell two, tolerance) in this order", where=ker.where(sc),
            expected=f"{pred_name}({k1}, {k2}, {ktol})", found=ast.unparse(sc))
    st = stmt_of(kfn, sc)
    # the test may be the call itself, `tol is not None and call` (the predicate is False for None anyway) or `call or <other reason
    # for a block of zeros>` as long as the other reasons do not involve the tolerance (a block that is zero with and without
    # screening: the operator's own property)
    ok_form = False
    if isinstance(st, ast.If):
        t_ = st.test
        if t_ is sc:
            ok_form = True
        elif isinstance(t_, ast.BoolOp) and isinstance(t_.op, ast.And) and sc in t_.values:
            others = [v_ for v_ in t_.values if v_ is not sc]
            ok_form = all(ast.unparse(v_) in (f"{ktol} is not None", ktol) for v_ in others)
            if not ok_form:
                R.fail("KEEP", ker.site, ast.unparse(t_)[:90], "the screened block is only zeroed under an additional condition: blocks beyond the cutoff "
                       "are then computed although the tolerance asks for zeros", where=ker.where(st), expected=f"if {ast.unparse(sc)}:", found=ast.unparse(t_)[:100])
                ok_form = True
        elif isinstance(t_, ast.BoolOp) and isinstance(t_.op, ast.Or) and sc in t_.values:
            others = [v_ for v_ in t_.values if v_ is not sc]
            ok_form = all(ktol not in {n_.id for n_ in ast.walk(v_) if isinstance(n_, ast.Name)} for v_ in others)
    if not ok_form:
        raise AnalysisError("ZERO", "screening call is not the test of an if statement", ker.where(sc))
    zr = [n for n in st.body if isinstance(n, ast.Return)]
    local = {}
    for b in st.body[:-1]:
        if isinstance(b, ast.Assign) and len(b.targets) == 1 and isinstance(b.targets[0], ast.Name):
            local[b.targets[0].id] = b.value
        elif not (isinstance(b, ast.Expr) and isinstance(b.value, ast.Constant)):
            raise AnalysisError("ZERO", "screened branch is not `[temporaries;] return np.zeros(shape)`", ker.where(b))
    if len(zr) != 1 or st.body[-1] is not zr[0]:
        raise AnalysisError("ZERO", "screened branch does not end in a single return", ker.where(st))

    def res(n):
        k = 0
        while isinstance(n, ast.Name) and n.id in local and k < 5:
            n = local[n.id]
            k += 1
        return n
    z = res(zr[0].value)
    if isinstance(z, ast.Call) and z.args:
        z = ast.Call(func=z.func, args=[res(z.args[0])] + list(z.args[1:]), keywords=z.keywords)
        ast.copy_location(z, zr[0].value)
        ast.fix_missing_locations(z)
    okz = isinstance(z, ast.Call) and dotted(z.func) in ("np.zeros", "numpy.zeros") and z.args and isinstance(z.args[0], ast.Tuple) \
        and len(z.args[0].elts) == 4
    if not okz:
        R.fail("ZERO", ker.site, ast.unparse(z)[:80], "the screened block is not np.zeros((M1, L1, M2, L2))", where=ker.where(z))
    else:
        dims = [ast.unparse(x) for x in z.args[0].elts]

        def seg(s):
            return {f"{s}.num_seg_cont", f"{s}.coeffs.shape[1]"}

        def cart(s):
            return {f"len({s}.norm_prim_cart)", f"{s}.num_cart", f"len({s}.angmom_components_cart)", f"{s}.norm_prim_cart.shape[0]",
                    f"{s}.angmom_components_cart.shape[0]"}

        want = [seg(k1), cart(k1), seg(k2), cart(k2)]
        for i, (dm, w) in enumerate(zip(dims, want)):
            R.check(dm in w, "ZERO", ker.site, f"zero block axis {i} = {dm}",
                    f"axis {i} of the screened block must be the {'segment' if i % 2 == 0 else 'Cartesian component'} count of shell "
                    f"{'one' if i < 2 else 'two'}; otherwise assembly of a basis with differently sized shells breaks or mis-places blocks",
                    where=ker.where(z), expected=sorted(w)[0], found=dm)
        R.check(len(z.args) == 1 and not [k for k in z.keywords if k.arg == "dtype" and "float" not in ast.unparse(k.value)],
                "ZERO", ker.site, "zero block dtype", "the zero block must be a float array", where=ker.where(z))
    # the computed return does not depend on tol_screen
    others = [n for n in walk_no_nested(kfn) if isinstance(n, ast.Return) and n is not zr[0]]
    KD = Defs(kfn)
    for r in others:
        deps = KD.slice_names(r.value)
        R.check(ktol not in deps, "KEEP", ker.site, "computed block independent of tol_screen",
                "the value of a kept block depends on the tolerance", where=ker.where(r), expected="no dependence", found=sorted(deps))
    # screened check dominates the compute: the If comes before the computed return at top level
    # (a return of a literal block of zeros elsewhere is the same with and without screening: whether that shortcut is right is the
    # operator's own property, not this one)
    def _zero_block(v):
        v = res(v)
        return isinstance(v, ast.Call) and dotted(v.func) in ("np.zeros", "numpy.zeros", "np.zeros_like", "numpy.zeros_like")
    computing = [r for r in others if not _zero_block(r.value)]
    R.check(all(st.lineno < r.lineno for r in computing) and st in kfn.body, "KEEP", ker.site, "screening decided before computing",
            "the screening test does not dominate the computation", where=ker.where(st))
    # ---------------------------------------------------------------- wrapper dispatch
    check_wrapper_dispatch(repo, wrap, R, "DISPATCH")
    from ..flow import check_default_is
    for f_ in (wrap, ker):
        check_default_is(f_, R, "DISPATCH", "tol_screen", None, "no tolerance must mean no screening - also for a caller that does not pass one")
    # the tolerance reaches the predicate as given: no function on the way replaces it (e.g. switches screening off for a
    # whole basis on the strength of a global test)
    from ..formula import rebound_inputs, classify_rebinding
    for g, tolname in ((wrap, "tol_screen"), (ker, ktol), (scr, ptol)):
        if tolname not in g.params:
            continue
        rebound, syms = rebound_inputs(g, {tolname}, rule="KEEP")
        for name, val, st in rebound:
            kind = classify_rebinding(val, syms[name])
            if kind == "unknown":
                raise AnalysisError("KEEP", f"`{ast.unparse(st)[:80]}` rebinds the tolerance to a value that is not modelled", g.where(st))
            R.check(kind == "same", "KEEP", g.site, "tolerance unmodified: " + ast.unparse(st)[:60],
                    f"`{name}` is replaced on some path before the pairwise screening decision: which blocks are zeroed would no longer "
                    "be decided per shell pair by the given tolerance", where=g.where(st), expected=f"{name} passed on as given", found=str(val)[:80])
        R.ok("KEEP", g.site, f"{tolname} reaches the next stage as given")
    R.assumptions += ["assembly forwards **kwargs to the kernel on every path (decided under C09, rule A1)",
                      "kept blocks depend only on their own two shells (C11, rule G1)"]
    return ("FORMULA + FLOW on is_integral_screened, Overlap.construct_array_contraction and overlap_integral: the cutoff expression "
            "equals the documented one as a sympy identity (min exponents of the right shells, natural log), the comparison is the "
            "strict `distance > cutoff` in normal form, None is decided first, bool rejected; the zero block's four axes are the "
            "segment/component counts of the respective shells; kept blocks do not depend on the tolerance; tol_screen is forwarded "
            "identically on the four assembly branches. Not decided: the magnitude bound on removed elements (numerical).")


def decide_is_zero_path(ret_stmt, fn, ptol):
    """`if not tol_screen: return False` also catches the number 0: that path returns False legitimately"""
    for st in ast.walk(fn):
        if isinstance(st, ast.If) and ret_stmt in ast.walk(st) and ast.unparse(st.test) in (f"not {ptol}", f"{ptol} is None or {ptol} == 0"):
            return True
    return False


def implied_not_screened(ret_stmt, fn, params):
    """Is `return False` taken only where the documented comparison distance > cutoff is False anyway?  Recognised reasons (each must
    hold on the whole path): the tolerance is zero or negative (cutoff infinite / not a number), a quantity computed from
    log(tolerance) is infinite or not finite, or the two centres are exactly equal / the two shells are one object (distance zero,
    and no cutoff is negative)."""
    p1, p2, ptol = params
    pc = path_conditions(fn)
    conds = []
    for t, pol in pc.get(id(ret_stmt), ()):
        if pol and isinstance(t, ast.BoolOp) and isinstance(t.op, ast.And):
            conds.extend((v, True) for v in t.values)
        elif not pol and isinstance(t, ast.BoolOp) and isinstance(t.op, ast.Or):
            conds.extend((v, False) for v in t.values)
        else:
            conds.append((t, pol))
    D = Defs(fn)

    def from_log_tol(name):
        seen, work = set(), [name]
        while work:
            nm = work.pop()
            if nm in seen:
                continue
            seen.add(nm)
            for _k, _st, val, _p in D.of(nm):
                if val is None:
                    continue
                for c_ in ast.walk(val):
                    if isinstance(c_, ast.Call) and (dotted(c_.func) or "").split(".")[-1] in ("log", "log10", "log2") and c_.args \
                            and ptol in {n.id for n in ast.walk(c_.args[0]) if isinstance(n, ast.Name)}:
                        return True
                work.extend(D.names_in(val))
        return False

    def coords(e):
        return isinstance(e, ast.Attribute) and e.attr == "coord" and isinstance(e.value, ast.Name) and e.value.id in (p1, p2)

    for t, pol in conds:
        txt = ast.unparse(t)
        if pol and txt in (f"{ptol} == 0", f"{ptol} == 0.0", f"{ptol} <= 0", f"{ptol} <= 0.0", f"0 == {ptol}", f"0 >= {ptol}", f"{ptol} < 0"):
            return True
        if not pol and txt in (f"{ptol}", f"{ptol} > 0", f"{ptol} != 0", f"0 < {ptol}"):
            return True
        if isinstance(t, ast.Call) and len(t.args) == 1 and isinstance(t.args[0], ast.Name) and from_log_tol(t.args[0].id):
            short = (dotted(t.func) or "").split(".")[-1]
            if (pol and short in ("isinf", "isposinf", "isnan")) or (not pol and short == "isfinite"):
                return True
        if pol and isinstance(t, ast.Compare) and len(t.ops) == 1 and isinstance(t.ops[0], ast.Eq) and isinstance(t.left, ast.Name) and from_log_tol(t.left.id) \
                and ast.unparse(t.comparators[0]) in ("np.inf", "numpy.inf", "math.inf", "float('inf')", 'float("inf")'):
            return True
        if pol and isinstance(t, ast.Compare) and len(t.ops) == 1 and isinstance(t.ops[0], ast.Is) and {ast.unparse(t.left), ast.unparse(t.comparators[0])} == {p1, p2}:
            return True
        if pol and isinstance(t, ast.Call) and (dotted(t.func) or "") in ("np.array_equal", "numpy.array_equal") and len(t.args) == 2 and all(coords(a) for a in t.args) \
                and {t.args[0].value.id, t.args[1].value.id} == {p1, p2}:
            return True
        if pol and isinstance(t, ast.Call) and ((dotted(t.func) or "") in ("np.all", "numpy.all", "all") and len(t.args) == 1 or
                                                (isinstance(t.func, ast.Attribute) and t.func.attr == "all" and not t.args)):
            inner = t.args[0] if t.args else t.func.value
            if isinstance(inner, ast.Compare) and len(inner.ops) == 1 and isinstance(inner.ops[0], ast.Eq) and coords(inner.left) and coords(inner.comparators[0]) \
                    and {inner.left.value.id, inner.comparators[0].value.id} == {p1, p2}:
                return True
    return False


def _in_guard(fn, name_node):
    """Is this use of the tolerance inside an isinstance(...)/`is None` test or an error message?"""
    for st in fn.body:
        if isinstance(st, ast.If) and any(n is name_node for n in ast.walk(st)):
            if any(n is name_node for n in ast.walk(st.test)):
                return True
            if terminates(st.body) and any(n is name_node for b in st.body for n in ast.walk(b)):
                return True
    return False


def screen_exprs(repo):
    """(distance expression, cutoff expression, operator) of is_integral_screened in the symbols exps_one, exps_two, A, B, eps."""
    scr = repo.func("gbasis.integrals.overlap.is_integral_screened")
    fn = scr.node
    p1, p2, ptol = scr.params[:3]
    D = Defs(fn)
    rets = [n for n in walk_no_nested(fn) if isinstance(n, ast.Return) and not (isinstance(n.value, ast.Constant))]
    if len(rets) != 1:
        raise AnalysisError("CMP", "computed return of is_integral_screened not found", scr.where())
    val = rets[0].value
    k = 0
    while isinstance(val, ast.Name) and k < 6:
        # a single-exit form `screened = ...; return screened`: the non-constant assignment is the decision
        cands = [st.value for st in ast.walk(fn) if isinstance(st, ast.Assign) and len(st.targets) == 1 and isinstance(st.targets[0], ast.Name)
                 and st.targets[0].id == val.id and not isinstance(st.value, ast.Constant)]
        if len(cands) != 1:
            break
        val = cands[0]
        k += 1
    rets = [ast.copy_location(ast.Return(value=val), rets[0])]
    nc = normal_compare(rets[0].value)
    if nc is None:
        raise AnalysisError("CMP", "screening decision is not a comparison", scr.where(rets[0]))
    lhs, op, rhs = nc
    A, B, eps = sp.symbols("A B eps", positive=True)
    ea, eb = sp.symbols("exps_one exps_two", positive=True)

    def mk():
        E_ = Elem(scr, {ptol: eps}, rule="CUT", attr_symbols={f"{p1}.exps": ea, f"{p2}.exps": eb, f"{p1}.coord": A, f"{p2}.coord": B})
        E_.repo = repo
        return E_
    return eval_through_defs(mk(), D, lhs), eval_through_defs(mk(), D, rhs), op, (ea, eb, A, B)
