"""C19 Calls are pure: arguments, shells and global numerical state are never changed.

Rules E1-E5 of DESIGN.md 2.3 over every function of gbasis/ except libcint.py.
"""
import ast
import os

from ..effects import Effects, MEMO_DECORATORS
from ..model import Repo, Func, EXCLUDED
from ..report import AnalysisError, VERIF

BASES = [
    "gbasis.base_one.BaseOneIndex",
    "gbasis.base_two_symm.BaseTwoIndexSymmetric",
    "gbasis.base_two_asymm.BaseTwoIndexAsymmetric",
    "gbasis.base_four_symm.BaseFourIndexSymmetric",
]

# methods that are the documented mutators of their own object (C19: "parameter updates followed
# by renormalisation"); they may mutate `self` and nothing else.
SELF_MUTATORS = {
    "__init__": "constructors initialise their own object",
    "assign_norm_cont": "documented renormalisation of the shell itself",
}


def is_public_surface(f):
    if f.module.name in EXCLUDED:
        return False
    if f.outer is not None and f.cls is None:
        return False
    if f.cls is not None:
        if f.cls.name.startswith("_"):
            return False
        return not f.name.startswith("_") or f.name in ("__init__", "__call__")
    return not f.name.startswith("_")


def rule_e1(eff, R, strict_counts=True):
    """No public function mutates memory reachable from one of its parameters."""
    n_public = 0
    groups = {}  # (origin function, statement text) -> [(public function, parameter, event)]
    for f in eff.funcs:
        if not is_public_surface(f):
            continue
        n_public += 1
        R.note_function(f.qualname)
        s = eff.summ[f]
        bad = []
        for root, ev in sorted(s.mutates.items()):
            if not root.startswith("P:"):
                continue
            p = root[2:]
            if p in ("self", "self.*") and f.cls is not None and (f.name in SELF_MUTATORS or f.kind == "setter"):
                # a setter / initialiser may (re)bind fields of its own object; writing INTO an array the object already holds is
                # different: the constructor keeps the caller's arrays by reference, so that write lands in the caller's (and every
                # sibling shell's) memory
                if ev.kind in ("attribute-store", "aug-assign-attr", "del-attr") or ev.origin[0] is not f:
                    continue
            bad.append((p, ev))
        if bad:
            for p, ev in bad:
                groups.setdefault((ev.origin[0], ev.text), []).append((f, p, ev))
        else:
            R.ok("E1", f.site, "mutate-set(params)=={}", detail={"params": f.params},
                 nontrivial=bool(f.params))
    found = []
    for (of, text), items in sorted(groups.items(), key=lambda kv: (kv[0][0].qualname, kv[0][1])):
        ev = items[0][2]
        entries = sorted({f"{f.qualname}({p.split('.')[0]})" for f, p, _ in items})
        R.fail("E1", of.site, text,
               f"statement `{text}` ({ev.kind if ev.origin[0] is ev.func else 'in-place write'}) in {of.qualname} writes into "
               f"memory shared with an argument of {len(entries)} public function(s): " + ", ".join(entries[:6])
               + (" ..." if len(entries) > 6 else ""),
               where=ev.where, expected="empty mutate-set for every parameter of every public function",
               found=entries[:12])
        found.append((of, text, entries))
    return n_public, found


def rule_e2(repo, eff, R):
    """Every construct_array_contraction override returns a fresh array (the base classes do
    `block *= ...` on it)."""
    n = 0
    found = []
    for b in BASES:
        base = repo.cls(b)
        for c, g in repo.concrete_overrides(base, "construct_array_contraction"):
            if c.module.name in EXCLUDED or g.module.name in EXCLUDED:
                continue
            n += 1
            s = eff.summ[g]
            shared = sorted(r for r in s.returns.d)
            site = f"{c.module.name[len('gbasis.'):]}.{c.name}.construct_array_contraction"
            if shared:
                R.fail("E2", site, "return aliases " + ",".join(shared),
                       f"{g.qualname} (used as {c.name}.construct_array_contraction) may return memory shared "
                       f"with {shared}; the assembly routines multiply the returned block in place",
                       where=g.where(), expected="Fresh return value", found=f"may alias {shared}")
                found.append((c, g, shared))
            else:
                R.ok("E2", site, "returns Fresh", detail={"kernel": g.qualname})
    return n, found


def rule_e3(eff, R):
    """No function stores to module/class state, declares global/nonlocal, memoises, or mutates a
    mutable default / module-level object / closure variable."""
    n = 0
    found = []
    for f in eff.funcs:
        s = eff.summ[f]
        n += 1
        probs = []
        for node, text in s.global_stores:
            probs.append((node, f"stores to module/class state: `{text}`"))
        for root, ev in s.mutates.items():
            if root.startswith("G:") or root.startswith("F:"):
                if ev.origin[0] is f:
                    probs.append((ev.origin[1], f"mutates {'module-level object' if root[0]=='G' else 'closure variable'} "
                                                f"{root[2:]}: `{ev.text}`"))
        for d in f.node.decorator_list:
            t = ast.unparse(d.func if isinstance(d, ast.Call) else d)
            if t in MEMO_DECORATORS:
                probs.append((d, f"memoising decorator @{t}"))
        a = f.node.args
        for p, d in list(zip([x.arg for x in (a.posonlyargs + a.args)][-len(a.defaults):] if a.defaults else [], a.defaults)) + \
                [(k.arg, d) for k, d in zip(a.kwonlyargs, a.kw_defaults) if d is not None]:
            if isinstance(d, (ast.List, ast.Dict, ast.Set, ast.Call)) and ("P:" + p) in s.mutates:
                probs.append((d, f"mutable default of `{p}` is mutated"))
        for node, msg in probs:
            R.fail("E3", f.site, ast.unparse(node).split("\n")[0], f"{f.qualname} {msg}", where=f.where(node),
                   expected="no writes to state that outlives the call")
            found.append((f, node, msg))
        if not probs:
            R.ok("E3", f.site, "no global/class/closure stores", nontrivial=False)
    return n, found


def _stmt_path(fn_node, target):
    """Return the chain of (block-owner-stmt, field, index) leading to the statement containing target."""
    path = []

    def visit(stmts, owner, field):
        for i, st in enumerate(stmts):
            if any(n is target for n in ast.walk(st)):
                path.append((owner, field, i, stmts))
                for fld in ("body", "orelse", "finalbody"):
                    sub = getattr(st, fld, None)
                    if isinstance(sub, list) and sub and isinstance(sub[0], ast.stmt):
                        if visit(sub, st, fld):
                            return True
                for h in getattr(st, "handlers", []):
                    if visit(h.body, st, "handler"):
                        return True
                return True
        return False

    visit(fn_node.body, fn_node, "body")
    return path


def _calls_named(stmts, short):
    for st in stmts:
        for n in ast.walk(st):
            if isinstance(n, ast.Call) and ast.unparse(n.func).split(".")[-1] == short:
                return True
    return False


def rule_e4(eff, R):
    """Every change of process-wide numerical state is a context manager or is restored in a
    `finally` that covers everything executed after the change."""
    n = 0
    found = []
    for f in eff.funcs:
        s = eff.summ[f]
        for call, full in s.state_calls:
            short = full.split(" ")[0].split(".")[-1]
            path = _stmt_path(f.node, call)
            ok = False
            how = "unpaired"
            # (a) restore call inside a finalbody -> it is the restoring half of a pair
            if any(fld == "finalbody" for _o, fld, _i, _s in path):
                ok, how = True, "restoring call in finally"
            # (b) inside try-body whose finally restores
            for owner, fld, _i, _s in path:
                if isinstance(owner, ast.Try) and fld == "body" and _calls_named(owner.finalbody, short):
                    ok, how = True, "inside try with restoring finally"
            # (c) immediately followed by try/finally restoring it
            if not ok and path:
                owner, fld, i, stmts = path[-1]
                if i + 1 < len(stmts) and isinstance(stmts[i + 1], ast.Try) and _calls_named(stmts[i + 1].finalbody, short):
                    ok, how = True, "followed by try/finally restoring it"
            n += 1
            if ok:
                R.ok("E4", f.site, ast.unparse(call), detail=how)
            else:
                R.fail("E4", f.site, ast.unparse(call),
                       f"{f.qualname} changes process-wide state with `{ast.unparse(call)}` and no `finally`/context "
                       f"manager restores it on the exceptional exits between the change and its restore",
                       where=f.where(call), expected="`with np.errstate(...)` or try/finally pairing", found=how)
                found.append((f, call))
        # context-manager uses are counted as discharged obligations too
        for n2 in ast.walk(f.node):
            if isinstance(n2, ast.With):
                for item in n2.items:
                    t = ast.unparse(item.context_expr)
                    if any(t.startswith(p) for p in ("np.errstate", "numpy.errstate", "warnings.catch_warnings", "np.printoptions")):
                        n += 1
                        R.ok("E4", f.site, t, detail="context manager: restored on every exit")
    return n, found


def rule_e5(repo, eff, R):
    """A shell is normalised from its own, already stored parameters: __init__ stores all four
    parameters before the call that computes norm_cont, and the computation never reads norm_cont."""
    shell = repo.cls("gbasis.contractions.GeneralizedContractionShell")
    init = shell.lookup("__init__")
    if not isinstance(init, Func):
        raise AnalysisError("E5", "GeneralizedContractionShell.__init__ not found")
    needed = {"angmom", "coord", "coeffs", "exps"}
    stored = set()
    seen_call = False
    ok = False
    for st in init.node.body:
        if isinstance(st, ast.Assign) and len(st.targets) == 1 and isinstance(st.targets[0], ast.Attribute) \
                and isinstance(st.targets[0].value, ast.Name) and st.targets[0].value.id == "self":
            stored.add(st.targets[0].attr.lstrip("_"))
        for n in ast.walk(st):
            if isinstance(n, ast.Call) and isinstance(n.func, ast.Attribute) and n.func.attr == "assign_norm_cont":
                seen_call = True
                ok = needed <= stored
                missing = sorted(needed - stored)
        if seen_call:
            break
    if not seen_call:
        raise AnalysisError("E5", "call of assign_norm_cont in __init__ not found", init.where())
    R.check(ok, "E5", init.site, "stores before assign_norm_cont()",
            f"__init__ computes the contraction norm before storing {missing if not ok else ''}",
            where=init.where(), expected=sorted(needed), found=sorted(stored & needed))
    # the norm computation must not read the (stale) norm_cont
    anc = shell.lookup("assign_norm_cont")
    seen = set()
    stack = [anc]
    reads = []
    while stack:
        g = stack.pop()
        if g in seen or g not in eff.summ:
            continue
        seen.add(g)
        for n in ast.walk(g.node):
            if isinstance(n, ast.Attribute) and n.attr == "norm_cont" and isinstance(n.ctx, ast.Load):
                # reading it back right after storing it inside assign_norm_cont itself is fine
                if g is anc:
                    continue
                reads.append((g, n))
        for call, res in eff.call_edges.get(g, []):
            if res[0] in ("gbasis", "gbasis-or-method"):
                for h in res[1]:
                    # by-name candidates that are unrelated classes' methods are not followed
                    if res[0] == "gbasis-or-method":
                        continue
                    stack.append(h)
        # shell properties read by the kernel
        for attr in eff.summ[g].reads_attrs:
            for h in eff.by_method.get(attr, []):
                if h.kind == "property" and h.cls is not None and (h.cls is shell or shell in h.cls.mro()):
                    stack.append(h)
    R.check(not reads, "E5", anc.site, "norm computation independent of norm_cont",
            "the kernel used to renormalise a shell reads norm_cont: " + ", ".join(f"{g.qualname}:{g.where(n)}" for g, n in reads),
            where=anc.where(), expected="no read of norm_cont in the call tree of assign_norm_cont",
            detail={"functions_followed": sorted(x.qualname for x in seen)})
    return len(seen)


def canaries(R):
    fx = Repo(os.path.join(VERIF, "fixtures", "canary"), package="fxpkg")
    eff = Effects(fx)

    class Dummy:
        """collects rule outcomes on the fixture without touching the real run's counters"""
        def __init__(self):
            self.fails = []
        def ok(self, *a, **k):
            pass
        def fail(self, rule, site, construct, message, **k):
            self.fails.append((rule, site))
        def check(self, cond, rule, site, construct, message, **k):
            if not cond:
                self.fails.append((rule, site))
            return cond
        def note_function(self, q):
            pass

    d = Dummy()
    _n, e1found = rule_e1(eff, d)
    e1 = {e.split("(")[0] for _of, _t, entries in e1found for e in entries}
    R.canary("E1", {"fxpkg.bad_effects.e1_mutates_param_through_view", "fxpkg.bad_effects.e1_mutates_param_via_helper",
                    "fxpkg.bad_effects.e1_pops_param"} <= e1, "in-place update through a view / via helper / pop on a parameter")
    R.canary("E1-neg", not ({"fxpkg.bad_effects.ok_rebinds_then_updates", "fxpkg.bad_effects.ok_local_buffer"} & e1),
             "rebinding before the update and local buffers are not reported")
    # E2 on the fixture kernel
    k = fx.func("fxpkg.bad_effects.Kernel.construct_array_contraction")
    R.canary("E2", bool(eff.summ[k].returns.d), "kernel returning a view of contractions_one.coeffs")
    d = Dummy()
    rule_e3(eff, d)
    e3 = {s for r, s in d.fails if r == "E3"}
    R.canary("E3", {"fxpkg.bad_effects.e3_module_cache", "fxpkg.bad_effects.e3_global_statement"} <= e3,
             "module-level cache store / global statement")
    d = Dummy()
    rule_e4(eff, d)
    e4 = {s for r, s in d.fails if r == "E4"}
    R.canary("E4", "fxpkg.bad_effects.e4_unpaired_seterr" in e4, "np.seterr without finally")
    R.canary("E4-neg", not ({"fxpkg.bad_effects.ok_errstate_context", "fxpkg.bad_effects.ok_seterr_finally"} & e4),
             "np.errstate context manager and try/finally pairing are accepted")


def run(repo, R):
    R.rule("E1", "no public function mutates memory reachable from a parameter (flow-sensitive alias analysis + "
                 "interprocedural mutate-summaries to a fixpoint)")
    R.rule("E2", "every construct_array_contraction override returns a Fresh array (assembly multiplies it in place)")
    R.rule("E3", "no function writes module/class/closure state, uses global/nonlocal, a memoising decorator or a mutated mutable default")
    R.rule("E4", "every change of process-wide numerical state is a context manager or restored in a finally")
    R.rule("E5", "a shell is normalised from its own stored parameters; the norm kernel never reads norm_cont")
    canaries(R)
    eff = Effects(repo)
    if eff.unclassified:
        f, st = eff.unclassified[0]
        raise AnalysisError("E1", f"cannot classify `{ast.unparse(st)}` as scalar rebinding or array update", f.where(st))
    if eff.unknown_calls:
        f, e = eff.unknown_calls[0]
        raise AnalysisError("EFFECTS", f"unresolved call `{ast.unparse(e)[:80]}`", f.where(e))
    n_pub, _ = rule_e1(eff, R)
    n_over, _ = rule_e2(repo, eff, R)
    n_fun, _ = rule_e3(eff, R)
    n_state, _ = rule_e4(eff, R)
    n_e5 = rule_e5(repo, eff, R)
    inplace_total = sum(s.inplace_total for s in eff.summ.values())
    inplace_local = sum(s.inplace_local for s in eff.summ.values())
    R.extra.update({
        "public_functions": n_pub,
        "functions_with_summaries": n_fun,
        "kernel_overrides_classified": n_over,
        "inplace_statements": inplace_total,
        "inplace_statements_local": inplace_local,
        "state_changing_sites": n_state,
        "excluded_modules": EXCLUDED,
    })
    R.floor("E1", n_pub, 30, "public functions/methods analysed")
    R.floor("E2", n_over, 10, "construct_array_contraction overrides")
    R.floor("E1", inplace_local, 30, "in-place statements classified as local")
    R.floor("E4", n_state, 1, "global numerical state sites (np.errstate in electrostatic_potential)")
    R.assumptions += [
        "numpy/python API table in gbsa/effects.py: which calls return views, which mutate (DESIGN 2.3)",
        "callables passed as arguments (boys_func) do not mutate their arguments; their implementations are analysed on their own",
        "gbasis/integrals/libcint.py is outside every obligation",
        "determinism of numpy: equal inputs and no hidden state give equal outputs",
    ]
    return ("EFFECTS analysis (alias/ownership lattice, flow-sensitive per function, summaries iterated to a fixpoint over the "
            "call graph with class-hierarchy resolution of self./cls./by-name method calls). Rules: E1 empty mutate-set for every "
            "parameter of every public function and method (allow-list: __init__, property setters and assign_norm_cont on "
            "`self`); E2 the 10 construct_array_contraction kernels return Fresh arrays; E3 no stores to state that outlives a "
            "call; E4 error-state changes are context managers or finally-paired; E5 normalisation uses stored parameters and "
            "never the stale norm_cont. Purity is compositional, so these per-function facts cover every call sequence. "
            "Decided: the structural clauses (no mutation, no global state, fresh returns). Not decided: bit-for-bit equality "
            "of repeated results (follows from these plus numpy determinism, which is trusted).")
