"""Run every public integral kernel once through the label-carrying evaluator (shared by C12, C13, C16)."""
import ast

import sympy as sp

from ..kernels import run_public, run_public_forks
from ..stencil import SV, Lab, ClsSym, LabelMismatch, c
from ..stencil_spec import Cm, Cp
from ..report import AnalysisError
from .c01 import OVERLAP, screened_if
from .c03 import PC, swap_handler, q
from .c04 import ERI, branch_handler
from .c07 import MOMENT, ORD
from .c02 import KIN
from .c08 import MOM, ANG

RUNS = [
    ("overlap", OVERLAP, None, lambda: screened_if),
    ("moment", MOMENT, lambda: {"moment_coord": SV(Cm(c), [Lab("xyz")]), "moment_orders": SV(ORD(c), [Lab(("dim", "Ord")), Lab("xyz")])}, None),
    ("kinetic", KIN, None, None),
    ("momentum", MOM, None, None),
    ("angular_momentum", ANG, None, None),
    ("point_charge", PC, lambda: {"cls": ClsSym(), "points_coords": SV(Cp(c), [Lab(("dim", "N")), Lab("xyz")]), "points_charge": SV(q, [Lab(("dim", "N"))])},
     lambda: swap_handler(False)),
    ("point_charge[swapped]", PC, lambda: {"cls": ClsSym(), "points_coords": SV(Cp(c), [Lab(("dim", "N")), Lab("xyz")]), "points_charge": SV(q, [Lab(("dim", "N"))])},
     lambda: swap_handler(True)),
    ("electron_repulsion", ERI, lambda: {"cls": ClsSym()}, lambda: branch_handler(False)),
    ("electron_repulsion[all-s]", ERI, lambda: {"cls": ClsSym()}, lambda: branch_handler(True)),
]



def _lm_text(lm):
    return lm.msg if getattr(lm, "plain", False) else "axes of different provenance are combined: " + lm.msg

def run_all(repo, R, rule="AXTYPE-K", relevant=None, names=None):
    """-> list of (name, func, extractor or None).  Ill-typed kernels are reported under `rule`; with `relevant` (a predicate on the
    bases of the axes that do not fit) only the mismatches the calling property is about - the others belong to the property of the
    operator itself and are left to its check."""
    out = []
    for name, qual, envf, ifh in RUNS:
        if names is not None and name.split("[")[0] not in names:
            continue  # an operator the calling property does not speak about
        f = repo.func(qual)
        R.note_function(f.qualname)
        for choices, ex in run_public_forks(repo, f, envf, ifh):
            tag = name + ("".join(f"[{k}={'T' if v else 'F'}]" for k, v in sorted(choices.items())) if choices else "")
            if isinstance(ex, LabelMismatch):
                lm = ex
                if getattr(lm, "value_only", False):
                    # a defect of the computed values (not of the axes / layout this property is about): left to the operator's own check
                    R.extra.setdefault("mismatches_left_to_the_operator_checks", []).append(f"[{name}] {lm.msg}"[:200])
                    out.append((name, f, None))
                    continue
                if relevant is not None and lm.involved is not None and not relevant([b for b in lm.involved if b is not None]):
                    R.extra.setdefault("mismatches_left_to_the_operator_checks", []).append(f"[{name}] {lm.msg}"[:200])
                    out.append((name, f, None))
                    continue
                g = f
                for cand in repo.all_functions():
                    if any(n is lm.node for n in ast.walk(cand.node)):
                        g = cand
                R.fail(rule, g.site, ast.unparse(lm.node)[:100], f"[{tag}] {_lm_text(lm)}", where=g.where(lm.node))
                out.append((tag, f, None))
                continue
            for sub in ex.all_extractors():
                R.note_function(sub.func.qualname)
            out.append((tag, f, ex))
    return out
