"""C13 Contractions behave as the linear combinations they denote (rules LIN, KSEP, renormalisation, flattening)."""
import ast

import sympy as sp

from ..kernels import contraction_normal_form
from ..stencil import Contract, Stack
from ..stencil_spec import Finding, check_one_elec
from ..stencil_eri import check_two_elec
from ..report import AnalysisError
from .allkernels import run_all
from .momfam import report, sub_extractor
from .c08 import split_numeric
from .c04 import check_contraction, peel
from .c01 import norm_cont_rule


def run(repo, R):
    R.rule("PITFALL", "no result buffer typed after an input, no real cast of a transformation, no unbuffered accumulation / first-occurrence scatter through np.unique")
    from ..pitfalls import report as _pitfalls
    _pitfalls(repo, R, ['gbasis.contractions', 'gbasis.integrals', 'gbasis.evals._deriv'], kinds=('ACCUM',))
    R.rule("LIN", "in every kernel each coefficient matrix is used exactly once, as tensordot over its own primitive axis, so blocks are multilinear "
                  "in the coefficients and the segment axis is the free column index")
    R.rule("KSEP", "a primitive axis is only broadcast and finally contracted (or fully reduced by min/max): never indexed, sliced or partially reduced")
    R.rule("NORMCONT", "contraction norm = (diagonal of the shell's own overlap block)^(-1/2): degree-0 homogeneity in each coefficient column")
    R.rule("A2/A3", "assembly multiplies the contraction norm once per index before any spherical transform")
    R.rule("A4", "segment-major flattening of each shell block")
    R.rule("AXTYPE-K", "kernels well-typed in the axis-provenance domain")
    R.rule("K", "the segment (column) axis of every shell is the free index directly before that shell's component axis")
    # C13 is about the primitive (K) and segment (M) axes: a mismatch between other axes (recursion-table windows, components) changes
    # the values of that operator - its own property - but not how contractions combine
    runs = run_all(repo, R, relevant=lambda inv: any(isinstance(b, tuple) and len(b) >= 2 and b[0] == "dim" and b[1] in ("K", "M") for b in inv))
    findings = []
    n_lin = 0
    for name, f, ex in runs:
        if ex is None:
            continue
        st, ret = ex.returns[-1]
        from ..kernels import K_labels
        nsh = 4 if name.startswith("electron") else 2
        labs = [l.base for l in (ret.labels or [])][: 2 * nsh]
        wantk = K_labels(nsh)
        okk = len(labs) == 2 * nsh and all(g == w or (g is None and w[1] == "L") for g, w in zip(labs, wantk))
        R.check(okk, "K", f.site, f"[{name}] segment axes in place", f"[{name}] the kernel returns axes {ret.labels}: the column (segment) index of each shell must sit "
                "directly before that shell's component index, shells in argument order - otherwise a generalized shell is not the union of its segmented columns",
                where=f.where(), expected=str(wantk), found=str(ret.labels))
        before = len(findings)
        if name in ("overlap", "moment"):
            contraction_normal_form(ret, 2, findings, f)
        elif name in ("momentum", "angular_momentum"):
            cf, rest = split_numeric(ret.e)
            contraction_normal_form(type("X", (), {"e": rest})(), 2, findings, f)
        elif name == "kinetic":
            for t in sp.Add.make_args(ret.e):
                cf, rest = t.as_coeff_Mul()
                contraction_normal_form(type("X", (), {"e": rest})(), 2, findings, f)
        elif name.startswith("point_charge"):
            sub = sub_extractor(ex, "_compute_one_elec_integrals")[0]
            tmp = []
            check_one_elec(sub, tmp)
            findings.extend(fd for fd in tmp if fd.rule == "Vc")
        elif name == "electron_repulsion":
            sub = sub_extractor(ex, "_compute_two_elec_integrals")[0]
            tmp = []
            info = check_two_elec(sub, tmp)
            inits = [s for s, nm in info["stores"] if nm == "INIT" and s.table is info["tables"][2]]
            if len(inits) == 1:
                check_contraction(inits[0], info["tables"][1], sub, findings)
            else:
                findings.append(Finding("LIN", None, "contraction step of the two-electron kernel not found", construct="ERI contraction"))
        elif name == "electron_repulsion[all-s]":
            layers, _ = peel(ret.e)
            seen = sorted(m for m, _f in layers)
            total = sp.Integer(1)
            for m_, f_ in layers:
                total *= f_
            ok = seen == [f"over_dim_K_{s}" for s in (1, 2, 3, 4)] and all(sp.degree(total, sp.Symbol(f"coef{s}")) == 1 for s in (1, 2, 3, 4))
            if not ok:
                findings.append(Finding("LIN", None, f"[all-s] primitives contracted over {seen}; each coefficient matrix must enter exactly once", construct="all-s contraction"))
        for fd in findings[before:]:
            fd.rule = "LIN"
            fd.msg = f"[{name}] " + fd.msg
        if len(findings) == before:
            n_lin += 1
            R.ok("LIN", f.site, f"[{name}] one contraction per shell with its own coefficients", detail=str(ret.e)[:160])
        # KSEP events
        for kind, g, node, shell in ex.shared.get("events", []):
            if kind.startswith("K-filter:"):
                what = kind.split(":", 1)[1]
                if what == "some-coefficient-nonzero":
                    continue  # dropping primitives whose coefficients are all zero changes nothing
                R.fail("KSEP", g.site, ast.unparse(node)[:80], f"[{name}] primitives of shell {shell} are selected by the mask `{what}` in `{ast.unparse(node)[:60]}`: a "
                       "primitive is dropped from every contraction although it still contributes to some (only primitives whose coefficients are all zero may go)",
                       where=g.where(node))
            if kind in ("K-index", "K-slice", "K-reduce"):
                R.fail("KSEP", g.site, ast.unparse(node)[:80], f"[{name}] the primitive axis of shell {shell} is {kind[2:]}ed in `{ast.unparse(node)[:70]}`: the result "
                       f"would depend on the order / splitting of the primitives", where=g.where(node))
    report(R, repo.func("gbasis.integrals._moment_int._cleanup_intermediate_integrals"), findings)
    R.floor("LIN", n_lin, 6, "kernel runs with a verified contraction normal form")
    if not [x for x in R.findings if x.rule == "KSEP"]:
        R.ok("KSEP", "all integral kernels", "no primitive axis is indexed, sliced or partially reduced")
    # screening uses the primitives only through min()
    from .c20 import screen_exprs
    vl, vr, op, (ea, eb, A_, B_) = screen_exprs(repo)
    Minf = sp.Function("Min_over")
    m1, m2 = sp.symbols("m1 m2")
    rest = (vl - vr).subs({Minf(ea): m1, Minf(eb): m2})
    scr = repo.func("gbasis.integrals.overlap.is_integral_screened")
    R.note_function(scr.qualname)
    R.check(not rest.has(ea) and not rest.has(eb), "KSEP", scr.site, "exponents enter the screening only through min(exps)",
            "the screening decision picks a primitive by position (or uses the exponents other than through their minimum): it changes when the primitives are reordered",
            where=scr.where(), expected="min(exps)", found=str(vr)[:120])
    # evaluation back-ends: prim_coeffs contracted once on axis 0, alphas only broadcast
    for q in ("gbasis.evals._deriv._eval_deriv_contractions", "gbasis.evals._deriv._eval_first_second_order_deriv_contractions"):
        g = repo.func(q)
        R.note_function(g.qualname)
        coefp, alphap = g.params[5], g.params[4]
        meta = {id(n.value) for n in ast.walk(g.node) if isinstance(n, ast.Attribute) and n.attr in ("shape", "ndim", "size", "dtype")}
        uses = [n for n in ast.walk(g.node) if isinstance(n, ast.Name) and n.id == coefp and isinstance(n.ctx, ast.Load) and id(n) not in meta]
        tds = [n for n in ast.walk(g.node) if isinstance(n, ast.Call) and ast.unparse(n.func) in ("np.tensordot", "numpy.tensordot") and
               any(isinstance(a, ast.Name) and a.id == coefp for a in n.args[:2])]
        eins = [n for n in ast.walk(g.node) if isinstance(n, ast.Call) and ast.unparse(n.func) in ("np.einsum", "numpy.einsum") and len(n.args) == 3 and
                isinstance(n.args[0], ast.Constant) and isinstance(n.args[0].value, str) and any(isinstance(a, ast.Name) and a.id == coefp for a in n.args[1:])]
        if not tds and len(eins) == 1 and len(uses) == 1:
            # np.einsum("k...,kln->...ln", coeffs, values): the coefficients' first axis summed against the values' first axis
            spec = eins[0].args[0].value.replace(" ", "")
            ins, out_ = spec.split("->")
            subs = ins.split(",")
            pos = [k for k, a in enumerate(eins[0].args[1:]) if isinstance(a, ast.Name) and a.id == coefp][0]
            sc, so = subs[pos], subs[1 - pos]
            oke = bool(sc) and sc[0] != "." and sc[0] == so[0] and sc[0] not in out_ and not [ch for ch in sc[1:].replace("...", "") if ch in so]
            R.check(oke, "LIN", g.site, f"np.einsum('{spec}', ...) contracts the primitive axis of {coefp}",
                    "the evaluation back-end must use the coefficient matrix exactly once, contracting its primitive axis", where=g.where(eins[0]))
            tds = None
        if tds is not None and not tds and uses:
            raise AnalysisError("LIN", f"{g.name}: the coefficients are not contracted with np.tensordot: idiom not recognised", g.where(uses[0]))
        if tds is not None:
            ok = len(uses) == 1 and len(tds) == 1 and ast.unparse(tds[0].args[2]) == "(0, 0)" and ast.unparse(tds[0].args[0]) == coefp
            R.check(ok, "LIN", g.site, f"np.tensordot({coefp}, ..., (0, 0)) is the only use of {coefp}",
                    "the evaluation back-end must use the coefficient matrix exactly once, contracting its primitive axis", where=g.where())
        bad = []
        for n in ast.walk(g.node):
            if isinstance(n, ast.Subscript) and isinstance(n.value, ast.Name) and n.value.id == alphap:
                elts = n.slice.elts if isinstance(n.slice, ast.Tuple) else [n.slice]
                for e in elts:
                    if not (isinstance(e, ast.Slice) and e.lower is None and e.upper is None) and not (isinstance(e, ast.Constant) and e.value is None) \
                            and not (isinstance(e, ast.Attribute) and e.attr == "newaxis"):
                        bad.append(n)
        R.check(not bad, "KSEP", g.site, f"{alphap} only broadcast", "the exponents array is indexed/sliced: a primitive is singled out",
                where=g.where(bad[0]) if bad else g.where())
    norm_cont_rule(repo, R)
    # assembly: norm once per index before the transform; segment-major flattening
    from .c09 import run_assembly
    drivers, bounds = run_assembly(repo, R, R.tier)
    for kind, d in drivers.items():
        rel = [(k, v) for k, v in d.fails.items() if k[0] in ("A2/A3", "A4")]
        for (rule, method, _n), (case, count, where, msg, expected, found) in rel:
            R.fail(rule, d.site(method), msg[:150], f"{msg}  [first case: {case}; {count} case(s)]",
                   where=where or f"{d.cls.module.relpath}:{d.cls.lookup(method).node.lineno}", expected=expected, found=found)
        if not rel:
            R.ok("A4", d.cls.qualname[len("gbasis."):], f"segment-major flattening and one norm per index in {d.blocks} blocks")
    R.assumptions += ["multilinearity + renormalisation give invariance under reordering/splitting primitives and positive column scaling in exact arithmetic",
                      "C01 (NORM) for the primitive norms"]
    return ("From the kernel runs of C01-C04/C07/C08: in every kernel (9 runs incl. both orientations / dispatch branches) the returned "
            "expression contains each shell's coefficient matrix exactly once, inside the contraction over that shell's own primitive "
            "axis, together with exponent-only factors - so blocks are multilinear in the coefficients and the segment axis is the free "
            "column index (generalized = union of segmented, same order); no primitive axis is ever indexed, sliced or partially reduced, "
            "the screening uses exponents through min() only, the evaluation back-ends use prim_coeffs once in tensordot(..., (0,0)); the "
            "contraction norm is the -1/2 power of the shell's own overlap diagonal; assembly applies it once per index before the "
            "spherical transform and flattens segment-major. Not decided: scale invariance over 12 orders of magnitude in floating point.")
