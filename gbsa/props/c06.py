"""C06 Density and density-derived fields equal their definitions (TERMALG + FLOW threshold rule)."""
import ast
import itertools

import sympy as sp

from ..astutil import dotted, normal_compare, flip, Defs, walk_no_nested
from ..formula import Elem
from ..termalg import (TermInterp, Terms, Table, RowRef, G, R_of, LAP, E3, ALPHA, guard_root_findings, vec_add, PointCount, ShapeOf)
from ..report import AnalysisError

MOD = "gbasis.evals.density."
ZERO = (0, 0, 0)


class OV:
    """Orbital-level value: B(p) = derivative p of every orbital at every point (axes Orb, Pts);
    PB(q) = P . B(q);  BPB(p, q) = B(p) * (P . B(q)) elementwise.  `axes` is the order of (Orb, Pts)."""

    def __init__(self, kind, orders, axes=("Orb", "Pts"), coef=1):
        self.kind, self.orders, self.axes, self.coef = kind, orders, tuple(axes), coef

    def __repr__(self):
        return f"{self.kind}{self.orders}{list(self.axes)}"


class ZeroOV:
    axes = ("Orb", "Pts")

    def __repr__(self):
        return "0"


class Mask:
    """a boolean selection of orbitals derived from the data (e.g. np.diag(P) != 0)"""

    def __init__(self, why):
        self.why = why


class MaybeBool:
    """truth value that depends on the data: the guarded block is analysed as taken"""


class DensityInterp(TermInterp):
    # ---- object identity of the orbital arrays: `x = y` shares the array, in-place operations (`x *= ..`, `out=x`) are seen
    # through every name of the same array
    def _group(self, name):
        al = self.__dict__.setdefault("alias", {})
        rep = al.get(name, name)
        return [n for n in set(al) | {name} if al.get(n, n) == rep]

    def _join(self, a, b):
        al = self.__dict__.setdefault("alias", {})
        rep = al.get(b, b)
        al[b] = rep
        al[a] = rep

    def _fresh(self, a):
        al = self.__dict__.setdefault("alias", {})
        if a in al:
            # the name leaves its group; if it was the representative, re-root the rest
            rest = [n for n in al if n != a and al[n] == al[a]]
            for n in rest:
                al[n] = rest[0]
            del al[a]

    def write_through(self, name, value):
        for n in self._group(name):
            self.env[n] = value

    def stmt(self, st):
        if isinstance(st, ast.Assign) and len(st.targets) == 1 and isinstance(st.targets[0], ast.Name):
            tgt = st.targets[0].id
            super().stmt(st)
            out = [k.value.id for k in st.value.keywords if k.arg == "out" and isinstance(k.value, ast.Name)] if isinstance(st.value, ast.Call) else []
            if isinstance(st.value, ast.Name) and isinstance(self.env.get(tgt), (OV, Table)):
                self._fresh(tgt)
                self._join(tgt, st.value.id)
            elif out:
                self._fresh(tgt)
                self._join(tgt, out[0])
            else:
                self._fresh(tgt)
            return
        if isinstance(st, ast.AugAssign) and isinstance(st.target, ast.Name):
            super().stmt(st)
            self.write_through(st.target.id, self.env[st.target.id])
            return
        if isinstance(st, ast.Assign) and len(st.targets) == 1 and isinstance(st.targets[0], ast.Subscript) and isinstance(st.targets[0].value, ast.Name) \
                and isinstance(self.env.get(st.targets[0].value.id), OV):
            sl = st.targets[0].slice
            whole = (isinstance(sl, ast.Slice) and sl.lower is None and sl.upper is None and sl.step is None) or \
                    (isinstance(sl, ast.Constant) and sl.value is Ellipsis) or \
                    (isinstance(sl, ast.Tuple) and all(isinstance(z, ast.Slice) and z.lower is None and z.upper is None and z.step is None for z in sl.elts))
            if whole:
                # `x[:] = value` overwrites the array in place: every name of the same array now holds the value
                v = self.expr(st.value)
                self.write_through(st.targets[0].value.id, v)
                return
        super().stmt(st)

    def expr(self, e):
        # products of the transformation with the density matrix (the transformation folded into the density matrix)
        if isinstance(e, ast.Attribute) and e.attr == "T":
            try:
                m_ = Mat.of(self.expr(e.value))
            except AnalysisError:
                m_ = None
            if m_ is not None:
                return m_.t()
        pair = None
        if isinstance(e, ast.Call) and isinstance(e.func, ast.Attribute) and e.func.attr == "dot" and len(e.args) == 1 and not e.keywords \
                and not (dotted(e.func) or "").startswith(("np.", "numpy.")):
            pair = (e.func.value, e.args[0])
        elif isinstance(e, ast.Call) and dotted(e.func) in ("np.dot", "numpy.dot", "np.matmul", "numpy.matmul") and len(e.args) == 2 and not e.keywords:
            pair = (e.args[0], e.args[1])
        elif isinstance(e, ast.BinOp) and isinstance(e.op, ast.MatMult):
            pair = (e.left, e.right)
        if pair is not None:
            try:
                ma, mb = Mat.of(self.expr(pair[0])), Mat.of(self.expr(pair[1]))
            except AnalysisError:
                ma = mb = None
            if ma is not None and mb is not None:
                return Mat(ma.chain + mb.chain)
        if isinstance(e, ast.Call) and dotted(e.func) in ("np.array_equal", "numpy.array_equal") and len(e.args) == 2:
            a_, b_ = self.expr(e.args[0]), self.expr(e.args[1])
            if isinstance(a_, (tuple, list)) and isinstance(b_, (tuple, list)):
                return tuple(a_) == tuple(b_)  # order vectors are concrete here
        if isinstance(e, ast.Call) and dotted(e.func) in ("np.diag", "numpy.diag", "np.diagonal", "numpy.diagonal") and e.args and \
                self.env.get(ast.unparse(e.args[0])) == "one_density_matrix":
            return Mask("diag")
        if isinstance(e, ast.Call) and dotted(e.func) in ("np.all", "np.any", "numpy.all", "numpy.any", "all", "any") and e.args:
            v = self.expr(e.args[0])
            if isinstance(v, Mask):
                return MaybeBool()
        if isinstance(e, ast.UnaryOp) and isinstance(e.op, ast.Not):
            v = self.expr(e.operand)
            if isinstance(v, MaybeBool):
                return v
        if isinstance(e, ast.Subscript):
            parts = e.slice.elts if isinstance(e.slice, ast.Tuple) else [e.slice]
            masks = []
            for x in parts:
                if isinstance(x, ast.Name) and isinstance(self.env.get(x.id), Mask):
                    masks.append(self.env[x.id])
            if masks:
                self.__dict__.setdefault("filters", []).append((e, masks[0]))
                return self.expr(e.value)  # the same quantity, restricted to the selected orbitals
        if isinstance(e, ast.Compare) and len(e.ops) == 1:
            l, r = self.expr(e.left), self.expr(e.comparators[0])
            if isinstance(l, Mask) and l.why == "diag":
                return Mask(f"`{ast.unparse(e)[:50]}` (a test on the diagonal of the density matrix)")
            op = type(e.ops[0])
            num = lambda v: isinstance(v, (int, sp.Rational, sp.Integer, float)) and not isinstance(v, bool)
            fn = {ast.Eq: lambda a, b: a == b, ast.NotEq: lambda a, b: a != b, ast.Lt: lambda a, b: a < b, ast.LtE: lambda a, b: a <= b,
                  ast.Gt: lambda a, b: a > b, ast.GtE: lambda a, b: a >= b}.get(op)
            if fn is None:
                if op in (ast.Is, ast.IsNot) and l is not None and r is not None and not isinstance(l, (int, float, str, bool, tuple)):
                    # identity of two array values: names bound by plain assignment share the interpreter's value object
                    return (l is r) == (op is ast.Is)
                return super().expr(e)
            if num(l) and num(r):
                return bool(fn(sp.nsimplify(l), sp.nsimplify(r)))
            if isinstance(l, tuple) and num(r) and all(isinstance(x, int) for x in l):
                return tuple(bool(fn(x, r)) for x in l)
        if isinstance(e, ast.BoolOp):
            vals = [self.expr(v) for v in e.values]
            if all(isinstance(v, bool) for v in vals):
                return all(vals) if isinstance(e.op, ast.And) else any(vals)
        if isinstance(e, ast.Attribute) and e.attr == "T":
            base = self.expr(e.value)
            if isinstance(base, Table):
                return base.permuted(list(reversed(range(len(base.axes)))))
        return super().expr(e)

    def binop(self, op, l, r, node):
        if isinstance(op, ast.Mult) and isinstance(l, OV) and isinstance(r, OV):
            return self.ov_mul(l, r, node)
        if isinstance(op, ast.Mult) and (isinstance(l, ZeroOV) or isinstance(r, ZeroOV)) and isinstance(l, (OV, ZeroOV)) and isinstance(r, (OV, ZeroOV)):
            return ZeroOV()
        if isinstance(op, ast.Mod) and isinstance(l, int) and isinstance(r, int):
            return l % r
        if isinstance(op, ast.Mult) and isinstance(l, Table) and isinstance(r, Table) and any(isinstance(v, (OV, ZeroOV)) for v in l.cells.values()):
            if list(l.axes) != list(r.axes) or l.shape != r.shape:
                raise Mismatch(f"elementwise product of orbital tables with axes {l.axes} and {r.axes}", node)

            cell_axes = tuple(z for z in l.axes if z in ("Orb", "Pts"))  # the tables' own axis labels were just checked to agree

            def mul(x, y):
                if isinstance(x, ZeroOV) or isinstance(y, ZeroOV):
                    return ZeroOV()
                b, pb = (x, y) if x.kind == "B" else (y, x)
                if b.kind != "B" or pb.kind != "PB":
                    raise Mismatch(f"product of {x} and {y} is not an orbital x (density matrix . orbital) product", node)
                return OV("BPB", (b.orders, pb.orders), cell_axes, b.coef * pb.coef)
            return Table(l.shape, l.axes, {k: mul(l.cells[k], r.cells[k]) for k in l.cells})
        num = lambda v: isinstance(v, (int, float, sp.Rational, sp.Integer, sp.Float)) and not isinstance(v, bool)
        if isinstance(op, (ast.Mult, ast.Div)) and isinstance(l, OV) and num(r):
            k = sp.nsimplify(r, rational=True)
            return OV(l.kind, l.orders, l.axes, l.coef * k if isinstance(op, ast.Mult) else l.coef / k)
        if isinstance(op, ast.Mult) and isinstance(r, OV) and num(l):
            return OV(r.kind, r.orders, r.axes, r.coef * sp.nsimplify(l, rational=True))
        return super().binop(op, l, r, node)

    def ov_mul(self, l, r, node):
        if l.axes != r.axes:
            raise Mismatch(f"elementwise product of arrays with axes {l.axes} and {r.axes}", node)
        kinds = {l.kind, r.kind}
        if kinds == {"B", "PB"}:
            b = l if l.kind == "B" else r
            pb = r if l.kind == "B" else l
            return OV("BPB", (b.orders, pb.orders), l.axes, l.coef * r.coef)
        raise Mismatch(f"product of {l} and {r} is not an orbital x (density matrix . orbital) product", node)

    def if_stmt(self, st):
        # `if any(orders_one > 2) or any(orders_two > 2):` concrete;  threshold tests are handled by the FLOW rule
        t = st.test
        try:
            tv = self.expr(t)
        except AnalysisError:
            tv = None
        if isinstance(tv, MaybeBool):
            self.block(st.body)
            return
        if isinstance(t, ast.BoolOp) and isinstance(t.op, ast.Or):
            vals = [self.expr(v) for v in t.values]
            if all(isinstance(v, bool) for v in vals):
                self.block(st.body if any(vals) else st.orelse)
                return
        if st.body and isinstance(st.body[-1], ast.Raise) and not st.orelse:
            return
        if isinstance(t, ast.Call) and dotted(t.func) in ("np.array_equal", "numpy.array_equal"):
            a, b = self.expr(t.args[0]), self.expr(t.args[1])
            self.block(st.body if tuple(a) == tuple(b) else st.orelse)
            return
        super().if_stmt(st)


class Mat:
    """A product of the caller's matrices: chain of 'T' (transform), 'Tt' (its transpose) and 'P' (the symmetric density matrix)."""

    def __init__(self, chain):
        self.chain = tuple(chain)

    def __repr__(self):
        return " . ".join({"T": "transform", "Tt": "transform^T", "P": "one_density_matrix"}[x] for x in self.chain)

    def t(self):
        return Mat([{"T": "Tt", "Tt": "T", "P": "P"}[x] for x in reversed(self.chain)])

    @staticmethod
    def of(v):
        if isinstance(v, Mat):
            return v
        if v == "transform":
            return Mat(["T"])
        if v == "one_density_matrix":
            return Mat(["P"])
        return None


class Mismatch(Exception):
    def __init__(self, msg, node):
        self.msg, self.node = msg, node


class Ctx:
    def __init__(self):
        self.sites = {}
        self.level = "B"
        self.interp_env = None


def make_handler(f, ctx, symmetric=True):
    """Handlers for numpy plumbing at the orbital level and for the gbasis calls."""
    def fwd(e, short, nlead, want_pos, want_kw, allow_general=False):
        rest = [ast.unparse(a) for a in e.args[nlead:]]
        kws = {k.arg: ast.unparse(k.value) for k in e.keywords}
        problems = []
        if rest != want_pos:
            problems.append(f"positional arguments {rest} instead of {want_pos}")
        for k, v in want_kw.items():
            got = kws.get(k)
            if got is not None and got != v and got.isidentifier() and ctx.interp_env is not None:
                # a local that holds the parameter (or, where allowed, the literal back-end name) on this path
                cur = ctx.interp_env.get(got)
                if cur == v:
                    got = v
                elif cur == "general":
                    got = "'general'"
            if k == "deriv_type" and allow_general and got == "'general'":
                continue
            if got != v:
                problems.append(f"`{k}` is not forwarded ({k}={got})")
        for k in kws:
            if k not in want_kw:
                problems.append(f"unexpected keyword {k}")
        dm = ctx.interp_env.get("one_density_matrix") if ctx.interp_env is not None and "one_density_matrix" in want_pos else None
        if isinstance(dm, Mat):
            # sum_ij P_ij (T chi)_i (T chi)_j = chi^T (T^T P T) chi: the transformation folded into the density matrix, evaluated with the
            # untransformed contractions, is the same quantity - with exactly this product and no transformation passed on
            folded_ok = dm.chain == ("Tt", "P", "T") and kws.get("transform") in (None, "None")
            if folded_ok:
                problems[:] = [p_ for p_ in problems if not p_.startswith("`transform` is not forwarded")]
            else:
                problems.append(f"the density matrix handed on is {dm}" + (" together with the transformation" if kws.get("transform") not in (None, "None") else "")
                                + ": folding the transformation into the density matrix means transform^T . one_density_matrix . transform "
                                  "(shape K_cont x K_cont) evaluated without a transformation")
        ctx.sites[id(e)] = (e, problems, short, f)

    def handler(interp, e, d):
        short = d.split(".")[-1] if d else None
        params = f.params
        ctx.interp_env = interp.env
        has_dt = "deriv_type" in params
        if short == "evaluate_basis":
            fwd(e, short, 0, ["basis", "points"], {"transform": "transform"})
            return OV("B", ZERO)
        if short == "evaluate_deriv_basis":
            if len(e.args) < 3:
                interp.err("evaluate_deriv_basis call without (basis, points, orders)", e)
            o = interp.expr(e.args[2])
            if not (isinstance(o, tuple) and len(o) == 3 and all(isinstance(x, int) for x in o)):
                interp.err(f"derivative orders `{ast.unparse(e.args[2])}` are not a constant triple", e)
            rest = [ast.unparse(a) for a in e.args[:2]]
            kws = {k.arg: ast.unparse(k.value) for k in e.keywords}
            problems = []
            if rest != ["basis", "points"]:
                problems.append(f"positional arguments {rest}")
            if kws.get("transform") != "transform":
                problems.append(f"`transform` is not forwarded (transform={kws.get('transform')})")
            if has_dt and kws.get("deriv_type") != "deriv_type":
                problems.append(f"`deriv_type` is not forwarded (deriv_type={kws.get('deriv_type')})")
            ctx.sites[id(e)] = (e, problems, short, f)
            return OV("B", o)
        if short == "evaluate_density_using_evaluated_orbs":
            a = [interp.expr(x) for x in e.args]
            if len(a) == 2 and isinstance(a[1], OV) and a[1].kind == "B" and ast.unparse(e.args[0]) == "one_density_matrix":
                ctx.sites[id(e)] = (e, [], short, f)
                return G(a[1].orders, a[1].orders, symmetric)
            interp.err("evaluate_density_using_evaluated_orbs with unexpected arguments", e)
        if short == "evaluate_deriv_reduced_density_matrix":
            o1, o2 = interp.expr(e.args[0]), interp.expr(e.args[1])
            general_fallback = False
            for k in e.keywords:
                if k.arg == "deriv_type":
                    txt = ast.unparse(k.value)
                    general_fallback = txt == "'general'" or (txt.isidentifier() and interp.env.get(txt) == "general")
            ctx.__dict__.setdefault("backend_calls", []).append((o1, o2, "general" if general_fallback else "fwd", e))
            want_kw = {"transform": "transform"}
            if has_dt:
                want_kw["deriv_type"] = "deriv_type"
            fwd(e, short, 2, ["one_density_matrix", "basis", "points"], want_kw, allow_general=True)
            ctx.sites[id(e)] += (("general" if general_fallback else "fwd"), (o1, o2))
            return G(o1, o2, symmetric)
        if short == "evaluate_density_laplacian":
            want_kw = {"transform": "transform"}
            if has_dt:
                want_kw["deriv_type"] = "deriv_type"
            fwd(e, short, 0, ["one_density_matrix", "basis", "points"], want_kw)
            return LAP(symmetric)
        if short == "evaluate_density" and f.name != "evaluate_density":
            fwd(e, short, 0, ["one_density_matrix", "basis", "points"], {"transform": "transform"})
            return G(ZERO, ZERO, symmetric).marked("evaluate_density clips negative values to 0 and raises beyond its threshold")
        if short == "evaluate_deriv_density" and f.name != "evaluate_deriv_density":
            L = interp.expr(e.args[0])
            want_kw = {"transform": "transform"}
            if has_dt:
                want_kw["deriv_type"] = "deriv_type"
            fwd(e, short, 1, ["one_density_matrix", "basis", "points"], want_kw)
            return R_of(L, symmetric)
        if short == "evaluate_posdef_kinetic_energy_density":
            want_kw = {"transform": "transform"}
            if has_dt:
                want_kw["deriv_type"] = "deriv_type"
            fwd(e, short, 0, ["one_density_matrix", "basis", "points"], want_kw)
            t = Terms(symmetric=symmetric)
            for ek in E3:
                t = t + G(ek, ek, symmetric) * sp.Rational(1, 2)
            return t.marked("evaluate_posdef_kinetic_energy_density clips negative values to 0 and raises beyond its threshold")
        # ---- numpy plumbing on orbital-level values
        if short == "dot" and isinstance(e.func, ast.Attribute) and ast.unparse(e.func.value) == "one_density_matrix":
            x = interp.expr(e.args[0])
            if isinstance(x, OV) and x.kind == "B" and x.axes == ("Orb", "Pts"):
                return OV("PB", x.orders, x.axes, x.coef)
            raise Mismatch(f"one_density_matrix.dot({x}) does not contract the orbital axis", e)
        if d in ("np.dot", "numpy.dot", "np.matmul", "numpy.matmul") and len(e.args) == 2 and ast.unparse(e.args[0]) == "one_density_matrix":
            x = interp.expr(e.args[1])
            if not (isinstance(x, OV) and x.kind == "B" and x.axes == ("Orb", "Pts")):
                raise Mismatch(f"np.dot(one_density_matrix, {x}) does not contract the orbital axis", e)
            res = OV("PB", x.orders, x.axes, x.coef)
            for k in e.keywords:
                if k.arg == "out":
                    if not isinstance(k.value, ast.Name):
                        interp.err("out= target is not a variable", e)
                    interp.write_through(k.value.id, res)  # the buffer (under all its names) now holds the product
                else:
                    interp.err(f"keyword {k.arg} of np.dot", e)
            return res
        is_sum_method = short == "sum" and isinstance(e.func, ast.Attribute) and d not in ("np.sum", "numpy.sum") and \
            isinstance(interp.env.get(ast.unparse(e.func.value)), (OV, Table))
        if short == "sum" and (d in ("np.sum", "numpy.sum") or is_sum_method):
            x = interp.expr(e.func.value if is_sum_method else e.args[0])
            axis = [interp.expr(k.value) for k in e.keywords if k.arg == "axis"] + [interp.expr(a) for a in (e.args if is_sum_method else e.args[1:])]
            if isinstance(x, OV):
                if not axis or not isinstance(axis[0], int) or x.axes[axis[0]] != "Orb":
                    raise Mismatch(f"np.sum over axis {axis} of an array with axes {x.axes}: the orbital axis must be summed", e)
                if x.kind != "BPB":
                    raise Mismatch(f"sum over orbitals of {x}", e)
                return G(x.orders[0], x.orders[1], symmetric) * x.coef
            if isinstance(x, Table) and axis and isinstance(axis[0], int):
                # table of orbital-level cells: sum over the Orb axis of the cells
                lab = x.axes[axis[0]]
                if lab != "Orb":
                    raise Mismatch(f"np.sum over axis {axis[0]} = {lab}; expected the orbital axis", e)
                def red(c):
                    if isinstance(c, ZeroOV):
                        return Terms(symmetric=symmetric)
                    if isinstance(c, OV) and c.kind == "BPB":
                        return G(c.orders[0], c.orders[1], symmetric) * c.coef
                    raise Mismatch(f"sum over orbitals of {c}", e)
                axes = [a for k, a in enumerate(x.axes) if k != axis[0]]
                return Table(x.shape, axes, {k: red(v) for k, v in x.cells.items()})
            return NotImplemented
        if d in ("np.full", "numpy.full", "np.broadcast_to", "numpy.broadcast_to") and len(e.args) == 2:
            # np.full(shape, array) and np.broadcast_to(array, shape): the array repeated along the new leading axes
            a_shape, a_val = (e.args[0], e.args[1]) if d.endswith("full") else (e.args[1], e.args[0])
            shp = interp.expr(a_shape)
            v = interp.expr(a_val)
            lead = tuple(s for s in shp if isinstance(s, int))
            if isinstance(v, OV) and len(shp) == len(lead) + 2:
                t = Table(lead, [f"I{k}" for k in range(len(lead))] + list(v.axes))
                t.cells = {k: v for k in t.cells}
                return t
            interp.err("np.full with unexpected arguments", e)
        if d in ("np.zeros", "numpy.zeros"):
            shp = interp.expr(e.args[0])
            shp = shp if isinstance(shp, tuple) else (shp,)
            lead = tuple(s for s in shp if isinstance(s, int))
            rest = [s for s in shp if not isinstance(s, int)]
            if len(rest) == 2:  # (.., K_orb, N)
                t = Table(lead, [f"I{k}" for k in range(len(lead))] + ["Orb", "Pts"])
                t.cells = {k: ZeroOV() for k in t.cells}
                return t
            return NotImplemented
        if d in ("np.tensordot", "numpy.tensordot"):
            a = interp.expr(e.args[0])
            if isinstance(a, Table) and ast.unparse(e.args[1]) == "one_density_matrix":
                axes = interp.expr(e.args[2])
                ia, ib = axes
                if a.axes[ia] != "Orb" or ib not in (0, 1):
                    raise Mismatch(f"tensordot contracts axis {ia} = {a.axes[ia]} of the orbital table with the density matrix; expected the orbital axis", e)
                new_axes = [x for k, x in enumerate(a.axes) if k != ia] + ["Orb"]

                def conv(c):
                    if isinstance(c, ZeroOV):
                        return c
                    if isinstance(c, OV) and c.kind == "B":
                        return OV("PB", c.orders, tuple(x for x in new_axes if x in ("Orb", "Pts")), c.coef)
                    raise Mismatch(f"density matrix applied to {c}", e)
                return Table(a.shape, new_axes, {k: conv(v) for k, v in a.cells.items()})
            return NotImplemented
        if d in ("np.einsum", "numpy.einsum"):
            spec = interp.expr(e.args[0]).replace(" ", "")
            ops = [interp.expr(x) for x in e.args[1:]]
            ins, out = spec.split("->")
            ia, ib = ins.split(",")
            A, B = ops
            if not (isinstance(A, Table) and isinstance(B, Table)) or len(ia) != len(A.axes) or len(ib) != len(B.axes):
                interp.err("einsum operands", e)
            la = dict(zip(ia, A.axes))
            lb = dict(zip(ib, B.axes))
            for ch in set(ia) & set(ib):
                if la[ch] != lb[ch]:
                    raise Mismatch(f"einsum '{spec}' identifies axis {la[ch]} of the first operand with axis {lb[ch]} of the second", e)
            if set(out) != set(ia) or set(ia) != set(ib):
                interp.err("einsum with a contraction is not modelled", e)
            new_axes = [la[ch] for ch in out]

            def mul(x, y):
                if isinstance(x, ZeroOV) or isinstance(y, ZeroOV):
                    return ZeroOV()
                b, pb = (x, y) if x.kind == "B" else (y, x)
                if b.kind != "B" or pb.kind != "PB":
                    raise Mismatch(f"einsum multiplies {x} and {y}", e)
                return OV("BPB", (b.orders, pb.orders), tuple(z for z in new_axes if z in ("Orb", "Pts")), b.coef * pb.coef)
            return Table(A.shape, new_axes, {k: mul(A.cells[k], B.cells[k]) for k in A.cells})
        if d in ("np.triu", "numpy.triu"):
            t = interp.expr(e.args[0])
            k = interp.expr(e.args[1]) if len(e.args) > 1 else 0
            if isinstance(t, Table) and len(t.axes) >= 2 and t.axes[-1].startswith("I") and t.axes[-2].startswith("I"):
                rl, cl = int(t.axes[-2][1:]), int(t.axes[-1][1:])
                return Table(t.shape, t.axes, {idx: (v if idx[cl] - idx[rl] >= k else Terms(symmetric=symmetric)) for idx, v in t.cells.items()})
            interp.err("np.triu on this layout", e)
        if d == "comb" or short == "comb":
            a = [interp.expr(x) for x in e.args]
            if all(isinstance(x, int) for x in a):
                from math import comb as ic
                return ic(*a)
        if d == "any" and len(e.args) == 1:
            v = interp.expr(e.args[0])
            if isinstance(v, tuple):
                return any(v)
        if d == "len" and ast.unparse(e.args[0]) == "points":
            return PointCount()
        if isinstance(e.func, ast.Attribute) and e.func.attr == "copy" and not e.args and not e.keywords:
            base = interp.expr(e.func.value)
            if isinstance(base, (OV, Table, Terms)):
                return base  # same values; the assignment gives the copy its own identity
        if d and "." not in d and d.startswith("_"):
            g = interp.repo_ref.resolve_name(f.module, d, f) if getattr(interp, "repo_ref", None) is not None else None
            if hasattr(g, "node") and g.module is f.module:
                # a private helper of the same module: interpreted in place with its parameters bound to the argument values
                argv = [interp.expr(a) for a in e.args]
                if e.keywords or len(argv) != len(g.params):
                    interp.err(f"call of the helper {d} with keywords / defaults", e)
                for n in ast.walk(g.node):
                    if isinstance(n, ast.AugAssign) and isinstance(n.target, ast.Name) and n.target.id in g.params:
                        interp.err(f"the helper {d} updates its parameter `{n.target.id}` in place: not modelled", n)
                sub = DensityInterp(g, dict(zip(g.params, argv)), make_handler(g, ctx, symmetric), symmetric=symmetric)
                sub.repo_ref = interp.repo_ref
                sub.run()
                if len(sub.returns) != 1:
                    interp.err(f"the helper {d} does not have exactly one return", e)
                if getattr(sub, "filters", None):
                    interp.__dict__.setdefault("filters", []).extend(sub.filters)
                return sub.returns[0][1]
        if d in ("np.min", "numpy.min", "np.amin", "abs", "np.abs"):
            return "MIN-MARKER"
        if isinstance(e.func, ast.Attribute) and e.func.attr in ("clip", "min"):
            base = interp.expr(e.func.value)
            if isinstance(base, Terms):
                if e.func.attr == "clip" and not any(p_.startswith("threshold") for p_ in interp.func.params):
                    # only the two routines with the documented negative-value threshold clip by definition (their clean-up region is
                    # decided by THRESH); anywhere else a clip is a non-linear step on the values
                    return NotImplemented
                return base if e.func.attr == "clip" else "MIN-MARKER"
        return NotImplemented

    return handler


def threshold_parts(f):
    """-> (X, head, region, ret): X = the array that is checked and returned; head = the statements that compute it; region = every
    statement after its last definition up to and including the return (the negative-value check and the clean-up)."""
    body = f.node.body
    rets = [st for st in body if isinstance(st, ast.Return)]
    if len(rets) != 1 or body[-1] is not rets[0]:
        raise AnalysisError("THRESH", "expected a single top-level return at the end", f.where())
    funcs = {id(n.func) for n in ast.walk(rets[0].value) if isinstance(n, ast.Call)}
    names = sorted({n.id for n in ast.walk(rets[0].value) if isinstance(n, ast.Name) and id(n) not in funcs} - {"np", "numpy", "threshold"})
    if len(names) != 1:
        raise AnalysisError("THRESH", f"the returned expression depends on {names}: expected the one checked array", f.where(rets[0]))
    X = names[0]
    last = None
    for k, st in enumerate(body[:-1]):
        for n in ast.walk(st):
            if isinstance(n, (ast.Assign, ast.AugAssign)) and not (isinstance(n, ast.Assign) and isinstance(n.targets[0], ast.Subscript) and
                                                                    isinstance(n.targets[0].slice, (ast.Compare, ast.Name))):
                tg = n.targets if isinstance(n, ast.Assign) else [n.target]
                if any(isinstance(t, ast.Name) and t.id == X or isinstance(t, ast.Subscript) and isinstance(t.value, ast.Name) and t.value.id == X
                       for t in tg):
                    if not any("threshold" in ast.unparse(x) for x in ast.walk(n) if isinstance(x, ast.Name)):
                        last = k
    if last is None:
        raise AnalysisError("THRESH", f"definition of the checked array `{X}` not found", f.where())
    return X, body[: last + 1], body[last + 1:], rets[0]


def run_fn(repo, name, ctx, env_over=None, symmetric=True, until_threshold_test=False):
    f = repo.func(MOD + name)
    env = {p: p for p in f.params}
    env.update(env_over or {})
    it = DensityInterp(f, env, make_handler(f, ctx, symmetric), symmetric=symmetric)
    it.repo_ref = repo
    if until_threshold_test:
        # the value that is checked against the threshold: interpret the statements that compute it only
        # (what happens to it afterwards is the THRESH rule's business)
        it.block(threshold_parts(f)[1])
    else:
        it.run()
    flt = getattr(it, "filters", [])
    if flt:
        node, mask = flt[0]
        note = f"orbitals are dropped by {mask.why}: a contribution is lost whenever the dropped orbital still couples to a kept one"

        def mark(v):
            if isinstance(v, Terms):
                return v.marked(note)
            if isinstance(v, Table):
                return v.map(lambda c: c.marked(note) if isinstance(c, Terms) else c)
            return v
        it.returns = [(st, mark(v)) for st, v in it.returns]
        for k in list(it.env):
            it.env[k] = mark(it.env[k])
    return f, it


def tested_variable(f):
    """name of the array that is checked against the threshold and returned"""
    return threshold_parts(f)[0]


def threshold_rule(repo, R, name, scale):
    """After the array X is computed: raise iff some value is negative with magnitude > threshold; otherwise return scale*X with
    the negative values replaced by 0 and every other value unchanged.  Decided by case analysis over orderings (see
    postprocess_counterexample)."""
    f = repo.func(MOD + name)
    if "threshold" not in f.params:
        R.fail("THRESH", f.site, "threshold parameter", f"{name} lost its `threshold` parameter", where=f.where())
        return
    D = Defs(f.node)
    X, _head, region, ret_st = threshold_parts(f)
    bad = postprocess_counterexample(repo, f, X, region, scale)
    what = ""
    if bad:
        vals, tv, got, want = bad
        what = f": for values {vals} and threshold {tv} the code {got}, expected: {want}"
    R.check(bad is None, "THRESH", f.site, "raise <=> some value is negative with magnitude > threshold; else clip at 0",
            "the negative-value handling differs from `raise when the most negative value exceeds the threshold in magnitude, otherwise return the "
            "values with negatives replaced by 0 (small positive values survive)`" + what,
            where=f.where(region[0]) if region else f.where(), expected="raise iff min < 0 and abs(min) > threshold; return clip(min=0)",
            found=" ; ".join(ast.unparse(x)[:60] for x in region)[:200])
    # threshold reaches the comparison unmodified
    R.check(len([d for d in D.of("threshold") if d[0] != "param"]) == 0, "THRESH", f.site, "threshold unmodified",
            "the threshold is modified before the comparison", where=f.where())


class _Unmodelled(Exception):
    pass


def _ord_eval(e, env, f):
    """Concrete evaluation of the checking code over representative values (lists of Fractions = arrays)."""
    def arr(v):
        return isinstance(v, list)

    def lift(fn, *vs):
        if any(arr(v) for v in vs):
            n = max(len(v) for v in vs if arr(v))
            for v in vs:
                if arr(v) and len(v) != n:
                    raise _Unmodelled("shape mismatch")
            return [fn(*[(v[k] if arr(v) else v) for v in vs]) for k in range(n)]
        return fn(*vs)

    if isinstance(e, ast.Constant):
        if isinstance(e.value, bool) or e.value is None:
            return e.value
        if isinstance(e.value, (int, float)):
            return sp.nsimplify(e.value, rational=True)
        raise _Unmodelled(ast.unparse(e))
    if isinstance(e, ast.Name):
        if e.id in env:
            return env[e.id]
        raise _Unmodelled(f"name {e.id}")
    if isinstance(e, ast.UnaryOp):
        v = _ord_eval(e.operand, env, f)
        if isinstance(e.op, ast.USub):
            return lift(lambda a: -a, v)
        if isinstance(e.op, (ast.Not, ast.Invert)):
            return lift(lambda a: not a, v)
        raise _Unmodelled(ast.unparse(e))
    if isinstance(e, ast.BoolOp):
        if isinstance(e.op, ast.And):
            for x in e.values:
                v = _ord_eval(x, env, f)
                if arr(v):
                    raise _Unmodelled("array in boolean context")
                if not v:
                    return False
            return True
        for x in e.values:
            v = _ord_eval(x, env, f)
            if arr(v):
                raise _Unmodelled("array in boolean context")
            if v:
                return True
        return False
    if isinstance(e, ast.BinOp):
        l, r = _ord_eval(e.left, env, f), _ord_eval(e.right, env, f)
        ops = {ast.Add: lambda a, b: a + b, ast.Sub: lambda a, b: a - b, ast.Mult: lambda a, b: a * b,
               ast.BitAnd: lambda a, b: bool(a) and bool(b), ast.BitOr: lambda a, b: bool(a) or bool(b)}
        for k, fn in ops.items():
            if isinstance(e.op, k):
                return lift(fn, l, r)
        raise _Unmodelled(ast.unparse(e))
    if isinstance(e, ast.Compare) and len(e.ops) == 1:
        l, r = _ord_eval(e.left, env, f), _ord_eval(e.comparators[0], env, f)
        ops = {ast.Lt: lambda a, b: a < b, ast.LtE: lambda a, b: a <= b, ast.Gt: lambda a, b: a > b, ast.GtE: lambda a, b: a >= b,
               ast.Eq: lambda a, b: a == b, ast.NotEq: lambda a, b: a != b}
        for k, fn in ops.items():
            if isinstance(e.ops[0], k):
                return lift(lambda a, b: bool(fn(a, b)), l, r)
        raise _Unmodelled(ast.unparse(e))
    if isinstance(e, ast.Subscript):
        base = _ord_eval(e.value, env, f)
        idx = _ord_eval(e.slice, env, f)
        if arr(base) and arr(idx) and len(idx) == len(base) and all(isinstance(b, bool) for b in idx):
            return [x for x, keep in zip(base, idx) if keep]
        raise _Unmodelled(ast.unparse(e))
    if isinstance(e, ast.Attribute):
        base = _ord_eval(e.value, env, f)
        if e.attr == "size" and arr(base):
            return sp.Integer(len(base))
        raise _Unmodelled(ast.unparse(e))
    if isinstance(e, ast.Call):
        d = dotted(e.func) or ""
        short = d.split(".")[-1]
        if isinstance(e.func, ast.Attribute) and not d.startswith(("np.", "numpy.")):
            args = [_ord_eval(e.func.value, env, f)] + [_ord_eval(a, env, f) for a in e.args]
        else:
            args = [_ord_eval(a, env, f) for a in e.args]
        if e.keywords:
            raise _Unmodelled(ast.unparse(e))
        if short in ("min", "amin", "max", "amax") and len(args) == 1:
            if not arr(args[0]):
                return args[0]
            if not args[0]:
                raise _EmptyReduction()
            return (min if short in ("min", "amin") else max)(args[0])
        if short in ("abs", "absolute", "fabs") and len(args) == 1:
            return lift(lambda a: abs(a), args[0])
        if short in ("any", "all") and len(args) == 1 and arr(args[0]):
            return (any if short == "any" else all)(bool(x) for x in args[0])
        if short == "len" and len(args) == 1 and arr(args[0]):
            return sp.Integer(len(args[0]))
        if short in ("count_nonzero", "sum") and len(args) == 1 and arr(args[0]):
            return sp.Add(*[sp.Integer(1) if x is True else sp.Integer(0) if x is False else x for x in args[0]])
        if short in ("float", "asarray", "array", "ravel", "flatten") and len(args) == 1:
            return args[0]
        raise _Unmodelled(ast.unparse(e))
    raise _Unmodelled(ast.unparse(e))


class _EmptyReduction(Exception):
    """np.min of an empty selection raises ValueError at run time: the call fails, which is not the documented behaviour"""


class _Raise(Exception):
    pass


class _Ret(Exception):
    def __init__(self, v):
        self.v = v


def _ord_exec(stmts, env, f, repo, depth=0):
    for st in stmts:
        if isinstance(st, ast.Expr):
            if not isinstance(st.value, ast.Constant):
                _ord_call_or_eval(st.value, env, f, repo, depth)
        elif isinstance(st, ast.Assign) and len(st.targets) == 1:
            t = st.targets[0]
            v = _ord_call_or_eval(st.value, env, f, repo, depth)
            if isinstance(t, ast.Name):
                env[t.id] = v
            elif isinstance(t, ast.Subscript) and isinstance(t.value, ast.Name) and isinstance(env.get(t.value.id), list):
                arr = env[t.value.id]
                mask = _ord_eval(t.slice, env, f)
                if not (isinstance(mask, list) and len(mask) == len(arr) and all(isinstance(b, bool) for b in mask)):
                    raise _Unmodelled(ast.unparse(st)[:60])
                for k, m in enumerate(mask):
                    if m:
                        arr[k] = v[[i for i, mm in enumerate(mask) if mm].index(k)] if isinstance(v, list) else v  # in place: aliases see it
            else:
                raise _Unmodelled(ast.unparse(st)[:60])
        elif isinstance(st, ast.AugAssign) and isinstance(st.target, ast.Name):
            cur = env[st.target.id]
            v = _ord_eval(ast.BinOp(left=st.target, op=st.op, right=st.value), env, f)
            if isinstance(cur, list) and isinstance(v, list):
                cur[:] = v
            else:
                env[st.target.id] = v
        elif isinstance(st, ast.If):
            c = _ord_eval(st.test, env, f)
            if isinstance(c, list):
                raise _Unmodelled("array-valued condition")
            _ord_exec(st.body if c else st.orelse, env, f, repo, depth)
        elif isinstance(st, ast.Raise):
            raise _Raise()
        elif isinstance(st, ast.Return):
            raise _Ret(_ord_call_or_eval(st.value, env, f, repo, depth))
        elif isinstance(st, ast.Pass):
            continue
        else:
            raise _Unmodelled(type(st).__name__)


def _ord_call_or_eval(e, env, f, repo, depth):
    """expression evaluation with two extensions: calls of gbasis-level helper functions are inlined, and the elementwise
    clean-up operations (clip / where / maximum / scalar * array) are understood"""
    if isinstance(e, ast.Call):
        d = dotted(e.func) or ""
        short = d.split(".")[-1]
        g = repo.resolve_name(f.module, d, f) if d and "." not in d else None
        if hasattr(g, "node") and depth < 2 and not e.keywords:
            args = [_ord_call_or_eval(a, env, f, repo, depth) for a in e.args]
            sub = dict(zip(g.params, args))
            try:
                _ord_exec(g.node.body, sub, g, repo, depth + 1)
            except _Ret as r:
                return r.v
            return None
        if (isinstance(e.func, ast.Attribute) and e.func.attr == "clip" and not d.startswith(("np.", "numpy."))) or d in ("np.clip", "numpy.clip"):
            base = _ord_call_or_eval(e.func.value if not d.startswith(("np.", "numpy.")) else e.args[0], env, f, repo, depth)
            rest = list(e.args) if not d.startswith(("np.", "numpy.")) else list(e.args[1:])
            lo = hi = None
            if rest:
                lo = rest[0]
            if len(rest) > 1:
                hi = rest[1]
            for k in e.keywords:
                if k.arg in ("min", "a_min"):
                    lo = k.value
                elif k.arg in ("max", "a_max"):
                    hi = k.value
                else:
                    raise _Unmodelled(ast.unparse(e)[:60])
            lo = None if lo is None else _ord_eval(lo, env, f)
            hi = None if hi is None else _ord_eval(hi, env, f)
            cl = lambda x: (x if lo is None or x >= lo else lo) if hi is None or (x if lo is None or x >= lo else lo) <= hi else hi
            return [cl(x) for x in base] if isinstance(base, list) else cl(base)
        if d in ("np.where", "numpy.where") and len(e.args) == 3:
            c, a, b = [_ord_call_or_eval(x, env, f, repo, depth) for x in e.args]
            if isinstance(c, list):
                return [(a[k] if isinstance(a, list) else a) if c[k] else (b[k] if isinstance(b, list) else b) for k in range(len(c))]
        if d in ("np.maximum", "numpy.maximum", "np.minimum", "numpy.minimum", "np.fmax", "np.fmin") and len(e.args) == 2:
            a, b = [_ord_call_or_eval(x, env, f, repo, depth) for x in e.args]
            pick = max if "max" in short else min
            n = len(a) if isinstance(a, list) else len(b) if isinstance(b, list) else None
            if n is None:
                return pick(a, b)
            return [pick(a[k] if isinstance(a, list) else a, b[k] if isinstance(b, list) else b) for k in range(n)]
        if short == "copy" and isinstance(e.func, ast.Attribute):
            v = _ord_call_or_eval(e.func.value, env, f, repo, depth)
            return list(v) if isinstance(v, list) else v
    if isinstance(e, ast.BinOp) and isinstance(e.op, (ast.Mult, ast.Add, ast.Sub)):
        l = _ord_call_or_eval(e.left, env, f, repo, depth)
        r = _ord_call_or_eval(e.right, env, f, repo, depth)
        op = {ast.Mult: lambda a, b: a * b, ast.Add: lambda a, b: a + b, ast.Sub: lambda a, b: a - b}[type(e.op)]
        if isinstance(l, list) or isinstance(r, list):
            n = len(l) if isinstance(l, list) else len(r)
            return [op(l[k] if isinstance(l, list) else l, r[k] if isinstance(r, list) else r) for k in range(n)]
        if l is None or r is None or isinstance(l, bool) or isinstance(r, bool):
            raise _Unmodelled(ast.unparse(e)[:60])
        return op(l, r)
    return _ord_eval(e, env, f)


def postprocess_counterexample(repo, f, X, region, scale):
    """The code after X is computed touches the values only through comparisons with 0 / +-threshold, abs, negation, boolean
    selections and stores, min/max, clip/where and a constant scale: its outcome (raise, or which values are replaced) depends on the
    ordering of the values relative to 0 and +-threshold only.  It is interpreted (never run) on arrays of up to three
    representatives of every such ordering and compared with the specification.  -> None or (values, threshold, got, want)."""
    import itertools
    pts = [sp.Integer(-3), sp.Integer(-2), sp.Integer(-1), sp.Rational(-1, 2), sp.Integer(0), sp.Rational(1, 2), sp.Integer(1), sp.Integer(2), sp.Integer(3)]
    thrs = [sp.Integer(0), sp.Rational(1, 2), sp.Integer(1), sp.Integer(2)]
    for n in (1, 2, 3):
        for vals in itertools.product(pts, repeat=n):
            if n == 3 and list(vals) != sorted(vals):
                continue
            for tv in thrs:
                env = {X: list(vals), "threshold": tv}
                try:
                    _ord_exec(region, env, f, repo)
                    got = ("falls off the end",)
                except _Ret as r:
                    v = r.v
                    got = ("returns", [sp.nsimplify(x) for x in v] if isinstance(v, list) else v)
                except (_Raise, _EmptyReduction):
                    got = ("raises",)
                except _Unmodelled as ex:
                    raise AnalysisError("THRESH", f"the negative-value handling uses a construct outside the comparison fragment: {ex}", f.where(region[0]))
                if any(v < 0 and -v > tv for v in vals):
                    want = ("raises",)
                else:
                    want = ("returns", [sp.nsimplify(max(scale * v, 0)) for v in vals])
                if got != want:
                    show = lambda o: o[0] + (" " + str([str(x) for x in o[1]]) if len(o) > 1 and isinstance(o[1], list) else "")
                    return [str(v) for v in vals], str(tv), show(got), show(want)
    return None


def run(repo, R):
    from .momfam import compose_state_rules as _csr
    _csr(R, repo, ['gbasis/evals/density.py', 'gbasis/evals/eval.py', 'gbasis/evals/eval_deriv.py', 'gbasis/evals/_deriv.py', 'gbasis/contractions.py', 'gbasis/spherical.py', 'gbasis/utils.py', 'gbasis/base.py', 'gbasis/base_one.py', 'gbasis/base_two_symm.py', 'gbasis/base_two_asymm.py', 'gbasis/base_four_symm.py'], "the property holds for every call, also after a shell's parameters were changed through its setters")
    R.rule("PITFALL", "no result buffer typed after an input, no real cast of a transformation, no unbuffered accumulation / first-occurrence scatter through np.unique")
    from ..pitfalls import report as _pitfalls
    _pitfalls(repo, R, ['gbasis.evals.density'])
    R.rule("TERM", "each density routine equals its defining Leibniz sum as a formal sum of G(p,q) atoms")
    R.rule("LEIBNIZ", "evaluate_deriv_density(L) == sum_{l<=L} C(L,l) G(l, L-l) modulo G(p,q)=G(q,p) for every L with components 0..4 (125 triples)")
    R.rule("BACKEND", "inside evaluate_deriv_density the >2 fallback sends exactly the requests with an order > 2 to the general back-end")
    R.rule("THRESH", "raise <=> min < 0 and |min| > threshold; otherwise the result passes through clip(min=0); threshold unmodified")
    R.rule("GUARD-ROOT", "alpha != 0 guard of the general kinetic-energy density has a coefficient with a root at 0")
    R.rule("FWD", "transform (and deriv_type where the callee takes it) forwarded at every internal call site")
    R.rule("LAYOUT", "gradient is (points, 3); Hessian is (points, 3, 3)")
    R.rule("SYMCHECK", "the symmetric-matrix validation dominates the density sum")
    ctx = Ctx()
    fails = []

    def guarded(name, fn):
        try:
            return fn()
        except Mismatch as mm:
            f = repo.func(MOD + name)
            R.fail("TERM", f.site, mm.msg[:120], f"{name}: {mm.msg}", where=f.where(mm.node))
            return None

    # ---- orbital level
    def density_from_orbs():
        f, it = run_fn(repo, "evaluate_density_using_evaluated_orbs", ctx, {"orb_eval": OV("B", ZERO)})
        R.note_function(f.qualname)
        ret = it.returns[0][1]
        R.check(isinstance(ret, Terms) and ret.equals(G(ZERO, ZERO)), "TERM", f.site, "sum_ab P_ab phi_a phi_b",
                "evaluate_density_using_evaluated_orbs is not sum_ab P_ab phi_a phi_b" + ("; " + "; ".join(ret.nonlinear) if isinstance(ret, Terms) and ret.nonlinear else ""),
                where=f.where(), expected="G(0,0)", found=str(ret))
        # symmetric validation dominates the computation
        fnn = f.node
        sym = [st for st in fnn.body if isinstance(st, ast.If) and st.body and isinstance(st.body[-1], ast.Raise)
               and "one_density_matrix.T" in ast.unparse(st.test)]
        first_use = min([n.lineno for n in ast.walk(fnn) if isinstance(n, ast.Call) and isinstance(n.func, ast.Attribute) and n.func.attr == "dot"] or [0])
        R.check(len(sym) == 1 and sym[0].lineno < first_use, "SYMCHECK", f.site, "symmetry validated before use",
                "the density matrix is not validated to be symmetric before the density is formed", where=f.where())
    guarded("evaluate_density_using_evaluated_orbs", density_from_orbs)

    def dens():
        f, it = run_fn(repo, "evaluate_density", ctx, until_threshold_test=True)
        R.note_function(f.qualname)
        val = it.env.get(tested_variable(f))
        R.check(isinstance(val, Terms) and val.equals(G(ZERO, ZERO)), "TERM", f.site, "density == G(0,0)",
                "evaluate_density does not evaluate sum_ab P_ab phi_a phi_b of the (transformed) basis", where=f.where(), found=str(val))
    guarded("evaluate_density", dens)

    def rdm():
        for o1, o2 in [((1, 0, 2), (0, 3, 1)), ((2, 1, 0), (2, 1, 0)), (ZERO, (0, 0, 1))]:
            f, it = run_fn(repo, "evaluate_deriv_reduced_density_matrix", ctx, {"orders_one": o1, "orders_two": o2}, symmetric=False)
            R.note_function(f.qualname)
            ret = it.returns[0][1]
            want = G(o1, o2, False)
            R.check(isinstance(ret, Terms) and ret.equals(want), "TERM", f.site, f"G({o1},{o2})",
                    f"evaluate_deriv_reduced_density_matrix(p, q) is not sum_ab P_ab d^p phi_a d^q phi_b: {ret}"
                    + ("; non-linear step: " + "; ".join(getattr(ret, "nonlinear", ())) if getattr(ret, "nonlinear", ()) else ""), where=f.where(),
                    expected=str(want), found=str(ret) + ("  [" + "; ".join(getattr(ret, "nonlinear", ())) + "]" if getattr(ret, "nonlinear", ()) else ""))
    guarded("evaluate_deriv_reduced_density_matrix", rdm)

    def grad():
        f, it = run_fn(repo, "evaluate_density_gradient", ctx)
        R.note_function(f.qualname)
        ret = it.returns[0][1]
        ok = isinstance(ret, Table) and ret.axes == ["Pts", "I0"]
        R.check(ok, "LAYOUT", f.site, f"axes {getattr(ret, 'axes', None)}", "the gradient must be returned as (points, 3)", where=f.where())
        for k in range(3):
            got = ret.get((k,))
            want = R_of(E3[k])
            R.check(got.equals(want), "TERM", f.site, f"gradient[{k}] == R(e_{k})", f"gradient component {k}: {got.diff_str(want)}", where=f.where(),
                    expected=str(want), found=str(got))
    guarded("evaluate_density_gradient", grad)

    def lap():
        f, it = run_fn(repo, "evaluate_density_laplacian", ctx)
        R.note_function(f.qualname)
        ret = it.returns[0][1]
        want = LAP()
        R.check(isinstance(ret, Terms) and ret.equals(want), "TERM", f.site, "laplacian == sum_k R(2 e_k)",
                f"the Laplacian differs from sum_k d_k^2 rho: {ret.diff_str(want) if isinstance(ret, Terms) else ret}", where=f.where(), expected=str(want), found=str(ret))
    guarded("evaluate_density_laplacian", lap)

    def hess():
        f, it = run_fn(repo, "evaluate_density_hessian", ctx)
        R.note_function(f.qualname)
        ret = it.returns[0][1]
        ok = isinstance(ret, Table) and ret.axes[0] == "Pts" and sorted(ret.axes[1:]) == ["I0", "I1"]
        R.check(ok, "LAYOUT", f.site, f"axes {getattr(ret, 'axes', None)}", "the Hessian must be returned as (points, 3, 3)", where=f.where())
        if not ok:
            return
        from .c15 import final_element
        tr = Terms()
        for a in range(3):
            for b in range(3):
                got = final_element(ret, (a, b))
                want = R_of(vec_add(E3[a], E3[b]))
                R.check(got.equals(want), "TERM", f.site, f"hessian[{a}][{b}] == R(e_{a}+e_{b})",
                        f"Hessian entry ({a},{b}): {got.diff_str(want)}", where=f.where(), expected=str(want), found=str(got))
            tr = tr + final_element(ret, (a, a))
        R.check(tr.equals(LAP()), "TERM", f.site, "trace(hessian) == laplacian", "the trace of the Hessian is not the Laplacian", where=f.where())
    guarded("evaluate_density_hessian", hess)

    # ---- composite level
    def deriv_density():
        f = repo.func(MOD + "evaluate_deriv_density")
        R.note_function(f.qualname)
        bad = []
        wrong_backend = []
        all_backend_calls = []
        n = 0
        for L in itertools.product(range(7 if R.tier == "thorough" else 5), repeat=3):
            n += 1
            c2 = Ctx()
            ff, it = run_fn(repo, "evaluate_deriv_density", c2, {"orders": L})
            ret = it.returns[0][1]
            want = R_of(L)
            if not (isinstance(ret, Terms) and ret.equals(want)):
                bad.append((L, ret.diff_str(want) if isinstance(ret, Terms) else str(ret)))
            for cid, rec in c2.sites.items():
                ctx.sites[cid] = rec[:4]
            all_backend_calls.extend(getattr(c2, "backend_calls", []))
        R.check(not bad, "LEIBNIZ", f.site, "all 125 order triples with components 0..4",
                f"evaluate_deriv_density differs from the Leibniz expansion for {len(bad)} order triple(s), first {bad[0][0] if bad else ''}: "
                f"{bad[0][1] if bad else ''}", where=f.where(), expected="sum_l C(L,l) G(l, L-l)", found=f"{len(bad)} mismatches",
                detail={"triples": n})
        R.extra["leibniz_triples"] = n
        # back-end fallback, decided on the calls the interpreter actually made for the 125 order triples: a pair of order vectors
        # with a component above 2 must go to the general back-end (the direct one implements orders up to 2 only), every other pair
        # to the requested back-end
        calls = all_backend_calls
        wrong = []
        for o1, o2, actual, node in calls:
            want_b = "general" if max(tuple(o1) + tuple(o2)) > 2 else "fwd"
            if actual != want_b:
                wrong.append((o1, o2, actual, node))
        if not calls:
            raise AnalysisError("BACKEND", "no call of evaluate_deriv_reduced_density_matrix was interpreted in evaluate_deriv_density", f.where())
        R.check(not wrong, "BACKEND", f.site, f"back-end per order pair ({len(calls)} calls over the order triples)",
                "orders above 2 (in EITHER order vector) must go to the general back-end and the others to the requested one"
                + (f": the pair {wrong[0][0]}, {wrong[0][1]} is sent to the " + ("general" if wrong[0][2] == "general" else "requested") + " back-end" if wrong else ""),
                where=f.where(wrong[0][3]) if wrong else f.where(), expected="deriv_type='general' iff some order > 2", found=f"{len(wrong)} of {len(calls)} calls")
    guarded("evaluate_deriv_density", deriv_density)

    def posdef():
        f, it = run_fn(repo, "evaluate_posdef_kinetic_energy_density", ctx, until_threshold_test=True)
        R.note_function(f.qualname)
        val = it.env.get(tested_variable(f))
        want = Terms()
        for ek in E3:
            want = want + G(ek, ek)
        R.check(isinstance(val, Terms) and val.equals(want), "TERM", f.site, "sum_k G(e_k, e_k) (before the factor 1/2 and clipping)",
                f"the positive-definite kinetic energy density is not 1/2 sum_k G(e_k,e_k): {val}", where=f.where(), expected=str(want), found=str(val))
    guarded("evaluate_posdef_kinetic_energy_density", posdef)

    def general():
        f, it = run_fn(repo, "evaluate_general_kinetic_energy_density", ctx, {"alpha": ALPHA})
        R.note_function(f.qualname)
        ret = it.returns[0][1]
        want = Terms()
        for ek in E3:
            want = want + G(ek, ek) * sp.Rational(1, 2)
        want = want + LAP() * ALPHA
        # the positive-definite part is, by definition, the clipped routine's value: that one non-linear step is part of the definition
        R.check(isinstance(ret, Terms) and ret.equals(want, allow=("evaluate_posdef_kinetic_energy_density clips",)), "TERM", f.site, "posdef + alpha * laplacian",
                f"the general kinetic energy density is not t_+ + alpha * laplacian: {ret.diff_str(want) if isinstance(ret, Terms) else ret}",
                where=f.where(), expected=str(want), found=str(ret))
        for g, st, bad in guard_root_findings(it.guards):
            R.check(not bad, "GUARD-ROOT", f.site, f"if {g.var} != {g.value}: {ast.unparse(st)[:50]}",
                    f"update skipped at {g.var} == {g.value} although its coefficient is {[str(b[2]) for b in bad][:2]} there",
                    where=f.where(st))
    guarded("evaluate_general_kinetic_energy_density", general)

    threshold_rule(repo, R, "evaluate_density", 1)
    threshold_rule(repo, R, "evaluate_posdef_kinetic_energy_density", sp.Rational(1, 2))

    nsite = 0
    for cid, rec in ctx.sites.items():
        node, problems, short, ff = rec[:4]
        nsite += 1
        R.check(not problems, "FWD", ff.site, f"{short}(...)#{node.lineno - ff.node.lineno}", f"call of {short}: " + "; ".join(problems),
                where=ff.where(node), expected="transform=transform" + (", deriv_type=deriv_type" if "deriv_type" in ff.params else ""))
    R.floor("FWD", nsite, 10, "internal call sites of density.py")
    R.extra["internal_call_sites"] = nsite
    # every density-derived field is a sum of products of orbital values and derivatives: it equals its definition only if those are
    # exact (C05, every order - evaluate_deriv_density takes arbitrary orders)
    from ..report import compose
    from . import c05
    compose(R, "C05", c05.run, repo, why="densities are products of evaluated orbitals and their derivatives")
    R.assumptions += ["evaluate_basis / evaluate_deriv_basis return the orbital values and their derivatives (C05, composed into this check), axes (orbitals, points)",
                      "G(p,q)=G(q,p) for a symmetric density matrix (validated by the code before use)",
                      "loops over literal order tables and over range(L_k + 1) for constant L are unrolled (constant propagation)"]
    return ("TERMALG on density.py: orbital-level plumbing (P.dot(B(q)) * B(p), sum over the orbital axis; the Hessian's "
            "full/tensordot/einsum/triu pipeline with labelled axes) is interpreted with formal atoms, giving for each routine a formal "
            "sum of G(p,q): density = G(0,0); reduced density matrix derivative = G(p,q); gradient_k = R(e_k) returned as (points,3); "
            "Laplacian = sum_k R(2e_k); Hessian_ab = R(e_a+e_b), symmetric with trace = Laplacian; posdef KED = 1/2 sum_k G(e_k,e_k); "
            "general KED = posdef + alpha LAP with the alpha != 0 guard at a root of its coefficient; evaluate_deriv_density(L) equals "
            "the Leibniz expansion for all 125 triples with components 0..4 (decides the l_x symmetry shortcut and its factor), with "
            "requests above order 2 routed to the general back-end. FLOW: the two threshold checks raise exactly when min < 0 and "
            "|min| > threshold and otherwise return clip(min=0) of the checked array; transform/deriv_type forwarded at every call "
            "site. Not decided: 'to rounding error', non-negativity for PSD matrices (numerical consequences).")
