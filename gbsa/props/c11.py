"""C11 Index symmetries hold and reordering shells only reorders indices (rules G1-G4)."""
import ast

from ..assembly import BASES, GROUPS
from ..herm import Phase
from ..model import Func, EXCLUDED
from ..report import AnalysisError
from .c09 import run_assembly

SYMM_RULES = ("A5", "A1")


def kernel_overrides(repo, base_qual):
    base = repo.cls(base_qual)
    return [(c, g) for c, g in repo.concrete_overrides(base, "construct_array_contraction")
            if c.module.name not in EXCLUDED and g.module.name not in EXCLUDED]


def run(repo, R):
    R.rule("G1", "a block depends only on its own shells: kernels receive exactly the loop's shells and **kwargs and read no instance state")
    R.rule("G2", "two-index symmetric fill: lower = mirror(upper) with mirror in {swap, adjoint}, and adjoint whenever a kernel is not real")
    R.rule("G3", "all other two-index kernels are real, so swap and adjoint coincide")
    R.rule("G4", "every reused block has its axes permuted exactly like its grid index by a symmetry of the array kind; the enumeration "
                 "visits every orbit once and leaves no cell unassigned (two-index: S2, four-index: the 8-element group)")
    drivers, bounds = run_assembly(repo, R, R.tier)
    # ---- G4 (+ placement): only the placement / permutation findings of the assembly run belong here
    other = []
    for kind, d in drivers.items():
        for (rule, method, _n), (case, count, where, msg, expected, found) in sorted(d.fails.items(), key=lambda kv: str(kv[0])):
            placement = rule in SYMM_RULES and "kwargs" not in msg or "never assigned" in msg or "blocks assigned to" in msg \
                or "not a complete block table" in msg or "has blocks" in msg
            if placement:
                R.fail("G4", d.site(method), msg[:150], f"{msg}  [first case: {case}; {count} case(s)]",
                       where=where or f"{d.cls.module.relpath}:{d.cls.lookup(method).node.lineno}", expected=expected, found=found)
            elif rule != "A7":
                other.append((kind, method, rule, msg, where))
    if other and not R.findings:
        kind, method, rule, msg, where = other[0]
        raise AnalysisError("G4", f"the assembly of {kind}.{method} is ill-typed ({rule}: {msg[:120]}); block placement cannot be decided - see C09", where)
    n_perm = 0
    mirror = {}
    for kind, d in drivers.items():
        for m in ("construct_array_cartesian", "construct_array_spherical", "construct_array_mix"):
            R.note_function(f"{d.cls.qualname}.{m}")
        if not [k for k in d.fails]:
            R.ok("G4", d.cls.qualname[len("gbasis."):], f"{d.blocks} blocks: index permutation == axis permutation, in the symmetry group {len(GROUPS[kind])}",
                 detail={"group": GROUPS[kind], "shell_bound": str(bounds[kind])})
    # mirror kind of the symmetric two-index class: re-run and look at the conj flags of the swapped blocks
    from ..assembly import Assembly, leaves, check_block
    from ..axtype import Shell, AxTypeError, Raised
    from .c09 import KW, shells_for, patterns
    asm = Assembly(repo, "two_symm")
    for method, types in (("construct_array_cartesian", ("cartesian",) * 3), ("construct_array_spherical", ("spherical",) * 3),
                          ("construct_array_mix", ("cartesian", "spherical", "cartesian"))):
        shell_lists, types_lists = shells_for("two_symm", 3, types)
        args = [list(types)] if method.endswith("mix") else []
        try:
            it, res = asm.run(method, [shell_lists[0]], args=args, kwargs=dict(KW))
            kinds = set()
            for idx, leaf in leaves(res, 2):
                ok, msg, desc = check_block("two_symm", idx, leaf, shell_lists, types_lists, KW)
                if ok and desc[1] == (1, 0):
                    kinds.add("adjoint" if desc[2] else "swap")
                if ok and desc[1] == (0, 1) and desc[2]:
                    kinds.add("conj-unswapped")
        except (AxTypeError, Raised) as e:
            if R.findings:
                continue
            raise AnalysisError("G2", f"cannot classify the mirror fill of {method}: {getattr(e, 'msg', e)}")
        mirror[method] = kinds
    # ---- kernels: phase class
    ph = Phase(repo)
    nonreal = []
    classes = {}
    for c, g in kernel_overrides(repo, BASES["two_symm"][0]):
        p = ph.of_func(g)
        classes[c.name] = p
        R.note_function(g.qualname)
        if p != "real":
            nonreal.append((c, g, p))
    for method, kinds in mirror.items():
        site = f"base_two_symm.BaseTwoIndexSymmetric.{method}"
        if kinds <= {"adjoint"} and kinds:
            R.ok("G2", site, "mirror = adjoint (conjugate transpose)", detail={"kernel_classes": classes})
        elif kinds == {"swap"}:
            if nonreal:
                names = ", ".join(f"{c.name} ({p})" for c, g, p in nonreal)
                R.fail("G2", site, "mirror = plain transpose",
                       f"the lower triangle and the diagonal blocks are filled by plain transposition, but the kernels {names} are not real: "
                       f"their matrices come out symmetric instead of Hermitian",
                       where=f"gbasis/base_two_symm.py:{asm.cls.lookup(method).node.lineno}", expected="conjugate transpose (adjoint) fill",
                       found="np.swapaxes without conjugation")
            else:
                R.ok("G2", site, "mirror = swap; every kernel is real", detail={"kernel_classes": classes})
        else:
            R.fail("G2", site, f"mirror kinds {sorted(kinds)}", "the mirrored blocks are not uniformly transposed/adjoint",
                   where=f"gbasis/base_two_symm.py:{asm.cls.lookup(method).node.lineno}")
    # ---- G3: the other kinds of arrays have real kernels (their fills never conjugate)
    for kind in ("one", "two_asymm", "four_symm"):
        for c, g in kernel_overrides(repo, BASES[kind][0]):
            p = ph.of_func(g)
            R.note_function(g.qualname)
            R.check(p == "real", "G3", f"{c.module.name[len('gbasis.'):]}.{c.name}", f"kernel class = {p}",
                    f"{c.name}.construct_array_contraction is {p}; the {kind} assembly reuses blocks by plain axis swaps, which is only a "
                    f"symmetry for real kernels", where=g.where(), expected="real", found=p)
    # ---- G1: no instance state in kernels
    n_k = 0
    for kind, (qual, nidx) in BASES.items():
        for c, g in kernel_overrides(repo, qual):
            n_k += 1
            bad = []
            params = g.params
            recv = params[0] if g.kind in ("method", "classmethod") else None
            if g.kind == "method":
                for n in ast.walk(g.node):
                    if isinstance(n, ast.Attribute) and isinstance(n.value, ast.Name) and n.value.id == recv:
                        bad.append(n)
            elif g.kind == "classmethod":
                for n in ast.walk(g.node):
                    if isinstance(n, ast.Attribute) and isinstance(n.value, ast.Name) and n.value.id == recv:
                        r = c.lookup(n.attr)
                        if isinstance(r, ast.AST):
                            r = repo.resolve_alias(c.module, r)
                        if not isinstance(r, Func):
                            bad.append(n)
            R.check(not bad, "G1", f"{c.module.name[len('gbasis.'):]}.{c.name}.construct_array_contraction", f"{g.kind}: reads no instance/class data",
                    "the kernel consults instance state: " + ", ".join(ast.unparse(b) for b in bad[:4]) +
                    " - a block would depend on more than its own shells", where=g.where(bad[0]) if bad else g.where(),
                    expected="static/class method using only its shell arguments and keyword arguments")
            # its positional parameters are the shells, in order, then keywords
            R.check(len(params) - (1 if recv else 0) >= nidx, "G1", f"{c.module.name[len('gbasis.'):]}.{c.name}", "signature takes the shells",
                    "kernel takes fewer shells than the assembly passes", where=g.where(), nontrivial=False)
    # ---- the overlap screening decision is symmetric in its two shells (K(a,b) and K(b,a)^T are screened alike)
    try:
        from .c20 import screen_exprs
        import sympy as sp
        vl, vr, op, (ea, eb, A_, B_) = screen_exprs(repo)
        t1, t2, t3, t4 = sp.symbols("t1 t2 t3 t4")
        sw = lambda e: e.subs({ea: t1, eb: t2, A_: t3, B_: t4}).subs({t1: eb, t2: ea, t3: B_, t4: A_})
        sym = sp.simplify(sw(vl) - vl) == 0 and sp.simplify(sw(vr) - vr) == 0
        scr = repo.func("gbasis.integrals.overlap.is_integral_screened")
        R.note_function(scr.qualname)
        R.check(sym, "G2", scr.site, "screening decision symmetric under exchanging the two shells",
                "whether an overlap block is screened depends on which of the two shells is listed first: the matrix loses its symmetry and "
                "reordering shells changes more than the order of indices", where=scr.where(), expected="f(one, two) == f(two, one)",
                found=f"{vl} {op} {vr}")
    except AnalysisError:
        pass  # the screening formula itself is C20's business
    R.floor("G1", n_k, 10, "kernel overrides")
    R.extra.update({"kernel_phase_classes": classes, "mirror_kinds": {k: sorted(v) for k, v in mirror.items()},
                    "shell_bound": {k: str(v) for k, v in bounds.items()}})
    R.exhaustive = True
    R.assumptions += ["momentum-type operators are Hermitian, so their kernels satisfy K(b,a) = conj(K(a,b))^T in exact arithmetic",
                      "a kernel whose return expression factors as (imaginary constant) x (real arrays) is purely imaginary"]
    return ("AXTYPE run of the assembly methods (all type patterns, shell counts as in C09): every grid cell is assigned, holds the kernel "
            "block of its own shells, and a reused block has its axes permuted exactly like its grid index by an element of the array "
            "kind's symmetry group (S2 / the 8-element ERI group) (G4); the mirror operation of the symmetric two-index fill is "
            "classified swap/adjoint from the conj flag of the mirrored blocks and must be adjoint when a kernel's phase class is not "
            "real (G2, HERM); other kinds have real kernels (G3); kernels are static/class methods reading no instance data and receive "
            "exactly the loop's shells (G1). Not decided: numerical equality of independently computed orientations K(a,b) vs K(b,a)^T.")
