"""C09 Spherical, mixed and linearly transformed results derive from the Cartesian ones.

AXTYPE on the four base classes x {cartesian, spherical, mix, lincomb}; FLOW dispatch rule on the public wrappers.
"""
import ast
import itertools

import sympy as sp

from ..assembly import Assembly, BASES, GROUPS, leaves, check_block, expected_kernel_calls
from ..axtype import Arr, Shell, AxTypeError, Raised, dim, show_axes, show_axis
from ..flow import check_wrapper_dispatch
from ..report import AnalysisError

WRAPPERS = [
    "gbasis.integrals.overlap.overlap_integral",
    "gbasis.integrals.moment.moment_integral",
    "gbasis.integrals.kinetic_energy.kinetic_energy_integral",
    "gbasis.integrals.momentum.momentum_integral",
    "gbasis.integrals.angular_momentum.angular_momentum_integral",
    "gbasis.integrals.point_charge.point_charge_integral",
    "gbasis.integrals.electron_repulsion.electron_repulsion_integral",
    "gbasis.evals.eval.evaluate_basis",
    "gbasis.evals.eval_deriv.evaluate_deriv_basis",
]

KW = {"kw_alpha": "KW1", "kw_beta": "KW2"}  # two opaque keyword arguments that must reach every kernel call


def shells_for(kind, n, types):
    if kind == "two_asymm":
        n1, n2 = n
        one = [Shell(f"a{i}", types[0][i]) for i in range(n1)]
        two = [Shell(f"b{i}", types[1][i]) for i in range(n2)]
        return [one, two], [list(types[0]), list(types[1])]
    nidx = BASES[kind][1]
    sh = [Shell(f"c{i}", types[i]) for i in range(n)]
    return [sh] * nidx, [list(types)] * nidx


def patterns(n):
    return list(itertools.product(["cartesian", "spherical"], repeat=n))


class Driver:
    def __init__(self, repo, R, kind, bounds):
        self.repo, self.R, self.kind = repo, R, kind
        self.asm = Assembly(repo, kind)
        self.bounds = bounds
        self.fails = {}  # (rule, method, normalised message) -> (first case, count, where, msg)
        self.runs = 0
        self.blocks = 0
        self.sites = {"kernel": set(), "norm": set(), "transform": set()}
        self.cls = self.asm.cls

    def site(self, method):
        return f"{self.cls.module.name[len('gbasis.'):]}.{self.cls.name}.{method}"

    def record_fail(self, rule, method, msg, where, case, expected=None, found=None):
        import re
        norm = re.sub(r"\b[abc]\d\b", "s", msg)
        norm = re.sub(r"\(\d+(, \d+)*,?\)", "(idx)", norm)
        key = (rule, method, norm[:200])
        for (r2, m2, n2) in self.fails:
            if n2 == norm[:200] and (r2, m2) != (rule, method) and rule == "A6":
                return  # same root cause already reported for the method that lincomb delegates to
        if key not in self.fails:
            self.fails[key] = [case, 0, where, msg, expected, found]
        self.fails[key][1] += 1

    def cases(self):
        if self.kind == "two_asymm":
            for n1, n2 in self.bounds:
                for t1 in patterns(n1):
                    for t2 in patterns(n2):
                        yield (n1, n2), (t1, t2)
        else:
            for n in self.bounds:
                for t in patterns(n):
                    yield n, t

    def uniform(self, types):
        flat = types[0] + types[1] if self.kind == "two_asymm" else types
        if all(t == "cartesian" for t in flat):
            return "cartesian"
        if all(t == "spherical" for t in flat):
            return "spherical"
        return None

    def mix_args(self, tl):
        if self.kind == "two_asymm":
            return [list(tl[0]), list(tl[1])]
        return [list(tl[0])]

    def run_case(self, method, n, types, args):
        shell_lists, types_lists = shells_for(self.kind, n, types)
        lists = shell_lists if self.kind == "two_asymm" else [shell_lists[0]]
        first = None
        mk_args = (lambda: args(types_lists)) if callable(args) else args
        for oracle, out in self.asm.run_paths(method, lists, args=mk_args, kwargs=dict(KW)):
            self.runs += 1
            case = f"{self.kind} n={n} types={types}" + (f" angmom={oracle}" if oracle else "")
            if isinstance(out, AxTypeError):
                e = out
                rule = "A-TYPE"
                mm = getattr(e, "mismatch", None)
                if mm is not None:
                    from ..axtype import shells_of_axis
                    # blocks of different shells meet in one row/column: a block sits at the wrong grid position
                    rule = "A5" if shells_of_axis(mm[0]) != shells_of_axis(mm[1]) else "A4"
                elif "never assigned" in e.msg or "blocks assigned to" in e.msg:
                    rule = "A5"
                self.record_fail(rule, method, e.msg, getattr(e, "where", None) or self._where(e), case, e.expected, e.found)
                continue
            if isinstance(out, Raised):
                self.record_fail("A-TYPE", method, f"the method raises on a valid input: `{ast.unparse(out.node)[:80]}`", None, case)
                continue
            if isinstance(out, Exception):
                raise out
            it, res = out
            if first is None:
                first = (it, res, shell_lists, types_lists, case)
            else:
                self.check_result(method, it, res, shell_lists, types_lists, case)  # further angmom cases: same obligations
        return first

    def _where(self, e):
        n = e.node
        if n is not None and hasattr(n, "lineno"):
            return f"{self.cls.module.relpath}:{n.lineno}"
        return None

    def check_result(self, method, it, res, shell_lists, types_lists, case, descs=None):
        kind = self.kind
        nidx = BASES[kind][1]
        if not isinstance(res, Arr):
            self.record_fail("A-BLOCK", method, f"the method returns {res!r}, not an array", None, case)
            return None
        try:
            lv = leaves(res, nidx)
        except AxTypeError as e:
            self.record_fail("A-BLOCK", method, e.msg, None, case)
            return None
        counts = [len(shell_lists[m]) for m in range(nidx)]
        want_idx = set(itertools.product(*[range(c) for c in counts]))
        got_idx = [i for i, _ in lv]
        if set(got_idx) != want_idx or len(got_idx) != len(want_idx):
            self.record_fail("A5", method, f"the assembled array has blocks {sorted(set(got_idx))}, expected every index in {sorted(want_idx)} once", None, case)
            return None
        out = {}
        for idx, leaf in lv:
            self.blocks += 1
            ok, msg, desc = check_block(kind, idx, leaf, shell_lists, types_lists, KW)
            if not ok:
                rule = "A1" if "kwargs" in msg else ("A2/A3" if "operations applied" in msg or "norm" in msg else (
                    "A5" if "reuses" in msg or "comes from kernel" in msg else ("A3-TYPE" if "but that shell is" in msg else "A4")))
                self.record_fail(rule, method, msg, None, case)
            out[idx] = desc
        # A1: kernel evaluated for the shells in loop order, once per unique block
        want_calls = [tuple(s.name for s in c) for c in expected_kernel_calls(kind, shell_lists)]
        got_calls = [tuple(s.name for s in c[0]) for c in it.kernel_calls]
        if got_calls != want_calls:
            self.record_fail("A1", method, f"kernel evaluated for {got_calls}; expected {want_calls} (loop order over the shell list, unique blocks)", None, case)
        for c in it.kernel_calls:
            self.sites["kernel"].add(c[2])
        for ev in it.events:
            if ev[0] == "transform-site":
                self.sites["transform"].add(ev[3])
        return out

    def go(self):
        R = self.R
        kind = self.kind
        results = {}
        for n, types in self.cases():
            uni = self.uniform(types)
            tl = shells_for(kind, n, types)[1]
            # dedicated methods for uniform patterns
            if uni is not None:
                r = self.run_case(f"construct_array_{uni}", n, types, ())
                if r:
                    results[(uni, n, types)] = self.check_result(f"construct_array_{uni}", *r)
            r = self.run_case("construct_array_mix", n, types, lambda tls: self.mix_args(tls))
            if r:
                d = self.check_result("construct_array_mix", *r)
                results[("mix", n, types)] = d
                if uni is not None and results.get((uni, n, types)) is not None and d is not None:
                    same = d == results[(uni, n, types)]
                    if not same:
                        self.record_fail("A7", "construct_array_mix", f"for an all-{uni} basis the mix path and construct_array_{uni} "
                                         f"produce differently typed blocks", None, f"{kind} n={n}")
            self.lincomb_case(n, types, tl)
        return results

    def lincomb_case(self, n, types, tl):
        kind = self.kind
        nidx = BASES[kind][1]
        method = "construct_array_lincomb"
        combos = [("T", "T")] if kind != "two_asymm" else [("T", "T"), (None, "T"), ("T", None), (None, None)]
        for combo in combos:
            shell_lists, types_lists = shells_for(kind, n, types)
            lists = shell_lists if kind == "two_asymm" else [shell_lists[0]]
            if kind == "two_asymm":
                t1 = Arr([dim("Orb", None, "transform_one"), dim("Bas", "transform_one")], ("ext", "transform_one")) if combo[0] else None
                t2 = Arr([dim("Orb", None, "transform_two"), dim("Bas", "transform_two")], ("ext", "transform_two")) if combo[1] else None
                args = [t1, t2, list(tl[0]), list(tl[1])]
            else:
                t1 = Arr([dim("Orb", None, "transform"), dim("Bas", "transform")], ("ext", "transform"))
                args = [t1, list(tl[0])]
            it = self.asm.new_interp()
            called = []
            for m in ("cartesian", "spherical", "mix"):
                f = self.cls.lookup("construct_array_" + m)

                def post(result, m=m, it=it):
                    called.append(m)
                    if not isinstance(result, Arr):
                        return result
                    axes = list(result.axes)
                    for k in range(nidx):
                        axes[k] = dim("basis", k, axes[k])
                    return result.with_(axes=axes)
                it.hooks[("post", f.qualname)] = post
            self.runs += 1
            case = f"{kind} n={n} types={types} transforms={combo}"
            try:
                res = it.call_function(self.cls.lookup(method), [self.asm.make_self(lists)] + args, dict(KW), None)
            except AxTypeError as e:
                self.record_fail("A6", method, e.msg, self._where(e), case, e.expected, e.found)
                continue
            except Raised as r:
                self.record_fail("A6", method, f"raises on a valid input: `{ast.unparse(r.node)[:80]}`", None, case)
                continue
            uni = self.uniform(types)
            want_called = [uni or "mix"]
            if called != want_called:
                self.record_fail("A6", method, f"dispatches a {uni or 'mixed'} basis to {called}", None, case)
            for c in it.kernel_calls:
                if c[1] != KW:
                    self.record_fail("A6", method, f"kwargs {c[1]} reach the kernel; {KW} were given", None, case)
                    break
            if not isinstance(res, Arr):
                self.record_fail("A6", method, f"returns {res!r}", None, case)
                continue
            want = []
            for k in range(nidx):
                if kind == "two_asymm":
                    which = "transform_one" if k == 0 else "transform_two"
                    if combo[k] is None:
                        want.append(("basis", k))
                        continue
                else:
                    which = "transform"
                want.append(("Orb", k, which))
            got = []
            for ax in res.axes[:nidx]:
                if ax[0] == "dim" and ax[1][0] == "Orb":
                    got.append(ax[1])
                elif ax[0] == "dim" and ax[1][0] == "basis":
                    got.append(("basis", ax[1][1]))
                else:
                    got.append(("?", show_axis(ax)))
            ok = got == want and len(res.axes) == nidx + 1 and res.axes[-1][0] == "rest"
            if not ok:
                self.record_fail("A6", method, f"result axes {show_axes(res.axes)}: basis positions carry {got}, expected {want} followed by the kernel's trailing axes "
                                 "(T applied to every basis index, orbitals in place of the basis index they transform)", None, case)
            lin = [h for h in res.history if h[0] == "lincomb"]
            if sorted(h[1] for h in lin) != [k for k in range(nidx) if want[k][0] == "Orb"]:
                self.record_fail("A6", method, f"transformations applied to basis positions {[h[1] for h in lin]}", None, case)

    def report(self):
        R = self.R
        for (rule, method, _norm), (case, count, where, msg, expected, found) in sorted(self.fails.items(), key=lambda kv: str(kv[0])):
            R.fail(rule, self.site(method), msg[:150], f"{msg}  [first case: {case}; {count} case(s)]",
                   where=where or f"{self.cls.module.relpath}:{self.cls.lookup(method).node.lineno}", expected=expected, found=found)


def run_assembly(repo, R, tier, rules_prefix=""):
    bounds = {
        "one": [1, 2, 3],
        "two_symm": [1, 2, 3],
        "two_asymm": [(1, 1), (2, 1), (1, 2), (2, 2)],
        "four_symm": [1, 2, 3],  # three distinct shells make all eight symmetry-related index tuples distinct
    }
    if tier == "thorough":
        bounds = {"one": [1, 2, 3, 4], "two_symm": [1, 2, 3, 4], "two_asymm": [(1, 1), (2, 1), (1, 2), (2, 2), (3, 2), (2, 3), (3, 3)],
                  "four_symm": [1, 2, 3]}
    drivers = {}
    for kind in BASES:
        d = Driver(repo, R, kind, bounds[kind])
        d.go()
        drivers[kind] = d
    return drivers, bounds


def run(repo, R):
    R.rule("PITFALL", "no result buffer typed after an input, no real cast of a transformation, no unbuffered accumulation / first-occurrence scatter through np.unique")
    from ..pitfalls import report as _pitfalls
    _pitfalls(repo, R, ['gbasis.base', 'gbasis.base_one', 'gbasis.base_two_symm', 'gbasis.base_two_asymm', 'gbasis.base_four_symm', 'gbasis.spherical'])
    # the public wrappers that dispatch on the coordinate types: every branch must bind what it returns
    _pitfalls(repo, R, ['gbasis.integrals', 'gbasis.evals'], kinds=("UNDEF",), only=lambda f_: not f_.name.startswith("_") and "." not in f_.qualname[len(f_.module.name) + 1:])
    R.rule("A1", "every block is self.construct_array_contraction(shells in loop order, **kwargs), once per unique block")
    R.rule("A2/A3", "per index position exactly one in-place multiply by that shell's norm_cont on its (M,L) axes, then - iff the shell is "
                    "spherical - one tensordot with that shell's own Cartesian->spherical matrix contracting L")
    R.rule("A3-TYPE", "a basis axis carries spherical components exactly for the shells declared spherical (own transformation applied, never an identity)")
    R.rule("A4", "every basis axis is flattened segment-major as (M[s]*C[s]), trailing kernel axes untouched and last")
    R.rule("A5", "blocks are concatenated over the shells in list order; a reused block has its axes permuted like its grid index, "
                 "by a symmetry of the array kind")
    R.rule("A6", "construct_array_lincomb dispatches by coordinate types, forwards kwargs, and contracts T's second axis with every basis "
                 "axis leaving (Orb.., trailing) in order; asymmetric: None skips that side only")
    R.rule("A7", "for a uniform type pattern the mix path produces the same typed blocks as the dedicated path")
    R.rule("A-TYPE", "the assembly code is well-typed in the axis-provenance domain (tensordot/broadcast/reshape/concatenate agree on provenance)")
    R.rule("DISPATCH", "public wrappers: transform -> lincomb; all cartesian -> cartesian; all spherical -> spherical; else mix; identical keywords")
    drivers, bounds = run_assembly(repo, R, R.tier)
    total_runs = total_blocks = 0
    for kind, d in drivers.items():
        d.report()
        total_runs += d.runs
        total_blocks += d.blocks
        for m in ("construct_array_cartesian", "construct_array_spherical", "construct_array_mix", "construct_array_lincomb"):
            R.note_function(f"{d.cls.qualname}.{m}")
            bad = [k for k in d.fails if k[1] == m]
            if not bad:
                R.ok("A-CONTRACT", d.site(m), f"contract A holds for every shell count in {bounds[kind]} and every type pattern",
                     detail={"runs": d.runs, "blocks_checked": d.blocks, "kernel_sites": sorted(d.sites["kernel"]),
                             "transform_sites": sorted(d.sites["transform"])})
    ksites = set().union(*[d.sites["kernel"] for d in drivers.values()])
    tsites = set().union(*[d.sites["transform"] for d in drivers.values()])
    R.extra.update({"abstract_runs": total_runs, "blocks_checked": total_blocks, "shell_bound": {k: str(v) for k, v in bounds.items()},
                    "type_patterns": "all 2^n per shell list", "kernel_call_sites": sorted(ksites), "transform_sites": sorted(tsites)})
    R.exhaustive = True
    R.floor("A1", len(ksites), 6, "kernel call sites exercised")
    R.floor("A3", len(tsites), 8, "generate_transformation sites exercised")
    n = 0
    for w in WRAPPERS:
        f = repo.func(w)
        R.note_function(f.qualname)
        n += check_wrapper_dispatch(repo, f, R, "DISPATCH")
    R.floor("DISPATCH", n, 24, "wrapper dispatch call sites")
    # the two special wrappers
    f = repo.func("gbasis.integrals.overlap_asymm.overlap_integral_asymmetric")
    R.note_function(f.qualname)
    check_asym_wrapper(repo, f, R)
    f = repo.func("gbasis.integrals.nuclear_electron_attraction.nuclear_electron_attraction_integral")
    R.note_function(f.qualname)
    check_nuc_wrapper(repo, f, R)
    # "for every quantity": the density-derived quantities hand the transformation down to the evaluations / integrals they are built
    # from; a call site that drops it returns the untransformed quantity
    if len(getattr(R, "chain", [R.pid])) == 1:  # only when C09 itself is the property being checked
        from ..report import compose as _compose
        from . import c06 as _c06, c14 as _c14, c15 as _c15
        for _pid, _m in (("C06", _c06), ("C14", _c14), ("C15", _c15)):
            _compose(R, _pid, _m.run, repo, keep=lambda fd: fd.rule.endswith("/FWD") and "C09/" not in fd.rule,
                     why="transform forwarded at every internal call site of the derived quantities")
    R.assumptions += [
        "numpy semantics of tensordot/swapaxes/transpose/moveaxis/concatenate/reshape/broadcasting as modelled in gbsa/axtype.py",
        "shell-list loops verified for the stated numbers of shells; sizes are symbolic (tags, not numbers, are compared)",
        "kernels honour contract K: (M_1, L_1, [M_2, L_2, ...], trailing) - decided per kernel under C01-C08",
    ]
    return ("AXTYPE abstract interpretation of construct_array_{cartesian,spherical,mix,lincomb} of the four base classes on "
            "symbolic, pairwise-distinct shells (axis-provenance tags instead of sizes) for every coordinate-type pattern up to the "
            "shell bound, checking contract A per block (kernel call and kwargs, norm once per index before the transform, own "
            "transform for spherical shells, segment-major flattening, placement and permutation of reused blocks, T on every basis "
            "index); FLOW dispatch rule on the 9 public wrappers + the asymmetric and nuclear wrappers. Decided: the structural "
            "derivation of spherical/mixed/transformed results from Cartesian kernel blocks. Not decided: numerical equality to "
            "rounding, and the content of the Cartesian->spherical matrix itself (C10).")


def check_asym_wrapper(repo, f, R):
    fn = f.node
    calls = [n for n in ast.walk(fn) if isinstance(n, ast.Call) and isinstance(n.func, ast.Attribute) and n.func.attr.startswith("construct_array_")]
    if len(calls) != 1:
        raise AnalysisError("DISPATCH", "overlap_integral_asymmetric: expected a single assembly call", f.where())
    c = calls[0]
    from ..flow import coord_type_list_ok
    p = f.params
    ok = c.func.attr == "construct_array_lincomb" and len(c.args) == 4 and not c.keywords and \
        [ast.unparse(a) for a in c.args[:2]] == ["transform_one", "transform_two"] and \
        [ast.unparse(a) for a in c.func.value.args] == [p[0], p[1]]
    R.check(ok, "DISPATCH", f.site, ast.unparse(c)[:100], "the asymmetric wrapper must hand (transform_one, transform_two, types one, types two) "
            "for (basis_one, basis_two) to construct_array_lincomb", where=f.where(c))
    for k, basis in enumerate(p[:2]):
        a = c.args[2 + k] if len(c.args) == 4 else None
        ok2, how = coord_type_list_ok(fn, ast.unparse(a), basis) if isinstance(a, ast.Name) else (False, "?")
        R.check(ok2, "DISPATCH", f.site, f"coordinate types of {basis}",
                f"the coordinate types given for basis {k + 1} must be the coord_type of the shells of `{basis}`", where=f.where(c),
                expected=f"[shell.coord_type for shell in {basis}]", found=how)


def check_nuc_wrapper(repo, f, R, inputs_rule=False):
    fn = f.node
    rets = [n for n in ast.walk(fn) if isinstance(n, ast.Return)]
    if len(rets) != 1:
        raise AnalysisError("DISPATCH", "nuclear_electron_attraction_integral: expected a single return", f.where())
    from ..astutil import Defs as _Defs
    D_ = _Defs(fn)

    def res(n, depth=0):
        while isinstance(n, ast.Name) and depth < 5:
            d_ = D_.single_assign(n.id)
            if d_ is None:
                break
            n = d_
            depth += 1
        return n
    v = res(rets[0].value)
    p = f.params
    # np.sum(X, axis=2) or X.sum(axis=2) with X = point_charge_integral(...), possibly through named temporaries
    inner = None
    axis = None
    if isinstance(v, ast.Call) and ast.unparse(v.func) in ("np.sum", "numpy.sum") and v.args:
        inner = res(v.args[0])
        axis = [ast.unparse(k.value) for k in v.keywords if k.arg == "axis"] + [ast.unparse(a) for a in v.args[1:]]
    elif isinstance(v, ast.Call) and isinstance(v.func, ast.Attribute) and v.func.attr == "sum":
        inner = res(v.func.value)
        axis = [ast.unparse(k.value) for k in v.keywords if k.arg == "axis"] + [ast.unparse(a) for a in v.args]
    if not (isinstance(inner, ast.Call) and ast.unparse(inner.func) == "point_charge_integral"):
        raise AnalysisError("DISPATCH", "nuclear wrapper idiom not recognised", f.where(rets[0]))
    callee = repo.func("gbasis.integrals.point_charge.point_charge_integral")
    bound = dict(zip(callee.params, [ast.unparse(a) for a in inner.args]))
    for k in inner.keywords:
        if k.arg is not None:
            bound[k.arg] = ast.unparse(k.value)
    want = dict(zip(callee.params[:3], p[:3]))
    want["transform"] = "transform"
    got = {k: bound.get(k) for k in want}
    R.check(got == want and set(bound) <= set(want), "DISPATCH", f.site, "point_charge_integral(" + ", ".join(f"{k}={v_}" for k, v_ in bound.items()) + ")",
            "all four arguments must be forwarded to point_charge_integral", where=f.where(inner), expected=want, found=bound)
    # the forwarded names must still be the caller's arrays: any rebinding on any path has to be value-preserving; a boolean
    # filter applied to coordinates and charges alike may only drop zero charges (the sum is linear in the charges)
    from ..formula import rebound_inputs, strip_restrict, selection_keeps_all_relevant, classify_rebinding
    rebound, syms = rebound_inputs(f, set(p[:3]) | {"transform"}, rule="DISPATCH") if inputs_rule else ([], {})
    for name, val, st in rebound:
        core, conds = strip_restrict(val) if hasattr(val, "atoms") else (val, [])
        kind = classify_rebinding(core, syms[name])
        if kind == "unknown":
            raise AnalysisError("DISPATCH", f"`{ast.unparse(st)[:80]}` rebinds the forwarded input `{name}` to a value that is not modelled", f.where(st))
        same = kind == "same"
        if same and conds:
            zsym = syms[p[2]]
            conds = [c.subs(syms[name], zsym) if name == p[2] else c for c in conds]
            same = all(selection_keeps_all_relevant(c, zsym) for c in conds)
            why = f"`{name}` is filtered by `{sp.And(*conds)}` before the integrals are summed: a point charge that does not satisfy it " \
                  "is left out of the nuclear attraction although its charge is not zero"
        else:
            why = f"`{name}` is replaced by another value before it reaches point_charge_integral"
        R.check(same, "DISPATCH", f.site, "forwarded input " + ast.unparse(st)[:80], why, where=f.where(st),
                expected=f"{name} forwarded unchanged (or only zero charges skipped)", found=str(val)[:100])
    R.check(axis == ["2"], "DISPATCH", f.site, "np.sum(..., axis=2)", "the nuclear attraction is the sum over the point-charge axis (axis 2)",
            where=f.where(v), expected="axis=2", found=axis)
