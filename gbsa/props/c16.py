"""C16 Analytic integrals and pointwise evaluations describe the same functions - STRUCTURAL PREMISE ONLY."""
import ast

import sympy as sp

from ..kernels import K_labels
from ..report import AnalysisError
from .allkernels import run_all
from . import c05


def run(repo, R):
    R.rule("SLOT", "integral side: every public kernel is well-typed with the shells' own attributes in matching slots and has type K; evaluation side: "
                   "both back-ends receive the shell's own attributes of the same role")
    R.rule("PIPE", "one-index and two-index assembly apply the same per-index pipeline (contract A: norm once, own transform iff spherical, segment-major)")
    R.rule("NORMSIB", "the in-kernel primitive normalisations (one- and two-electron kernels) are the same function as norm_prim_cart")
    # the property names the overlap, moment and kinetic-energy matrices (and densities built on the evaluations): the other operators
    # (point charge, electron repulsion, momentum, angular momentum) have no evaluated counterpart here
    runs = run_all(repo, R, rule="SLOT", names=("overlap", "moment", "kinetic"))
    n = 0
    for name, f, ex in runs:
        if ex is None:
            continue
        st, ret = ex.returns[-1]
        nsh = 4 if name.startswith("electron") else 2
        labs = [l.base for l in (ret.labels or [])][: 2 * nsh]
        want = K_labels(nsh)
        ok = all(g == w or (g is None and w[1] == "L") for g, w in zip(labs, want)) and len(labs) == 2 * nsh
        R.check(ok, "SLOT", f.site, f"[{name}] type K", f"[{name}] the kernel returns axes {ret.labels}; both halves of the library index functions as (segment, component) "
                f"of the shells in argument order", where=f.where(), expected=str(want), found=str(ret.labels))
        n += 1
    R.floor("SLOT", n, 3, "integral kernel runs")
    c05.run_slots(repo, R)
    # assembly pipelines
    from .c09 import run_assembly
    drivers, bounds = run_assembly(repo, R, R.tier)
    for kind in ("one", "two_symm"):
        d = drivers[kind]
        rel = [(k, v) for k, v in d.fails.items() if k[0] in ("A2/A3", "A3-TYPE", "A4", "A-TYPE", "A1")]
        for (rule, method, _n), (case, count, where, msg, expected, found) in rel:
            R.fail("PIPE", d.site(method), msg[:150], f"{msg}  [first case: {case}; {count} case(s)]",
                   where=where or f"{d.cls.module.relpath}:{d.cls.lookup(method).node.lineno}", expected=expected, found=found)
        if not rel:
            R.ok("PIPE", d.cls.qualname[len("gbasis."):], f"contract A per index in {d.blocks} blocks ({kind})")
    # normalisation siblings: (2a/pi)^(3/4) (4a)^(l/2) / sqrt(prod (2 n_c - 1)!!)  ==  norm_prim_cart
    from ..formula import Elem, Prod
    f = repo.func("gbasis.contractions.GeneralizedContractionShell.norm_prim_cart")
    R.note_function(f.qualname)
    a = sp.Symbol("a", positive=True)
    l = sp.Symbol("l", integer=True, nonnegative=True)
    nc = sp.Symbol("n_c", integer=True, nonnegative=True)

    class E(Elem):
        def expr(self, e):
            if isinstance(e, ast.Attribute) and isinstance(e.value, ast.Name) and e.value.id == "self" and e.attr in ("exps", "angmom", "angmom_components_cart"):
                return {"exps": a, "angmom": l, "angmom_components_cart": nc}[e.attr]
            return super().expr(e)
    ev = E(f, {}, handlers={"factorial2": lambda i, c_: sp.Function("F2")(i.expr(c_.args[0]))}, rule="NORMSIB")
    comps = sp.symbols("a_x a_y a_z", integer=True, nonnegative=True)
    ev.component_symbols = (nc, comps)
    ev.run()
    got = ev.returns[0][1]
    F2 = sp.Function("F2")
    want = (2 * a / sp.pi) ** sp.Rational(3, 4) * (4 * a) ** (l / 2) / sp.sqrt(Prod(F2(2 * nc - 1)))

    def spell(e):
        # the product over the component axis written out for x, y, z (a column picked by a constant index is already written so)
        return e.replace(lambda z: isinstance(z, Prod), lambda z: sp.Mul(*[z.args[0].subs(nc, c_) for c_ in comps]))
    got, want = spell(got), spell(want)
    R.check(sp.simplify(got / want - 1) == 0, "NORMSIB", f.site, "norm_prim_cart == (2a/pi)^(3/4) (4a)^(l/2) / sqrt(prod_c (2 n_c - 1)!!)",
            "norm_prim_cart is no longer the closed form that the one- and two-electron kernels apply in two pieces (exponent part before the contraction, "
            "component part at the end): integrals and evaluations would be normalised differently", where=f.where(), expected=str(want), found=str(got))
    # ---- the two halves themselves.  Integrating exact evaluations reproduces exact integrals; a defect on one side only (what a
    # single change produces) breaks the agreement.  So every finding of the exactness checks of the operators this property names
    # is a finding here too: overlap (C01), kinetic energy (C02), moments (C07) on the integral side; function values and first
    # derivatives (C05, orders <= 1) and the density / positive-definite kinetic-energy density (C06) on the evaluation side.
    from ..report import compose
    from . import c01, c02, c07, c06

    def c05_keep(fd):
        txt = f"{fd.site} {fd.construct} {fd.message}"
        if "_second_derivative" in txt or "order 2" in txt:
            return False  # second derivatives are not used by any quantity this property names
        if fd.rule.endswith("/GUARD-DOMAIN"):
            return False  # concerns requests of order > 2
        if fd.rule.endswith("/GENERAL") or fd.rule.endswith("/DEF"):
            import re
            pairs = re.findall(r"\((\d+), (\d+)\)", fd.message)
            if pairs and all(int(m_) >= 2 for m_, _n in pairs):
                return False
        return True

    c06_sites = ("evaluate_density", "evaluate_density_using_evaluated_orbs", "evaluate_deriv_reduced_density_matrix",
                 "evaluate_posdef_kinetic_energy_density")

    def c06_keep(fd):
        return fd.site.split(".")[-1] in c06_sites

    compose(R, "C01", c01.run, repo, why="products of evaluated functions integrate to the overlap matrix: the overlap must be exact")
    compose(R, "C02", c02.run, repo, why="half the products of gradients integrate to the kinetic matrix: the kinetic energy integrals must be exact")
    compose(R, "C07", c07.run, repo, why="products of evaluated functions times powers of r integrate to the moment matrices")
    compose(R, "C05", c05.run, repo, keep=c05_keep, why="function values and first derivatives are what is integrated (orders <= 1)")
    compose(R, "C06", c06.run, repo, keep=c06_keep, why="the density integrates to tr(DS), the positive-definite kinetic-energy density to tr(DT)")
    R.assumptions += ["C03/C04 establish that the kernels apply exactly (2a/pi)^(3/4) (4a)^(l/2) and 1/sqrt(prod (2 n_c - 1)!!) per shell",
                      "the quadrature statement of the property is numerical"]
    return ("STRUCTURAL PREMISE + COMPOSED EXACTNESS (C01, C02, C07; C05 orders <= 1; C06 density / positive-definite kinetic-energy "
            "density - see coverage.composed): both halves of the library take primitive norms, component order, contraction norms and the "
            "Cartesian->spherical matrix from the same shell API and apply them identically - the overlap, moment and kinetic-energy kernel runs are well-typed "
            "with type K (a wrong shell's attribute in a slot is a provenance mismatch), both evaluation back-ends receive the shell's own "
            "attributes in matching slots, the one-index and two-index assemblies satisfy the same per-index contract A, and norm_prim_cart "
            "is symbolically the closed form that the one-/two-electron kernels apply in two pieces. The quadrature statement itself "
            "(numerical agreement of integrated evaluations with analytic integrals) is NOT decided.")
