"""C08 Momentum and angular-momentum integrals are exact and Hermitian (structural clauses)."""
import ast

import sympy as sp

from ..herm import Phase, unit_factor
from ..kernels import contraction_normal_form, expect_labels, K_labels, gather_table
from ..stencil import Gather, Stack, Contract, c
from ..stencil_spec import Finding, check_moment_kernel, Cm
from ..report import AnalysisError
from .momfam import run_kernel, run_kernel_forks, cover_rule, report, sub_extractor
from .difffam import check_diff_extractor, order_vector_of_core, shell_roles
from .mpt import must_pass_through

MOM = "gbasis.integrals.momentum.MomentumIntegral.construct_array_contraction"
ANG = "gbasis.integrals.angular_momentum.AngularMomentumIntegral.construct_array_contraction"


def split_numeric(e):
    """e = number * rest (the number may be complex)"""
    num = sp.Integer(1)
    rest = []
    for a in sp.Mul.make_args(e):
        if a.is_number:
            num = num * a
        else:
            rest.append(a)
    return num, sp.Mul(*rest)


def mirror_kinds(repo):
    """Mirror operation of BaseTwoIndexSymmetric per assembly method: {'adjoint'} / {'swap'} / mixed."""
    from ..assembly import Assembly, leaves, check_block
    from ..axtype import AxTypeError, Raised
    from .c09 import KW, shells_for
    asm = Assembly(repo, "two_symm")
    out = {}
    for method, types in (("construct_array_cartesian", ("cartesian",) * 3), ("construct_array_spherical", ("spherical",) * 3),
                          ("construct_array_mix", ("cartesian", "spherical", "cartesian"))):
        shell_lists, types_lists = shells_for("two_symm", 3, types)
        args = [list(types)] if method.endswith("mix") else []
        kinds = set()
        try:
            it, res = asm.run(method, [shell_lists[0]], args=args, kwargs=dict(KW))
            for idx, leaf in leaves(res, 2):
                ok, msg, desc = check_block("two_symm", idx, leaf, shell_lists, types_lists, KW)
                if ok and desc[1] == (1, 0):
                    kinds.add("adjoint" if desc[2] else "swap")
                if ok and desc[1] == (0, 1) and desc[2]:
                    kinds.add("conj-unswapped")
                if not ok:
                    kinds.add("ill-typed")
        except (AxTypeError, Raised) as e:
            kinds.add("ill-typed")
        out[method] = (kinds, asm.cls.lookup(method))
    return out


def analyse_momentum(repo, R, f, ex, findings, tag=""):
    """The momentum kernel on one path through its scalar branches (`tag` names the outcome of each)."""
    st, ret = ex.returns[-1]
    labs = [l.base for l in (ret.labels or [])]
    ok = len(labs) == 5 and labs[:4] == K_labels(2) and isinstance(labs[4], tuple) and labs[4][0] == "ordrow"
    if not ok:
        findings.append(Finding("K", None, f"MomentumIntegral returns axes {ret.labels}; contract K requires (M_1, L_1, M_2, L_2, xyz-of-operator)",
                                construct="returned axes", expected="(M_1, L_1, M_2, L_2, component)", found=str(ret.labels)))
    else:
        rows = ex.shared["order_tables"][labs[4][1]]
        if [tuple(r) for r in rows] != [(1, 0, 0), (0, 1, 0), (0, 0, 1)]:
            findings.append(Finding("ORDERS", None, f"the derivative orders along the last axis are {rows}; components must be d/dx, d/dy, d/dz in this order",
                                    construct="order table", expected="[[1,0,0],[0,1,0],[0,0,1]]", found=str(rows)))
    dsubs = sub_extractor(ex, "_compute_differential_operator_integrals_intermediate")
    if len(dsubs) != 1:
        raise AnalysisError("STENCIL", "the momentum kernel does not reach the derivative table exactly once", f.where())
    info = check_diff_extractor(repo, dsubs[0], findings)
    minfo = check_moment_kernel(repo, info["moment"].func, None, findings, ex=info["moment"])
    for s_, name_, _r in minfo["stores"]:
        if not [fd for fd in findings if fd.store is s_]:
            R.ok(name_, s_.func.site, s_.text, detail="conforms (momentum)")
    roles = shell_roles(minfo, info)
    cf, rest = split_numeric(ret.e)
    if info.get("exchanged"):
        # <a| d/dx |b> = -<b| d/dx |a> (integration by parts): on a path that computes the integrals with the shells exchanged the sign
        # of the first derivative must be put back
        if cf != sp.I:
            findings.append(Finding("PARITY", None, f"{tag} the integrals are computed with the two shells exchanged (the derivative is taken on the other "
                                                    f"function) and only transposed back: the first derivative is antisymmetric under the exchange, so the "
                                                    f"prefactor on this path must be +i, found {cf} (anti-Hermitian-looking blocks whenever this path is taken)",
                                    construct=f"exchanged path {tag}", expected="I", found=str(cf)))
    elif cf != -sp.I:
        findings.append(Finding("UNIT", None, f"symbolic prefactor of the momentum kernel is {cf}", construct="prefactor", expected="-I", found=str(cf)))
    nf = contraction_normal_form(type("X", (), {"e": rest})(), 2, findings, f)
    if nf is not None and ok:
        core, factors = nf
        rowsym = sp.Symbol("row")
        for k in range(3):
            v = order_vector_of_core(ex, core.subs(rowsym, k), findings, f, roles, dsubs[0].all_tables[0])
    for s, name in info["stores"]:
        if not [fd for fd in findings if fd.store is s]:
            R.ok(name, s.func.site, s.text, detail="conforms")
    if not [fd for fd in findings if fd.rule in ("K", "LIN", "GATHER", "ORDERS")]:
        R.ok("K", f.site, "returns (M_1, L_1, M_2, L_2, xyz)")
        R.ok("ORDERS", f.site, "rows e_x, e_y, e_z")
        R.ok("LIN", f.site, "coef_s * NPC_s once per shell")
        R.ok("GATHER", f.site, "prod_c D[order_row(c), comp_2(c), comp_1(c), c]")


def run(repo, R):
    from .momfam import compose_state_rules as _csr
    _csr(R, repo, ['gbasis/integrals/momentum.py', 'gbasis/integrals/angular_momentum.py', 'gbasis/integrals/_diff_operator_int.py', 'gbasis/integrals/_moment_int.py', 'gbasis/contractions.py', 'gbasis/spherical.py', 'gbasis/utils.py', 'gbasis/base.py', 'gbasis/base_one.py', 'gbasis/base_two_symm.py', 'gbasis/base_two_asymm.py', 'gbasis/base_four_symm.py'], "the property holds for every call, also after a shell's parameters were changed through its setters")
    R.rule("PITFALL", "no result buffer typed after an input, no real cast of a transformation, no unbuffered accumulation / first-occurrence scatter through np.unique")
    from ..pitfalls import report as _pitfalls
    _pitfalls(repo, R, ['gbasis.integrals.momentum', 'gbasis.integrals.angular_momentum', 'gbasis.integrals._diff_operator_int', 'gbasis.integrals._moment_int'])
    R.rule("INPUTS", "the public wrapper uses its parameters as given: no path replaces one by a filtered/re-ordered/scaled/defaulted copy")
    R.rule("DISPATCH", "the wrapper assembles Cartesian, spherical, mixed and transformed results through the four assembly routes, same keywords on each")
    from ..flow import check_wrapper_inputs, check_wrapper_dispatch
    for _w in ['gbasis.integrals.momentum.momentum_integral', 'gbasis.integrals.angular_momentum.angular_momentum_integral']:
        _wf = repo.func(_w)
        R.note_function(_wf.qualname)
        check_wrapper_inputs(repo, _wf, R)
        check_wrapper_dispatch(repo, _wf, R, "DISPATCH")
    R.rule("HERM", "the kernels are (imaginary unit) x (real) and the symmetric fill mirrors blocks by the adjoint (conjugate transpose), never in place")
    R.rule("UNIT", "the scalar prefactor of both kernels is -i (operators -i grad and -i r x grad)")
    R.rule("PARITY", "a path that computes the momentum integrals with the two shells exchanged restores the sign (-1)^1 of the integration by parts")
    R.rule("S0", "base entry of the shared overlap/moment table is the 1-D Gaussian product integral")
    R.rule("Sa", "Obara-Saika step on the first index: M[i] = (P-A) M[i-1] + (i-1)/(2p) M[i-2]")
    R.rule("Sb", "Obara-Saika step on the second index with the coupling i/(2p) M[i-1, j-1]")
    R.rule("Se", "first-moment step M[1] = (P-0) M[0] + (i M[0,i-1] + j M[0,j-1])/(2p) about the coordinate origin (angular momentum)")
    R.rule("S-LEAD", "each table axis is incremented with one centre throughout")
    R.rule("D", "first-derivative table: D[1] = 2 alpha_a M[i+1] - i M[i-1]")
    R.rule("D0", "derivative table starts from the overlap table of (A, alpha) vs (B, beta)")
    R.rule("PAD", "padding of the overlap table by the derivative order")
    R.rule("ORDERS", "momentum: order table rows are e_x, e_y, e_z in this order, moved to the last axis")
    R.rule("CROSS", "angular momentum: component k = S_k (M1_{k+1} D1_{k+2} - M1_{k+2} D1_{k+1}) with moments about the coordinate origin")
    R.rule("AXTYPE-K", "well-typed in the axis-provenance domain")
    R.rule("K", "contract K with the Cartesian component of the operator last")
    R.rule("LIN", "primitives contracted once per shell with that shell's coefficients and primitive norms")
    R.rule("GATHER", "factors selected with the shells' own component lists on the matching table axes")
    R.rule("MPT", "every return passes through the recursion")
    for q in (MOM, ANG):
        must_pass_through(repo, R, repo.func(q))
    if R.findings:
        return "a data-dependent shortcut bypasses the recursion; the remaining rules were not evaluated"
    # ---------------------------------------------------------------- HERM / UNIT
    ph = Phase(repo)
    for q in (MOM, ANG):
        g = repo.func(q)
        p = ph.of_func(g)
        R.check(p == "imag", "HERM", g.site, f"phase class {p}",
                f"{g.cls.name} must be (imaginary unit) x (real integrals); its return expression is classified {p}", where=g.where(), expected="imag", found=p)
        uf = unit_factor(g)
        if uf == "conditional":
            R.ok("UNIT", g.site, "prefactor selected per path: decided on every path of the kernel below", nontrivial=False)
            continue
        R.check(uf is not None and abs(uf - (-1j)) < 1e-15, "UNIT", g.site, f"prefactor {uf}",
                f"the operator is -i d/dx (resp. -i r x grad): the constant prefactor must be -1j, found {uf}", where=g.where(), expected="-1j", found=str(uf))
    for method, (kinds, mf) in mirror_kinds(repo).items():
        site = f"base_two_symm.BaseTwoIndexSymmetric.{method}"
        R.check(kinds == {"adjoint"}, "HERM", site, f"mirror kinds {sorted(kinds)}",
                "the lower triangle and diagonal blocks must be the conjugate transpose of the upper blocks for the imaginary momentum-type kernels: "
                f"found {sorted(kinds)} (plain transposition gives a symmetric instead of a Hermitian matrix)",
                where=mf.where(), expected="adjoint", found=sorted(kinds))
        # in-place conjugation would also flip the upper block it is taken from
        for n in ast.walk(mf.node):
            if isinstance(n, ast.Call) and ast.unparse(n.func) in ("np.conjugate", "np.conj", "numpy.conjugate") and any(k.arg == "out" for k in n.keywords):
                R.fail("HERM", site, ast.unparse(n)[:80], "the conjugation is done in place (`out=`): the upper-triangle block that is mirrored is itself "
                       "conjugated, so both triangles carry the same sign", where=mf.where(n), expected="np.conjugate(...) of a copy")
    # ---------------------------------------------------------------- momentum
    findings = []
    f, forks = run_kernel_forks(repo, R, MOM)
    for tag, ex in forks:
        if ex is not None:
            cover_rule(R, f, ex, tag=tag)
            analyse_momentum(repo, R, f, ex, findings, tag)
    report(R, f, findings)
    # ---------------------------------------------------------------- angular momentum
    findings = []
    f2, ex2 = run_kernel(repo, R, ANG)
    if ex2 is not None:
        st, ret = ex2.returns[-1]
        labs = [l.base for l in (ret.labels or [])]
        ok = len(labs) == 5 and labs[:4] == K_labels(2) and isinstance(labs[4], tuple) and labs[4][0] == "stack" and labs[4][2] == 3
        if not ok:
            findings.append(Finding("K", None, f"AngularMomentumIntegral returns axes {ret.labels}; contract K requires (M_1, L_1, M_2, L_2, xyz-of-operator)",
                                    construct="returned axes", expected="(M_1, L_1, M_2, L_2, component)", found=str(ret.labels)))
        cf, rest = split_numeric(ret.e)
        if cf != -sp.I:
            findings.append(Finding("UNIT", None, f"symbolic prefactor of the angular-momentum kernel is {cf}", construct="prefactor", expected="-I", found=str(cf)))
        nf = contraction_normal_form(type("X", (), {"e": rest})(), 2, findings, f2)
        moms = [s for s in ex2.children if s.func.name.endswith("_compute_multipole_moment_integrals_intermediate")]
        dsubs = [s for s in ex2.children if s.func.name.endswith("_compute_differential_operator_integrals_intermediate")]
        if len(moms) != 1 or len(dsubs) != 1:
            raise AnalysisError("CROSS", "the angular-momentum kernel must use one moment table and one derivative table", f2.where())
        mom, dsub = moms[0], dsubs[0]
        info = check_diff_extractor(repo, dsub, findings)
        minfo = check_moment_kernel(repo, mom.func, None, findings, ex=mom)
        for s_, name_, _r in minfo["stores"]:
            if not [fd for fd in findings if fd.store is s_]:
                R.ok(name_, s_.func.site, s_.text, detail="conforms (angular momentum: position factor)")
        # the moment table: origin = coordinate origin (literal zero vector), orders up to 1, for (A, alpha) vs (B, beta)
        margs = mom.call_args
        if margs[0].e != 0:
            findings.append(Finding("CROSS", None, f"the position operator of r x grad is taken about {margs[0].e}, not the coordinate origin", construct="moment origin",
                                    expected="np.zeros(3)", found=str(margs[0].e)))
        if margs[1].e != 1 or sp.simplify(dsub.all_tables[0].sizes[0] - 2) != 0:
            findings.append(Finding("CROSS", None, "first moments and first derivatives are needed (order 1 each)", construct="orders",
                                    found=f"moment order {margs[1].e}, derivative table {dsub.all_tables[0].sizes[0]}"))
        mtab, dtab = mom.all_tables[0], dsub.all_tables[0]
        if nf is not None and ok:
            core, factors = nf
            if not (isinstance(core, Stack)):
                findings.append(Finding("CROSS", None, f"the contracted quantity is not the stack of the three components: {core}", construct="component stack"))
            else:
                rows = ex2.shared["stacks"][int(core.args[0])]

                def canon(g):
                    gid = int(g.args[0])
                    tab, ref = gather_table(ex2, gid)
                    idx = g.args[1:]
                    kind = "M" if tab is mtab else ("D" if tab is dtab else "?")
                    comp = idx[3]
                    okc = sp.simplify(idx[1] - sp.Function("Comp2")(comp)) == 0 and sp.simplify(idx[2] - sp.Function("Comp1")(comp)) == 0
                    return (kind, int(idx[0]) if idx[0].is_number else idx[0], int(comp) if comp.is_number else comp, okc)

                for k, row in enumerate(rows):
                    k1, k2 = (k + 1) % 3, (k + 2) % 3
                    # expected: S(k) * (M1(k1) * D1(k2) - M1(k2) * D1(k1))
                    ex_terms = {}
                    for cf2, term in [(t.as_coeff_Mul()) for t in sp.Add.make_args(sp.expand(row))]:
                        gs = [a for a in sp.Mul.make_args(term) if isinstance(a, Gather)]
                        if len(gs) != 3 or len(sp.Mul.make_args(term)) != 3:
                            findings.append(Finding("CROSS", None, f"component {k}: a term is not a product of three 1-D integrals: {term}", construct=f"component {k}"))
                            continue
                        cs = sorted(canon(g) for g in gs)
                        if not all(c4[3] for c4 in cs):
                            findings.append(Finding("GATHER", None, f"component {k}: a 1-D factor is not selected with (components of shell two, components of shell one) "
                                                                    f"of its own Cartesian direction", construct=f"component {k}"))
                        ex_terms[tuple((c4[0], c4[1], c4[2]) for c4 in cs)] = ex_terms.get(tuple((c4[0], c4[1], c4[2]) for c4 in cs), 0) + cf2
                    want = {tuple(sorted([("M", 0, k), ("M", 1, k1), ("D", 1, k2)])): 1,
                            tuple(sorted([("M", 0, k), ("M", 1, k2), ("D", 1, k1)])): -1}
                    if ex_terms != want:
                        findings.append(Finding("CROSS", None,
                                                f"component {k} of r x grad must be S_{k} (x_{k1} d_{k2} - x_{k2} d_{k1}) as products of 1-D overlap (M,0), first "
                                                f"moment (M,1) and first derivative (D,1) integrals", construct=f"component {k}",
                                                expected=str(want), found=str(ex_terms)))
        for s, name in info["stores"]:
            if not [fd for fd in findings if fd.store is s]:
                R.ok(name, s.func.site, s.text + " (angular momentum)", detail="conforms")
        if not [fd for fd in findings if fd.rule in ("K", "LIN", "GATHER", "CROSS")]:
            R.ok("K", f2.site, "returns (M_1, L_1, M_2, L_2, xyz)")
            R.ok("CROSS", f2.site, "L_k = S_k (M1_{k+1} D1_{k+2} - M1_{k+2} D1_{k+1}), k cyclic; moments about the origin")
            R.ok("LIN", f2.site, "coef_s * NPC_s once per shell")
            R.ok("GATHER", f2.site, "every factor selected with its own direction's components")
    report(R, f2, findings)
    # the property is stated for Cartesian, spherical and mixed bases and with a transformation: the assembly of this operator's base
    # class (norm once per index, own Cartesian->spherical matrix, segment-major blocks, transformation on every index) is part of it
    from ..report import compose as _compose
    from . import c09 as _c09
    _bases = ('base_two_symm',)
    _compose(R, "C09", _c09.run, repo, keep=lambda fd: any(b_ in (fd.where or "") or b_ in fd.site for b_ in _bases) or "spherical.py" in (fd.where or ""),
             why="results for spherical / mixed / transformed bases are assembled by " + ", ".join(_bases))
    R.assumptions += ["-i grad and -i r x grad are Hermitian: K(b,a) = conj(K(a,b))^T in exact arithmetic", "the 1-D overlap/moment recurrences are decided under C01/C07",
                      "assembly under C09/C11"]
    return ("HERM: both kernels' return expressions are classified (imaginary unit) x (real) with constant prefactor exactly -i, and the "
            "abstract runs of the symmetric two-index assembly show every mirrored block carrying a conjugation (adjoint fill), not in "
            "place. STENCIL/AXTYPE: the momentum kernel is the first-derivative table (recurrence D, overlap start, padding) selected with "
            "rows e_x, e_y, e_z in this order as the last axis; the angular-momentum kernel's three stacked components are, as formal "
            "products of 1-D integrals, S_k (M1_{k+1} D1_{k+2} - M1_{k+2} D1_{k+1}) with first moments about the literal coordinate origin, "
            "each factor selected with its own direction's component columns; contraction once per shell; contract K. Not decided: "
            "exactness as numbers.")
