"""Shared checks for kernels built on the derivative table (kinetic energy, momentum, angular momentum)."""
import ast

import sympy as sp

from ..kernels import contraction_normal_form, gather_table, K_labels
from ..stencil import SV, Lab, c, Gather, OrderTab, Contract
from ..stencil_spec import Finding, check_diff_kernel, check_moment_kernel, stencil_of, compare, inc_axis, tvalues, al, be, A, B, compose_increments
from ..report import AnalysisError
from .momfam import sub_extractor


def check_diff_extractor(repo, sub, findings, R=None):
    """D / D0 / padding on an already-run extractor of _compute_differential_operator_integrals_intermediate."""
    f = sub.func
    ex = sub
    if len(ex.all_tables) != 1:
        raise AnalysisError("STENCIL", f"expected one recursion table in {f.name}", f.where())
    tab = ex.all_tables[0]
    n_axes = len(tab.labels)
    info = dict(stores=[], table=tab)
    mom = [c2 for c2 in sub.children if c2.func.name.endswith("_compute_multipole_moment_integrals_intermediate")]
    if not mom:
        # the overlap table may be handed in by the caller (computed once, shared): the order-0 store says which table it is
        for s in ex.stores:
            rid = getattr(s.rhs, "table_ref", None)
            if rid is not None and s.index and s.index[0].kind == "const" and s.index[0].value == 0:
                owner = getattr(ex.shared["refs"][rid]["table"], "owner", None)
                if owner is not None and owner.func.name.endswith("_compute_multipole_moment_integrals_intermediate") and hasattr(owner, "call_args"):
                    mom = [owner]
                    break
    if len(mom) != 1:
        raise AnalysisError("STENCIL", "the derivative table is not started from exactly one overlap table", f.where())
    mom = mom[0]
    # Which shell is differentiated?  Normally the first (A, alpha).  A path on which the caller hands the two shells over in exchanged
    # order - all four of (centre, exponents) x (first, second) - computes <b| d^k |a>; that is the same integral up to the parity
    # (-1)^|k| of the integration by parts, which the caller must then apply (info["exchanged"]; the callers check the sign and the roles).
    _a = mom.call_args
    exchanged = all(sp.simplify(_a[pos].e - w) == 0 for pos, w in {2: B(c), 4: be, 5: A(c), 7: al}.items())
    info["exchanged"] = exchanged
    al_d = be if exchanged else al
    for s in compose_increments(ex, list(ex.stores)):
        terms, const, tsyms, subs = stencil_of(ex, s)
        vals, lows, consts = tvalues(tsyms)
        if not terms:
            ref_ok = const.has(sp.Function("TabRef")) or True
            # rhs must be a reference into the overlap table at order 0, all other axes whole
            refs = list(s.rhs.e.atoms(sp.Function("TabRef"))) if False else []
            rid = getattr(s.rhs, "table_ref", None)
            ok = False
            if rid is not None:
                ref = ex.shared["refs"][rid]
                idx = ref["index"]
                ok = ref["table"] is mom.all_tables[0] and idx[0].kind == "const" and idx[0].value == 0 and all(i.kind == "full" for i in idx[1:]) \
                    and s.index[0].kind == "const" and s.index[0].value == 0 and all(i.kind == "full" for i in s.index[1:])
            if not ok:
                findings.append(Finding("D0", s, "order 0 of the derivative table is not the whole order-0 overlap table", found=ast.unparse(s.node)[:100]))
            info["stores"].append((s, "D0"))
            continue
        selfref = [(t["offset"], t["coef"]) for t in terms
                   if all((not isinstance(o, tuple)) and o.is_number and o == 0 for o in t["offset"])]
        if selfref:
            # X[i] = f(X[i]): entries that were already computed are modified in place
            cf = sp.simplify(selfref[0][1])
            if not (len(terms) == 1 and cf == 1 and const == 0):
                findings.append(Finding("D0" if s.index[0].kind == "const" and s.index[0].value == 0 else "D", s,
                                        "entries of the derivative table are modified after they were computed (rescaled / masked in place)",
                                        expected="each entry is stored once, by the recurrence", found=f"{s.text} = ({cf}) * itself" + (f" + {const}" if const != 0 else "")))
            info["stores"].append((s, "MOD"))
            continue
        ks = [k for k in inc_axis(terms, n_axes) if k < 3]
        if ks != [0]:
            raise AnalysisError("STENCIL", f"`{s.text}` does not raise the derivative order (axis 0): not the D recurrence", f.where(s.node))
        up = [0] * n_axes
        up[0], up[2] = -1, +1
        dn = [0] * n_axes
        dn[0], dn[2] = -1, -1
        compare(ex, s, [(tuple(up), 2 * al_d), (tuple(dn), -vals[2])], findings, "D", "derivative step")
        info["stores"].append((s, "D"))
    # the overlap table it starts from: (zero origin, order 0, A, a-max + padding, alpha, B, b-max, beta)
    args = mom.call_args
    names = mom.func.params
    bound = dict(zip(names, args))
    exp = {2: A(c), 4: al, 5: B(c), 7: be}
    for pos, want in ({} if exchanged else exp).items():
        got = args[pos].e
        if sp.simplify(got - want) != 0:
            findings.append(Finding("D0", None, f"the overlap table under the derivative table is built with `{names[pos]}` = {got}; the derivative acts on "
                                                f"shell one (exponents alpha, centre A) against shell two", expected=str(want), found=str(got),
                                    construct=f"overlap-table argument {names[pos]}"))
    # (the table may hold higher moment orders as well - the order-0 store above takes its slice [0], which does not depend on the origin)
    # padding: overlap a-size == table a-size >= (cut - 1) + max order + 1
    order_max = tab.sizes[0] - 1
    n = tab.sizes[2]
    mom_n = mom.all_tables[0].sizes[2]
    if sp.simplify(mom_n - n) != 0:
        findings.append(Finding("PAD", None, f"the overlap table has {mom_n} entries along the first shell's index, the derivative table {n}",
                                expected=str(n), found=str(mom_n), construct="padding of the overlap table"))
    # the returned cut
    ret = ex.returns[-1][1]
    rid = getattr(ret, "table_ref", None)
    cut = None
    if rid is not None:
        idx = ex.shared["refs"][rid]["index"]
        if idx[2].kind == "upto":
            cut = idx[2].value
        elif idx[2].kind == "full":
            cut = n
    if cut is None:
        raise AnalysisError("PAD", "returned slice of the derivative table not recognised", f.where(ex.returns[-1][0]))
    slack = sp.simplify(n - order_max - cut)
    if not (slack.is_nonnegative is True):
        findings.append(Finding("PAD", None, f"every derivative order consumes one entry of padding: a table of {n} entries supports orders up to {order_max} "
                                             f"only for the first {sp.simplify(n - order_max)} indices, but {cut} are returned",
                                expected=f"table size >= returned size + max order", found=f"{n} < {cut} + {order_max}", construct="padding"))
    info["cut"] = cut
    info["moment"] = mom
    return info


def terms_of_row_sum(ret_e):
    """-1/2 * (T0 + T1 + T2) -> [(coef, Contract-expression)]"""
    out = []
    for t in sp.Add.make_args(ret_e):
        cf, rest = t.as_coeff_Mul()
        out.append((cf, rest))
    return out


def order_vector_of_core(ex, core, findings, f, axis_roles, table_expected):
    """core = prod_c Gather(g; order_c, comp_b(c), comp_a(c), c): returns the order vector (o_x, o_y, o_z) or None."""
    args = list(sp.Mul.make_args(core))
    if len(args) != 3 or not all(isinstance(x, Gather) for x in args):
        findings.append(Finding("GATHER", None, f"a term is not the product over x, y, z of one table entry each: {core}", construct="component product"))
        return None
    vec = {}
    for x in args:
        gid = int(x.args[0])
        tab, ref = gather_table(ex, gid)
        if tab is not table_expected:
            findings.append(Finding("GATHER", None, "x/y/z factors are read from the wrong table", construct="component product"))
            return None
        idx = x.args[1:]
        comp = idx[3]
        if not comp.is_number:
            findings.append(Finding("GATHER", None, f"component axis indexed by {comp}", construct="component product"))
            return None
        comp = int(comp)
        for k, role in axis_roles.items():
            want = sp.Function("Comp2" if role == "b" else "Comp1")(comp)
            if sp.simplify(idx[k] - want) != 0:
                findings.append(Finding("GATHER", None, f"table axis {k} (recursion index of shell {'two' if role == 'b' else 'one'}) is selected with {idx[k]} "
                                                        f"for component {comp}", expected=str(want), found=str(idx[k]), construct=f"gather axis {k}"))
        vec[comp] = idx[0]
    if sorted(vec) != [0, 1, 2]:
        findings.append(Finding("GATHER", None, f"components covered: {sorted(vec)}", construct="component product"))
        return None
    return tuple(vec[k] for k in range(3))


def shell_roles(minfo, info):
    """table axis -> 'a' / 'b' in terms of the two shells of the PUBLIC kernel.  The overlap-table check names the role of an axis by
    the centre (A or B of the public kernel) its recursion step leads with, so the roles are already the public ones on a path that
    hands the shells over in exchanged order."""
    return {k: v for k, v in minfo["axis_role"].items() if v in ("a", "b")}
