"""C07 Multipole-moment integrals are exact for every order and origin (structural clauses)."""
import ast

import sympy as sp

from ..kernels import contraction_normal_form, check_gather_1d, expect_labels, K_labels
from ..stencil import SV, Lab, c
from ..stencil_spec import Finding, check_moment_kernel, Cm
from ..flow import terminates
from ..report import AnalysisError
from .momfam import run_kernel, report, sub_extractor

MOMENT = "gbasis.integrals.moment.Moment.construct_array_contraction"
ORD = sp.Function("Ord")


def run(repo, R):
    from .momfam import compose_state_rules as _csr
    _csr(R, repo, ['gbasis/integrals/moment.py', 'gbasis/integrals/_moment_int.py', 'gbasis/contractions.py', 'gbasis/spherical.py', 'gbasis/utils.py', 'gbasis/base.py', 'gbasis/base_one.py', 'gbasis/base_two_symm.py', 'gbasis/base_two_asymm.py', 'gbasis/base_four_symm.py'], "the property holds for every call, also after a shell's parameters were changed through its setters")
    R.rule("PITFALL", "no result buffer typed after an input, no real cast of a transformation, no unbuffered accumulation / first-occurrence scatter through np.unique")
    from ..pitfalls import report as _pitfalls
    _pitfalls(repo, R, ['gbasis.integrals.moment', 'gbasis.integrals._moment_int'])
    R.rule("INPUTS", "the public wrapper uses its parameters as given: no path replaces one by a filtered/re-ordered/scaled/defaulted copy")
    R.rule("DISPATCH", "the wrapper assembles Cartesian, spherical, mixed and transformed results through the four assembly routes, same keywords on each")
    from ..flow import check_wrapper_inputs, check_wrapper_dispatch
    for _w in ['gbasis.integrals.moment.moment_integral']:
        _wf = repo.func(_w)
        R.note_function(_wf.qualname)
        check_wrapper_inputs(repo, _wf, R)
        check_wrapper_dispatch(repo, _wf, R, "DISPATCH")
    R.rule("MPT", "every returned block of the moment kernel is derived from the recursion (no data-dependent shortcut)")
    from .mpt import must_pass_through
    must_pass_through(repo, R, repo.func(MOMENT))
    R.rule("S0", "base entry of the shared overlap/moment table is the 1-D Gaussian product integral")
    R.rule("Sa", "Obara-Saika step on the first index: M[i] = (P-A) M[i-1] + (i-1)/(2p) M[i-2]")
    R.rule("Sb", "Obara-Saika step on the second index with the coupling i/(2p) M[i-1, j-1]")
    R.rule("Se", "moment-order step: M[e] = (P-C) M[e-1] + (i M[e-1,i-1] + j M[e-1,j-1] + (e-1) M[e-2])/(2p), C the moment origin")
    R.rule("S-LEAD", "each table axis is incremented with one centre throughout; the order axis with the moment origin")
    R.rule("AXTYPE-K", "the kernel is well-typed in the axis-provenance domain")
    R.rule("K", "contract K with the order triples last: (M_1, L_1, M_2, L_2, orders) in the order given")
    R.rule("LIN", "primitives contracted once per shell with that shell's coefficients and primitive norms")
    R.rule("GATHER", "x, y, z factors selected with (order triple component, components of shell two, components of shell one, component)")
    R.rule("SIZE", "the recursion table is sized by the largest requested order and the largest components")
    R.rule("GUARD", "argument checks dominate the kernel call")
    f = repo.func(MOMENT)
    env = {"moment_coord": SV(Cm(c), [Lab("xyz")]), "moment_orders": SV(ORD(c), [Lab(("dim", "Ord")), Lab("xyz")])}
    f, ex = run_kernel(repo, R, MOMENT, extra_env=env)
    findings = []
    if ex is not None:
        st, ret = ex.returns[-1]
        expect_labels(ret, K_labels(2, [("dim", "Ord")]), findings, "Moment.construct_array_contraction", f)
        nf = contraction_normal_form(ret, 2, findings, f)
        subs = sub_extractor(ex, "_compute_multipole_moment_integrals_intermediate")
        if len(subs) != 1:
            raise AnalysisError("STENCIL", "the moment kernel does not reach the 1-D Obara-Saika table exactly once", f.where())
        info = check_moment_kernel(repo, subs[0].func, None, findings, ex=subs[0])
        roles = info["axis_role"]
        if 0 in roles and roles[0] != "e":
            findings.append(Finding("S-LEAD", None, f"table axis 0 (selected by the order triples) is driven by the centre of `{roles[0]}`", construct="order axis"))
        if nf is not None:
            core, factors = nf
            check_gather_1d(ex, core, dict(roles), lambda idx, comp: (sp.simplify(idx - ORD(comp)) == 0, "expected the requested order along that component"), findings, f)
        # table size: (max order + 1, max comp b + 1, max comp a + 1)
        tab = info["table"]
        want = [sp.Function("Max_over")(ORD(sp.Symbol("c_any"))) + 1, sp.Function("Max_over")(sp.Function("Comp2")(sp.Symbol("c_any"))) + 1,
                sp.Function("Max_over")(sp.Function("Comp1")(sp.Symbol("c_any"))) + 1]
        got = tab.sizes[:3]
        oks = all(sp.simplify(g - w) == 0 for g, w in zip(got, want))
        if not oks:
            findings.append(Finding("SIZE", None, f"recursion table sizes {got} along (order, b, a); every requested entry needs {want}",
                                    expected=str(want), found=str(got), construct="np.zeros(table shape)"))
        nse = len([s for s in info["stores"] if s[1] == "Se"])
        for s, name, r in info["stores"]:
            if not [fd for fd in findings if fd.store is s]:
                R.ok(name, s.func.site, s.text, detail="conforms")
        if not [fd for fd in findings if fd.rule in ("K", "LIN", "GATHER", "SIZE")]:
            R.ok("K", f.site, "returns (M_1, L_1, M_2, L_2, orders)")
            R.ok("LIN", f.site, "coef_s * NPC_s contracted over K_s once per shell")
            R.ok("GATHER", f.site, "prod_c T[order(c), comp_2(c), comp_1(c), c]")
            R.ok("SIZE", f.site, f"table sized {got}")
    report(R, f, findings)
    if ex is not None:
        R.floor("Se", nse, 4, "moment-order recursion stores")
    # argument checks dominate the kernel call: the validation statements before the first recursion call are interpreted (case
    # analysis, gbsa/cases.py) on stand-in arguments described by the attributes they look at; they must raise exactly for the
    # arguments that are not a 3-vector / an (N, 3) integer array
    from .. import cases
    import itertools as _it
    fn = f.node
    first_call = min([n.lineno for n in ast.walk(fn) if isinstance(n, ast.Call) and ast.unparse(n.func).startswith("_compute")] or [0])
    guards = [st for st in fn.body if isinstance(st, ast.If) and terminates(st.body) and isinstance(st.body[-1], ast.Raise) and st.lineno < first_call
              and not st.orelse and ("moment_coord" in ast.unparse(st.test) or "moment_orders" in ast.unparse(st.test))]
    if not guards:
        R.fail("GUARD", f.site, "moment_coord / moment_orders validated before use",
               "the origin (3-vector) and the order table (N x 3 integer array) are no longer validated before the recursion", where=f.where())
    else:
        def outcome(env):
            try:
                cases.run(guards, dict(env))
            except cases.Raised:
                return "raise"
            except cases.Unmodelled as ex:
                raise AnalysisError("GUARD", f"the argument validation uses a construct outside the case-analysis fragment: {ex}", f.where(guards[0]))
            return "ok"
        good_coord = cases.Fake("ndarray", ndim=1, size=3, shape=(3,), dtype="dtype:float")
        good_orders = cases.Fake("ndarray", ndim=2, size=6, shape=(2, 3), dtype="dtype:int")
        bad = []
        coords = [("a list", cases.Fake("other"), False)]
        for nd, sz in _it.product((1, 2), (2, 3, 4)):
            coords.append((f"ndarray ndim={nd} size={sz}", cases.Fake("ndarray", ndim=nd, size=sz, shape=(sz,) if nd == 1 else (1, sz), dtype="dtype:float"), nd == 1 and sz == 3))
        orders = [("a list", cases.Fake("other"), False)]
        for nd, cols, dt in _it.product((1, 2, 3), (2, 3), ("int", "float")):
            shp = {1: (cols,), 2: (2, cols), 3: (2, cols, 1)}[nd]
            orders.append((f"ndarray ndim={nd} columns={cols} dtype={dt}", cases.Fake("ndarray", ndim=nd, size=2 * cols, shape=shp, dtype="dtype:" + dt),
                           nd == 2 and cols == 3 and dt == "int"))
        n_cases = 0
        for label, val, valid in coords:
            n_cases += 1
            got = outcome({"moment_coord": val, "moment_orders": good_orders})
            if (got == "ok") != valid:
                bad.append(f"moment_coord = {label}: " + ("accepted" if got == "ok" else "rejected"))
        for label, val, valid in orders:
            n_cases += 1
            got = outcome({"moment_coord": good_coord, "moment_orders": val})
            if (got == "ok") != valid:
                bad.append(f"moment_orders = {label}: " + ("accepted" if got == "ok" else "rejected"))
        R.check(not bad, "GUARD", f.site, f"moment_coord / moment_orders validated before use ({n_cases} argument kinds)",
                "the validation before the recursion does not accept exactly a 3-vector origin and an (N, 3) integer order table: " + "; ".join(bad[:4]),
                where=f.where(guards[0]), expected="raise for every other kind of argument", found=bad[:6])
    # the property is stated for Cartesian, spherical and mixed bases and with a transformation: the assembly of this operator's base
    # class (norm once per index, own Cartesian->spherical matrix, segment-major blocks, transformation on every index) is part of it
    from ..report import compose as _compose
    from . import c09 as _c09
    _bases = ('base_two_symm',)
    _compose(R, "C09", _c09.run, repo, keep=lambda fd: any(b_ in (fd.where or "") or b_ in fd.site for b_ in _bases) or "spherical.py" in (fd.where or ""),
             why="results for spherical / mixed / transformed bases are assembled by " + ", ".join(_bases))
    R.assumptions += ["Obara-Saika recurrence for multipole moments (Helgaker 9.3.3)", "assembly (C09) leaves trailing kernel axes untouched and last"]
    return ("STENCIL + AXTYPE on the moment kernel chain with a symbolic origin and a symbolic order table: the eight stores that raise "
            "the moment order are compared coefficient by coefficient with the Obara-Saika moment recurrence (coupling to both angular "
            "indices and to the order itself, origin = the given moment centre); the x/y/z factors are selected with the requested "
            "order component and the two shells' own component lists on the matching table axes; the order axis is moved last in the given "
            "order; the table is sized by the largest requested order. Order (0,0,0) reproducing the overlap and the binomial origin "
            "shift are consequences of Se (not separately decided). Not decided: accuracy.")
