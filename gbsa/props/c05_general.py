"""General derivative back-end (C05, rule GENERAL): partial evaluation of `_eval_deriv_contractions` for one generic
coordinate with concrete formula parameters (order m, angular exponent n) and symbolic coordinate / exponent.

Only constants are propagated (m, n and everything computed from them, including the index k of the Hermite-term
axis, which is enumerated as a table of m+1 entries); x and alpha stay symbols, and sympy compares the resulting
closed form with d^m/dx^m x^n exp(-alpha x^2).  This is the bounded enumeration of formula parameters announced in
DESIGN.md section 2 - no input values are executed.
"""
import ast

import sympy as sp

from ..astutil import dotted
from ..formula import Elem, Prod, LinearSum
from ..report import AnalysisError

GENERAL = "gbasis.evals._deriv._eval_deriv_contractions"
x, a, C = sp.symbols("x a C", positive=True)


class TV:
    """Value with a taint bit: `neg` is set when a power of the coordinate difference with a negative exponent entered it."""

    def __init__(self, e, neg=False):
        self.e = sp.sympify(e)
        self.neg = bool(neg)

    @staticmethod
    def of(v):
        return v if isinstance(v, TV) else TV(v)

    def _bin(self, o, fn):
        if isinstance(o, (KTable, Empty)):
            return NotImplemented
        o = TV.of(o)
        return TV(fn(self.e, o.e), self.neg or o.neg)

    def __add__(self, o): return self._bin(o, lambda p, q: p + q)
    def __radd__(self, o): return TV.of(o)._bin(self, lambda p, q: p + q)
    def __sub__(self, o): return self._bin(o, lambda p, q: p - q)
    def __rsub__(self, o): return TV.of(o)._bin(self, lambda p, q: p - q)
    def __mul__(self, o): return self._bin(o, lambda p, q: p * q)
    def __rmul__(self, o): return TV.of(o)._bin(self, lambda p, q: p * q)
    def __truediv__(self, o): return self._bin(o, lambda p, q: p / q)
    def __rtruediv__(self, o): return TV.of(o)._bin(self, lambda p, q: p / q)
    def __neg__(self): return TV(-self.e, self.neg)
    def __pos__(self): return self

    def __pow__(self, o):
        if isinstance(o, (KTable, Empty)):
            return NotImplemented
        o = TV.of(o)
        neg = self.neg or o.neg
        if self.e.has(x) and not (o.e.is_nonnegative is True):
            neg = True
        return TV(self.e ** o.e, neg)

    def __rpow__(self, o):
        return TV.of(o) ** self

    def __repr__(self):
        return f"TV({self.e}{', NEGPOW' if self.neg else ''})"


class Empty:
    """Selection with an all-False mask on the coordinate axis (this coordinate is not in the selected class)."""

    def _b(self, o): return self
    __add__ = __radd__ = __sub__ = __rsub__ = __mul__ = __rmul__ = __truediv__ = __rtruediv__ = __pow__ = __rpow__ = _b
    def __neg__(self): return self
    def __repr__(self): return "EMPTY"


EMPTY = Empty()


class KTable:
    """Array along the Hermite-term axis: one entry per k = 0..m."""

    def __init__(self, items):
        self.items = [i if isinstance(i, (TV, bool)) else TV(i) for i in items]

    def _bin(self, o, fn):
        if isinstance(o, Empty):
            return o
        if isinstance(o, KTable):
            if len(o.items) != len(self.items):
                raise AnalysisError("GENERAL", "tables of different length along the Hermite-term axis")
            return KTable([fn(p, q) for p, q in zip(self.items, o.items)])
        return KTable([fn(p, TV.of(o)) for p in self.items])

    def __add__(self, o): return self._bin(o, lambda p, q: p + q)
    def __radd__(self, o): return self._bin(o, lambda p, q: q + p)
    def __sub__(self, o): return self._bin(o, lambda p, q: p - q)
    def __rsub__(self, o): return self._bin(o, lambda p, q: q - p)
    def __mul__(self, o): return self._bin(o, lambda p, q: p * q)
    def __rmul__(self, o): return self._bin(o, lambda p, q: q * p)
    def __truediv__(self, o): return self._bin(o, lambda p, q: p / q)
    def __rtruediv__(self, o): return self._bin(o, lambda p, q: q / p)
    def __pow__(self, o): return self._bin(o, lambda p, q: p ** q)
    def __rpow__(self, o): return self._bin(o, lambda p, q: q ** p)
    def __neg__(self): return KTable([-p for p in self.items])

    def cmp(self, o, fn):
        if isinstance(o, KTable):
            return KTable([bool(fn(p.e, q.e)) for p, q in zip(self.items, o.items)])
        o = TV.of(o)
        return KTable([bool(fn(p.e, o.e)) for p in self.items])

    def __repr__(self):
        return f"KTable({self.items})"


class WhereIdx:
    def __init__(self, ks):
        self.ks = ks


class WherePart:
    def __init__(self, w, pos):
        self.w, self.pos = w, pos


class GenElem(Elem):
    def __init__(self, func, m, nval):
        p = func.params
        env = {p[0]: TV(x + C), p[1]: m, p[2]: TV(C), p[3]: nval, p[4]: TV(a), p[5]: TV(sp.Symbol("c")), p[6]: TV(sp.Symbol("NORM"))}
        super().__init__(func, env, rule="GENERAL")
        self.m, self.nval = m, nval

    # -------- constants & helpers
    def const(self, v):
        if isinstance(v, bool) or v is None:
            return v
        if isinstance(v, int):
            return v
        if isinstance(v, float):
            return TV(sp.nsimplify(v, rational=True))
        return v

    def conc(self, v):
        """concrete python number of a value if it has one"""
        if isinstance(v, (int, bool)):
            return v
        if isinstance(v, TV) and v.e.is_number:
            return v.e
        return None

    # -------- statements
    def stmt(self, st):
        if isinstance(st, ast.Expr) and isinstance(st.value, ast.Call) and isinstance(st.value.func, ast.Attribute) and st.value.func.attr in ("append", "extend") \
                and isinstance(st.value.func.value, ast.Name) and isinstance(self.env.get(st.value.func.value.id), list) and len(st.value.args) == 1:
            v = self.expr(st.value.args[0])
            if st.value.func.attr == "append":
                self.env[st.value.func.value.id].append(v)
            else:
                self.env[st.value.func.value.id].extend(list(v))
            return
        if isinstance(st, ast.For):
            it = self.expr(st.iter)
            if not isinstance(it, range):
                self.err("loop over a non-constant range", st)
            for k in it:
                self.env[st.target.id] = k
                for s in st.body:
                    self.stmt(s)
            return
        super().stmt(st)

    def on_if(self, st):
        if st.body and isinstance(st.body[-1], ast.Raise) and not st.orelse:
            return
        t = self.expr(st.test)
        if not isinstance(t, (bool, sp.logic.boolalg.BooleanAtom)):
            self.err(f"branch on a non-constant condition `{ast.unparse(st.test)}`", st)
        for s in (st.body if bool(t) else st.orelse):
            self.stmt(s)

    def assign(self, t, v, st):
        if isinstance(t, ast.Name):
            self.env[t.id] = v
            return
        if isinstance(t, ast.Subscript) and isinstance(t.value, ast.Name):
            cur = self.env.get(t.value.id)
            sl = t.slice
            elts = sl.elts if isinstance(sl, ast.Tuple) else [sl]
            if isinstance(cur, KTable):
                first = self.expr(elts[0]) if not isinstance(elts[0], ast.Slice) else None
                # boolean mask along k
                if isinstance(first, KTable) and all(isinstance(b, bool) for b in first.items) and len(elts) == 1:
                    cur.items = [TV.of(v) if b else c for b, c in zip(first.items, cur.items)]
                    return
                if isinstance(first, WherePart):
                    # every where-output must be used at its own axis position, everything else a full slice
                    for pos, e in enumerate(elts):
                        if isinstance(e, ast.Slice):
                            continue
                        w = self.expr(e)
                        if not (isinstance(w, WherePart) and w.w is first.w and w.pos == pos):
                            raise Misaligned(f"`{ast.unparse(t)}`: index array {ast.unparse(e)} is used on axis {pos}", st)
                    if first.pos != 0:
                        raise Misaligned(f"`{ast.unparse(t)}`: axis 0 is not indexed by the term index", st)
                    for k in first.w.ks:
                        cur.items[k] = TV.of(v)
                    return
                if isinstance(first, int) and all(isinstance(e, ast.Slice) for e in elts[1:]):
                    if not 0 <= first < len(cur.items):
                        self.err("store outside the term table", st)
                    cur.items[first] = TV.of(v)
                    return
            self.err("store not modelled", st)
        super().assign(t, v, st)

    # -------- expressions
    def compare(self, e):
        if len(e.ops) != 1:
            self.err("chained comparison", e)
        l, r = self.expr(e.left), self.expr(e.comparators[0])
        op = e.ops[0]
        fn = {ast.Lt: lambda p, q: p < q, ast.LtE: lambda p, q: p <= q, ast.Gt: lambda p, q: p > q, ast.GtE: lambda p, q: p >= q,
              ast.Eq: lambda p, q: p == q, ast.NotEq: lambda p, q: p != q}.get(type(op))
        if fn is None:
            self.err("comparison operator", e)
        if isinstance(l, KTable):
            return l.cmp(r, fn)
        if isinstance(r, KTable):
            return r.cmp(l, lambda p, q: fn(q, p))
        if isinstance(l, Empty) or isinstance(r, Empty):
            return EMPTY
        lc, rc = self.conc(l), self.conc(r)
        if lc is None or rc is None:
            self.err(f"comparison of non-constant values `{ast.unparse(e)}`", e)
        return bool(fn(lc, rc))

    def binop(self, op, l, r, node):
        if isinstance(op, (ast.BitOr, ast.BitAnd)):
            f2 = (lambda p, q: bool(p) or bool(q)) if isinstance(op, ast.BitOr) else (lambda p, q: bool(p) and bool(q))

            def items(v, n):
                if isinstance(v, KTable) and all(isinstance(b, bool) for b in v.items):
                    return v.items
                if isinstance(v, bool):
                    return [v] * n
                self.err("| / & on non-boolean values", node)
            n = len(l.items) if isinstance(l, KTable) else len(r.items) if isinstance(r, KTable) else 1
            out = [f2(p, q) for p, q in zip(items(l, n), items(r, n))]
            return KTable(out) if isinstance(l, KTable) or isinstance(r, KTable) else out[0]
        for k, fn in ((ast.Add, lambda p, q: p + q), (ast.Sub, lambda p, q: p - q), (ast.Mult, lambda p, q: p * q),
                      (ast.Div, lambda p, q: p / q), (ast.Pow, lambda p, q: p ** q)):
            if isinstance(op, k):
                if isinstance(l, tuple) and isinstance(r, tuple) and isinstance(op, ast.Add):
                    return l + r
                if isinstance(l, (int, sp.Basic)) and not isinstance(l, bool) and isinstance(r, (TV, KTable, Empty)):
                    l = TV(l)
                if isinstance(op, ast.Pow) and isinstance(l, int) and isinstance(r, int):
                    return l ** r
                if isinstance(l, int) and isinstance(r, int) and not isinstance(op, ast.Div):
                    return fn(l, r)
                return fn(l if not isinstance(l, int) else TV(l), r)
        self.err("operator", node)

    def expr(self, e):
        if isinstance(e, ast.UnaryOp) and isinstance(e.op, ast.Invert):
            v = self.expr(e.operand)
            if isinstance(v, bool):
                return not v
            self.err("~ on a non-constant mask", e)
        if isinstance(e, ast.UnaryOp) and isinstance(e.op, ast.USub):
            v = self.expr(e.operand)
            return -v
        if isinstance(e, ast.Subscript):
            base = self.expr(e.value)
            sl = e.slice
            elts = sl.elts if isinstance(sl, ast.Tuple) else [sl]
            if isinstance(base, WhereIdx):
                i = self.expr(sl)
                return WherePart(base, i)
            if isinstance(base, (tuple, list)):
                if isinstance(sl, ast.Slice):
                    lo = self.expr(sl.lower) if sl.lower is not None else None
                    hi = self.expr(sl.upper) if sl.upper is not None else None
                    if (lo is not None and not isinstance(lo, int)) or (hi is not None and not isinstance(hi, int)) or sl.step is not None:
                        self.err("slice of a tuple with non-constant bounds", e)
                    return base[lo:hi]
                return base[self.expr(sl)]
            # a concrete boolean mask on the coordinate axis selects this coordinate or nothing
            vals = []
            for z in elts:
                if isinstance(z, ast.Slice) or (isinstance(z, ast.Constant) and z.value is None) or \
                        (isinstance(z, ast.Attribute) and z.attr == "newaxis"):
                    vals.append(None)
                else:
                    vals.append(self.expr(z))
            masks = [v for v in vals if isinstance(v, bool)]
            if masks:
                if len(masks) > 1:
                    self.err("more than one mask in a subscript", e)
                return base if masks[0] else EMPTY
            ints = [v for v in vals if isinstance(v, int) and not isinstance(v, bool)]
            if isinstance(base, KTable) and ints and vals[0] is not None:
                return base.items[vals[0]]
            return base
        if isinstance(e, ast.Attribute):
            if e.attr in ("T",):
                return self.expr(e.value)
            if e.attr == "size":
                v = self.expr(e.value)
                if isinstance(v, Empty):
                    return 0
                if isinstance(v, KTable):
                    return len(v.items)
                return 1
            if e.attr == "shape":
                v = self.expr(e.value)
                if isinstance(v, KTable):
                    return (len(v.items),)
                return ()
            if dotted(e) in ("np.newaxis",):
                return None
            if dotted(e) in ("np.pi", "numpy.pi"):
                return TV(sp.pi)
        if isinstance(e, ast.List):
            return [self.expr(z) for z in e.elts]
        if isinstance(e, ast.Tuple):
            out = []
            for z in e.elts:
                if isinstance(z, ast.Starred):
                    out.extend(self.expr(z.value))
                else:
                    out.append(self.expr(z))
            return tuple(out)
        return super().expr(e)

    def call(self, e):
        d = dotted(e.func)
        short = d.split(".")[-1] if d else None
        args = [self.expr(z) for z in e.args]
        kw = {k.arg: self.expr(k.value) for k in e.keywords}

        if d in ("np.array", "numpy.array", "np.stack", "numpy.stack", "np.asarray") and len(args) == 1 and isinstance(args[0], list) and args[0] \
                and all(isinstance(z, (TV, int, sp.Basic)) and not isinstance(z, bool) for z in args[0]) and set(kw) <= {"axis"} and kw.get("axis", 0) == 0:
            return KTable(list(args[0]))  # a list of per-order arrays stacked along the Hermite-term axis
        if d in ("np.any", "numpy.any", "np.all", "numpy.all", "any", "all") and len(args) == 1 and not kw:
            v = args[0]
            if isinstance(v, Empty):
                return short == "all"  # any() of nothing is False, all() of nothing is True
            vals = list(v.items) if isinstance(v, KTable) else [v]
            vals = [bool(x) if isinstance(x, (bool, sp.logic.boolalg.BooleanAtom)) else x for x in vals]
            if vals and all(isinstance(x, bool) for x in vals):
                return any(vals) if short == "any" else all(vals)
            self.err(f"`{ast.unparse(e)[:60]}` on values that are not constant here", e)

        def lift(fn, *vals):
            """apply a sympy function pointwise over tables / tainted values"""
            if any(isinstance(v, Empty) for v in vals):
                return EMPTY
            tabs = [v for v in vals if isinstance(v, KTable)]
            if tabs:
                nn = len(tabs[0].items)
                cols = [v.items if isinstance(v, KTable) else [TV.of(v)] * nn for v in vals]
                return KTable([TV(fn(*[c.e for c in col]), any(c.neg for c in col)) for col in zip(*cols)])
            tv = [TV.of(v) for v in vals]
            return TV(fn(*[t.e for t in tv]), any(t.neg for t in tv))

        if d in ("int",) and len(args) == 1 and not kw:
            cv = self.conc(args[0]) if not isinstance(args[0], int) else args[0]
            if cv is None:
                self.err("int() of a value that is not constant here", e)
            return int(cv)
        if d in ("range",):
            if not all(isinstance(z, int) for z in args):
                self.err("range over non-constant bounds", e)
            return range(*args)
        if short == "exp" and len(args) == 1:
            return lift(sp.exp, args[0])
        if short == "sqrt" and len(args) == 1:
            return lift(sp.sqrt, args[0])
        if short == "comb" and len(args) == 2:
            return lift(lambda p, q: sp.binomial(p, q), *args)
        if short == "perm" and len(args) == 2:
            return lift(lambda p, q: sp.ff(p, q) if q.is_nonnegative else sp.Integer(0), *args)
        if short == "eval_hermite" and len(args) == 2:
            return lift(lambda k, t: sp.hermite(k, t), *args)
        if short == "arange" and len(args) == 1:
            c = self.conc(args[0])
            if c is None:
                self.err("arange over a non-constant bound", e)
            return KTable(list(range(int(c))))
        if short in ("max", "amax") and len(args) == 1:
            v = args[0]
            if isinstance(v, KTable):
                return max(int(self.conc(i)) for i in v.items)
            return v
        if short == "maximum" and len(args) == 2:
            return lift(lambda p, q: sp.Max(p, q), *args)
        if short == "where" and len(args) == 3:
            c, yes, no = args
            if isinstance(c, bool):
                return yes if c else no
            if isinstance(c, KTable) and all(isinstance(b, bool) for b in c.items):
                def pick(v, k):
                    return v.items[k] if isinstance(v, KTable) else v
                return KTable([pick(yes, k) if b else pick(no, k) for k, b in enumerate(c.items)])
            self.err("np.where on a non-constant condition", e)
        if short == "where" and len(args) == 1:
            v = args[0]
            if isinstance(v, KTable) and all(isinstance(b, bool) for b in v.items):
                return WhereIdx([k for k, b in enumerate(v.items) if b])
            if isinstance(v, bool):  # condition without k-dependence: all k or none
                return WhereIdx(list(range(self.m + 1)) if v else [])
            self.err("np.where on a non-constant condition", e)
        if short in ("ones", "zeros", "empty") and args:
            shp = args[0] if isinstance(args[0], tuple) else (args[0],)
            shp = tuple(s for s in shp)
            if len(shp) >= 1 and isinstance(shp[0], int):
                return KTable([1 if short == "ones" else (sp.Symbol("UNINIT") if short == "empty" else 0)] * shp[0])
            return TV(1 if short == "ones" else 0)
        if short == "sum":
            v = args[0]
            axis = kw.get("axis", args[1] if len(args) > 1 else None)
            if isinstance(v, KTable):
                if axis != 0:
                    self.err("sum over a table along an axis other than 0", e)
                tot = TV(0)
                for it in v.items:
                    tot = tot + it
                return tot
            return v
        if short == "prod":
            v = args[0]
            if isinstance(v, Empty):
                return TV(1)
            if isinstance(v, KTable):
                self.err("product over the term table", e)
            return v
        if short == "tensordot":
            return ("CONTRACT", args[0], args[1], args[2] if len(args) > 2 else None)
        if short == "einsum" and len(e.args) == 3 and isinstance(e.args[0], ast.Constant) and isinstance(e.args[0].value, str) and "->" in e.args[0].value:
            spec = e.args[0].value.replace(" ", "")
            ins, out_ = spec.split("->")
            sa, sb = ins.split(",")
            summed = [ch for ch in sa.replace("...", "") if ch in sb and ch not in out_]
            if len(summed) == 1 and "..." not in sa[: sa.index(summed[0])] and "..." not in sb[: sb.index(summed[0])]:
                # a contraction of one axis of each operand, like tensordot(a, b, (i, j)); free axes: a's, then b's
                free = [ch for ch in sa.replace("...", "") if ch != summed[0]] + [ch for ch in sb.replace("...", "") if ch != summed[0]]
                if out_.replace("...", "") == "".join(free):
                    return ("CONTRACT", args[1], args[2], (sa.index(summed[0]), sb.index(summed[0])))
            self.err(f"einsum '{spec}' is not a single-axis contraction in tensordot order", e)
        if isinstance(e.func, ast.Attribute) and not (d and d.split(".")[0] in ("np", "numpy", "scipy")):
            recv = self.expr(e.func.value)
            if e.func.attr in ("reshape", "squeeze", "copy", "astype"):
                return recv
        repo = getattr(self, "repo_ref", None)
        if repo is not None and d and "." not in d:
            g = repo.resolve_name(self.func.module, d, self.func)
            if hasattr(g, "node") and g.module is self.func.module and not e.keywords and len(args) == len(g.params) and getattr(self, "depth", 0) < 2:
                # a private helper of the same module: evaluated in place on the same kind of values
                sub = GenElem.__new__(GenElem)
                Elem.__init__(sub, g, dict(zip(g.params, args)), rule="GENERAL")
                sub.m, sub.nval = self.m, self.nval
                sub.repo_ref = repo
                sub.depth = getattr(self, "depth", 0) + 1
                sub.run()
                if len(sub.returns) != 1:
                    self.err(f"the helper {d} does not have exactly one return", e)
                return sub.returns[0][1]
        self.err(f"call `{d}` not modelled in the general back-end evaluator", e)


class Misaligned(Exception):
    def __init__(self, msg, node):
        self.msg, self.node = msg, node


def run_general(repo, R, max_m=4, max_n=6):
    f = repo.func(GENERAL)
    R.note_function(f.qualname)
    if len(f.params) != 7:
        raise AnalysisError("GENERAL", "signature of the general back-end changed", f.where())
    e = sp.exp(-a * x ** 2)
    bad = []
    total = 0
    for m in range(0, max_m + 1):
        for nval in range(0, max_n + 1):
            total += 1
            E = GenElem(f, m, nval)
            E.repo_ref = repo
            try:
                E.run()
            except Misaligned as mis:
                R.fail("GENERAL", f.site, mis.msg[:120], f"index arrays from np.where are applied to the wrong axes: {mis.msg}", where=f.where(mis.node))
                return
            if len(E.returns) != 1:
                raise AnalysisError("GENERAL", "expected one return", f.where())
            ret = E.returns[0][1]
            if not (isinstance(ret, tuple) and ret[0] == "CONTRACT"):
                raise AnalysisError("GENERAL", "the result is not a contraction of the primitives with the coefficients", f.where(E.returns[0][0]))
            _tag, coef, body, axes = ret
            if not (isinstance(coef, TV) and str(coef.e) == "c" and axes == (0, 0)):
                R.fail("GENERAL", f.site, "np.tensordot(prim_coeffs, ..., (0, 0))",
                       "primitives must be contracted with the (K, M) coefficient matrix on axis 0", where=f.where(E.returns[0][0]),
                       expected="tensordot(prim_coeffs, values, (0, 0))", found=f"{coef}, axes={axes}")
                return
            body = TV.of(body)
            val = sp.simplify(body.e / sp.Symbol("NORM"))
            if val.has(C):
                val = sp.simplify(val)
            want = sp.diff(x ** nval * e, x, m)
            ok = sp.simplify(sp.expand((val - want) / e)) == 0 and not val.has(C)
            if not ok:
                bad.append((m, nval, "value", str(sp.factor(sp.simplify(val / e))), str(sp.factor(sp.simplify(want / e)))))
            elif body.neg:
                bad.append((m, nval, "negpow", "", ""))
    vals = [b for b in bad if b[2] == "value"]
    negs = [b for b in bad if b[2] == "negpow"]
    R.check(not vals, "GENERAL", f.site, f"orders 0..{max_m} x n 0..{max_n}: closed form == d^m/dx^m x^n exp(-a x^2)",
            f"the general back-end's per-coordinate factor differs from the definition for (m, n) in {[(b[0], b[1]) for b in vals][:12]}"
            + (f"; e.g. m={vals[0][0]}, n={vals[0][1]}: got ({vals[0][3]})*exp(-a x^2), expected ({vals[0][4]})*exp(-a x^2)" if vals else ""),
            where=f.where(), expected="equality for all 35 parameter pairs", found=f"{len(vals)} mismatches",
            detail={"pairs": total, "symbols": "x (coordinate difference), a (exponent) symbolic"})
    R.check(not negs, "DEF", f.site, "general back-end: no negative power of the coordinate difference survives",
            f"for (m, n) in {[(b[0], b[1]) for b in negs][:12]} a term with a negative power of the coordinate difference is neither clamped nor "
            f"overwritten: at a point on the centre/coordinate plane the value is nan instead of exact",
            where=f.where(), expected="clamped exponent or zeroed term", found=f"{len(negs)} parameter pairs")
    R.extra["general_backend_pairs"] = total
