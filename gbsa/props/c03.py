"""C03 Point-charge and nuclear-attraction integrals are exact (structural clauses)."""
import ast

import sympy as sp

from ..kernels import expect_labels, K_labels, gather_table
from ..astutil import dotted
from ..stencil import SV, Lab, ClsSym, Gather, ARange, c, LabelMismatch
from ..stencil_spec import Finding, check_one_elec, Cp, A, B
from ..report import AnalysisError
from .momfam import run_kernel, report, sub_extractor
from .mpt import must_pass_through

PC = "gbasis.integrals.point_charge.PointChargeIntegral.construct_array_contraction"
q = sp.Symbol("q")


def swap_handler(taken):
    def h(ex, st):
        t = ast.unparse(st.test)
        is_swap = "angmom" in t and "<" in t or ">" in t and "angmom" in t
        if not is_swap and isinstance(st.test, ast.Compare):
            # the same decision written on values that hold the two angular momenta (tuples of shell data, temporaries)
            try:
                tv = ex.expr(st.test)
            except AnalysisError:
                tv = None
            if isinstance(tv, SV) and not tv.labels and tv.e.has(sp.Function("Indicator")) and \
                    {"l1", "l2"} <= {str(x) for x in tv.e.free_symbols} <= {"l1", "l2", "Lt", "Gt", "LtE", "GtE"}:
                is_swap = True
        if is_swap:
            if taken:
                for s in st.body:
                    ex.stmt(s)
            else:
                for s in st.orelse:
                    ex.stmt(s)
            return True
        # the swap decision kept in a flag first: `ab_swapped = l_one < l_two; if ab_swapped: ...`
        if isinstance(st.test, ast.Name) and isinstance(ex.env.get(st.test.id), SV) and not ex.env[st.test.id].labels \
                and ex.env[st.test.id].e.has(sp.Function("Indicator")):
            ex.env[st.test.id] = taken
        # `if ab_swapped: return transpose` - evaluated from the flag bound in the swap block
        if isinstance(st.test, ast.Name) and st.test.id in ex.env and isinstance(ex.env[st.test.id], bool):
            for s in (st.body if ex.env[st.test.id] else st.orelse):
                ex.stmt(s)
            return True
        return False
    return h


def boys_rule(repo, R):
    """boys_func(m, x) == 1F1(m+1/2; m+3/2; -x)/(2m+1): extracted as a closed form (masked stores -> Piecewise), compared
    symbolically, and - if sympy cannot prove it - refuted or left undecided by high-precision evaluation of the two FORMULAS
    (not of gbasis) at sample points."""
    from ..formula import Elem
    f = repo.func("gbasis.integrals.point_charge.PointChargeIntegral.boys_func")
    R.note_function(f.qualname)
    m, x = sp.symbols("m x", positive=True)

    def h_hyp(interp, call):
        a = [interp.expr(z) for z in call.args]
        return sp.hyper([a[0]], [a[1]], a[2])

    def h_gamma(interp, call):
        return sp.gamma(interp.expr(call.args[0]))

    class E(Elem):
        def on_if(self, st):
            # `if np.any(mask):` around elementwise np.where(mask, ...) updates: the body is the identity where the mask is empty
            t = st.test
            if isinstance(t, ast.Call) and ((isinstance(t.func, ast.Attribute) and t.func.attr == "any" and not t.args)
                                            or (dotted(t.func) or "") in ("np.any", "numpy.any", "any")) and not st.orelse:
                for s_ in st.body:
                    self.stmt(s_)
                return
            super().on_if(st)

        def mask_of(self, sl):
            mm = super().mask_of(sl)
            if mm is None and isinstance(sl, ast.Name):
                v = self.env.get(sl.id)
                if isinstance(v, (sp.logic.boolalg.BooleanFunction, sp.core.relational.Relational, sp.Not)):
                    return v
            return mm
    ev = E(f, {f.params[0]: m, f.params[1]: x}, handlers={"hyp1f1": h_hyp, "gamma": h_gamma, "factorial2": lambda i, c_: sp.factorial2(i.expr(c_.args[0])), "erf": lambda i, c_: sp.erf(i.expr(c_.args[0])),
                                                         "gammainc": lambda i, c_: sp.lowergamma(i.expr(c_.args[0]), i.expr(c_.args[1])) / sp.gamma(i.expr(c_.args[0]))},
           rule="BOYS")
    ev.run()
    if len(ev.returns) != 1:
        raise AnalysisError("BOYS", "boys_func: expected one return", f.where())
    got = ev.returns[0][1]
    want = sp.hyper([m + sp.Rational(1, 2)], [m + sp.Rational(3, 2)], -x) / (2 * m + 1)
    if sp.simplify(got - want) == 0:
        R.ok("BOYS", f.site, "hyp1f1(m + 1/2, m + 3/2, -x) / (2m + 1)", detail="symbolic identity")
        return
    # numeric refutation of the extracted formula against the definition F_m(x) = int_0^1 t^(2m) exp(-x t^2) dt
    worst = None
    for mv in (0, 1, 3, 6, 10):
        for xv in (sp.Rational(1, 100), sp.Rational(1, 2), 5, 24, 26, 30, 40, 100, 1000):
            try:
                g = sp.N(got.subs({m: mv, x: xv}), 40)
                w = sp.N(want.subs({m: mv, x: xv}), 40)
            except Exception:
                continue
            if g.has(sp.Symbol("UNINIT")) or not g.is_number:
                worst = (mv, xv, "undefined", w)
                break
            rel = abs(g - w) / abs(w)
            if rel > sp.Float("1e-13") and (worst is None or rel > worst[2]):
                worst = (mv, xv, rel, w)
        if worst is not None and worst[2] == "undefined":
            break
    if worst is not None:
        R.fail("BOYS", f.site, "boys_func(m, x)", f"the Boys function differs from 1F1(m+1/2; m+3/2; -x)/(2m+1): at m = {worst[0]}, x = {worst[1]} the extracted "
               f"formula is off by a relative {worst[2] if worst[2] == 'undefined' else sp.N(worst[2], 3)} (an approximation is substituted on part of the domain)",
               where=f.where(), expected=str(want), found=str(got)[:200])
        return
    raise AnalysisError("BOYS", "boys_func is neither provably equal to nor refutably different from the 1F1 expression", f.where())


def analyse(repo, R, taken, findings):
    env = {"cls": ClsSym(), "points_coords": SV(Cp(c), [Lab(("dim", "N")), Lab("xyz")]), "points_charge": SV(q, [Lab(("dim", "N"))])}
    f, ex = run_kernel(repo, R, PC, extra_env=env, if_handler=swap_handler(taken))
    if ex is None:
        return f, None, None
    tag = "L_a < L_b (swapped)" if taken else "L_a >= L_b"
    st, ret = ex.returns[-1]
    expect_labels(ret, K_labels(2, [("dim", "N")]), findings, f"PointChargeIntegral.construct_array_contraction [{tag}]", f)
    subs = sub_extractor(ex, "_compute_one_elec_integrals")
    if len(subs) != 1:
        raise AnalysisError("STENCIL", "the point-charge kernel does not reach the one-electron recursion exactly once", f.where())
    info = check_one_elec(subs[0], findings)
    X = info["X"]
    want_X = 2 if taken else 1
    if X is not None and X != want_X:
        findings.append(Finding("SWAP", None, f"[{tag}] the vertical recursion builds up shell {X}; the shell with the larger angular momentum must be built first "
                                              f"(shell {want_X} on this branch)", construct=f"swap branch {tag}"))
    if X is None or ret.labels is None:
        return f, ex, info
    Y = 2 if X == 1 else 1
    # final expression: -q * T[...] / (sqrt(prod F2(2 compX - 1)) sqrt(prod F2(2 compY - 1)))
    e = ret.e
    gs = list(e.atoms(Gather))
    if len(gs) != 1:
        findings.append(Finding("GATHER", None, f"[{tag}] the result is not a single selection from the horizontal table: {str(e)[:120]}", construct=f"selection {tag}"))
        return f, ex, info
    g = gs[0]
    F2 = sp.Function("F2")
    CX, CY = sp.Function(f"Comp{X}"), sp.Function(f"Comp{Y}")
    want = -q * g / (sp.sqrt(F2(2 * CX(0) - 1) * F2(2 * CX(1) - 1) * F2(2 * CX(2) - 1)) * sp.sqrt(F2(2 * CY(0) - 1) * F2(2 * CY(1) - 1) * F2(2 * CY(2) - 1)))
    if sp.simplify(e / want - 1) != 0:
        findings.append(Finding("CHARGE", None, f"[{tag}] the selected integrals must be multiplied by -q (one factor per charge) and the component normalisation "
                                                "1/sqrt(prod (2a_c - 1)!!) of both shells", expected=str(want)[:200], found=str(e)[:200], construct=f"prefactor {tag}"))
    # gather rule on the view of the horizontal table
    gid = int(g.args[0])
    rec = ex.shared["gathers"][gid]
    view = rec["view"]
    if view is None or view[0] is not info["horiz"]:
        findings.append(Finding("GATHER", None, f"[{tag}] the selection does not read the horizontal recursion table", construct=f"selection {tag}"))
        return f, ex, info
    tab, perm = view
    idx = g.args[1:]
    role = {0: ("Y", 0), 1: ("Y", 1), 2: ("Y", 2), 3: ("X", 0), 4: ("X", 1), 5: ("X", 2), 6: ("iota", None), 7: ("iota", None), 8: ("iota", None)}
    for k, taxis in enumerate(perm):
        kind, comp = role[taxis]
        got = idx[k]
        if kind == "iota":
            from ..stencil import Iota
            if not isinstance(got, Iota):
                findings.append(Finding("GATHER", None, f"[{tag}] axis {k} of the selection (table axis {taxis}) must be kept whole; it is indexed by {got}",
                                        construct=f"selection axis {k} {tag}"))
        else:
            wantc = (CX if kind == "X" else CY)(comp)
            if sp.simplify(got - wantc) != 0:
                findings.append(Finding("GATHER", None,
                                        f"[{tag}] table axis {taxis} holds the {'xyz'[comp]} exponent of shell {X if kind == 'X' else Y} but is selected with {got}",
                                        expected=str(wantc), found=str(got), construct=f"selection axis {k} {tag}"))
    # sizes: m_max = lX + lY + 1 for the Boys orders and the first shell's axes; second shell's axes lY + 1
    lX, lY = sp.Symbol(f"l{X}", integer=True, nonnegative=True), sp.Symbol(f"l{Y}", integer=True, nonnegative=True)
    vs, hs = info["vert"].sizes, info["horiz"].sizes
    oks = all(sp.simplify(s - (lX + lY + 1)) == 0 for s in vs[:4]) and all(sp.simplify(s - (lY + 1)) == 0 for s in hs[:3]) and \
        all(sp.simplify(s - (lX + lY + 1)) == 0 for s in hs[3:6])
    if not oks:
        findings.append(Finding("SIZE", None, f"[{tag}] recursion tables are sized {vs[:4]} / {hs[:6]}; the transfer to the second shell needs the first shell's "
                                              f"index up to l_a + l_b and the Boys function up to that order", construct=f"table sizes {tag}"))
    return f, ex, info


def dtype_set(repo, f, e, param, depth=0):
    """Which dtypes does the boolean expression `e` admit for `param.dtype`?  -> 'signed' (a subset of {int64, float64} or of the
    signed/floating kinds), 'unsigned' (admits an unsigned integer type), or None (no dtype test in `e`)."""
    if isinstance(e, ast.BoolOp) and isinstance(e.op, ast.And):
        outs = [dtype_set(repo, f, v, param, depth) for v in e.values]
        outs = [o for o in outs if o is not None]
        if not outs:
            return None
        return "signed" if "signed" in outs else "unsigned"  # a conjunction is as narrow as its narrowest member
    if isinstance(e, ast.BoolOp) and isinstance(e.op, ast.Or):
        outs = [dtype_set(repo, f, v, param, depth) for v in e.values]
        if any(o is None for o in outs):
            return None if all(o is None for o in outs) else "unsigned"
        return "unsigned" if "unsigned" in outs else "signed"
    txt = ast.unparse(e)
    if f"{param}.dtype" not in txt and "dtype" not in txt:
        return None
    if isinstance(e, ast.Compare) and len(e.ops) == 1 and ast.unparse(e.left) == f"{param}.dtype":
        rhs = e.comparators[0]
        if isinstance(e.ops[0], ast.In) and isinstance(rhs, (ast.List, ast.Tuple, ast.Set)):
            names = {ast.unparse(x) for x in rhs.elts}
        elif isinstance(e.ops[0], ast.Eq):
            names = {ast.unparse(rhs)}
        else:
            raise AnalysisError("CHARGE", f"dtype test `{txt[:60]}` not recognised", f.where(e))
        ok = {"int", "float", "np.int64", "np.float64", "np.int32", "np.float32", "np.int_", "np.float_", "np.double", "np.longdouble"}
        if names <= ok:
            return "signed"
        if any(n.startswith(("np.uint", "np.ubyte", "np.ushort")) or n in ("np.integer", "np.number", "bool") for n in names):
            return "unsigned"
        raise AnalysisError("CHARGE", f"dtype test `{txt[:60]}` not recognised", f.where(e))
    if isinstance(e, ast.Call) and ast.unparse(e.func) in ("np.issubdtype", "numpy.issubdtype") and len(e.args) == 2:
        kind = ast.unparse(e.args[1])
        if kind in ("np.signedinteger", "np.floating", "np.inexact", "float", "int", "np.float64", "np.int64"):
            return "signed"
        if kind in ("np.integer", "np.number", "np.unsignedinteger", "np.generic", "np.bool_"):
            return "unsigned"
        raise AnalysisError("CHARGE", f"dtype kind `{kind}` not recognised", f.where(e))
    if isinstance(e, ast.Compare) and ".dtype.kind" in txt:
        kinds = "".join(x.value for x in ast.walk(e) if isinstance(x, ast.Constant) and isinstance(x.value, str))
        return "unsigned" if ("u" in kinds or "b" in kinds) else "signed"
    if isinstance(e, ast.Call) and depth < 2:
        g = repo.resolve_name(f.module, ast.unparse(e.func), f)
        if hasattr(g, "node") and len(e.args) == 1 and ast.unparse(e.args[0]) in (f"{param}.dtype", param):
            rets = [n for n in ast.walk(g.node) if isinstance(n, ast.Return) and n.value is not None]
            if len(rets) == 1:
                inner_param = g.params[0]
                # evaluate the helper's return expression with its parameter standing for the dtype
                class Sub(ast.NodeTransformer):
                    def visit_Name(self, n):
                        if n.id == inner_param:
                            return ast.copy_location(ast.parse(f"{param}.dtype" if ast.unparse(e.args[0]).endswith(".dtype") else param, mode="eval").body, n)
                        return n
                import copy
                return dtype_set(repo, g, Sub().visit(copy.deepcopy(rets[0].value)), param, depth + 1)
    raise AnalysisError("CHARGE", f"dtype test `{txt[:60]}` not recognised", f.where(e))


def charge_dtype_rule(repo, R, f):
    """`-points_charge` is computed in the charges' own dtype: an unsigned integer array wraps around (Z = 8 becomes 248).  The
    argument validation must therefore not admit unsigned dtypes (or the charges must be converted to float before the negation)."""
    fn = f.node
    pc = [p for p in f.params if "charge" in p]
    if len(pc) != 1:
        raise AnalysisError("CHARGE", "charge parameter of the point-charge kernel not found", f.where())
    pc = pc[0]
    guards = [st for st in fn.body if isinstance(st, ast.If) and st.body and isinstance(st.body[-1], ast.Raise) and not st.orelse
              and pc in {n.id for n in ast.walk(st.test) if isinstance(n, ast.Name)}]
    verdicts = []
    for st in guards:
        t = st.test
        inner = t.operand if isinstance(t, ast.UnaryOp) and isinstance(t.op, ast.Not) else None
        if inner is None:
            continue
        v = dtype_set(repo, f, inner, pc)
        if v is not None:
            verdicts.append((v, st))
    casts = [n for n in ast.walk(fn) if isinstance(n, ast.Call) and isinstance(n.func, ast.Attribute) and n.func.attr == "astype"
             and ast.unparse(n.func.value) == pc and n.args and ast.unparse(n.args[0]) in ("float", "np.float64")]
    if casts:
        R.ok("CHARGE", f.site, f"{pc} converted to float before use")
        return
    if not verdicts:
        R.fail("CHARGE", f.site, f"dtype validation of {pc}", f"`{pc}` is used as `-{pc}` in its own dtype but no validation restricts that dtype: an unsigned "
               "integer array wraps around instead of changing sign", where=f.where(), expected=f"{pc}.dtype in [int, float]")
        return
    for v, st in verdicts:
        R.check(v == "signed", "CHARGE", f.site, f"dtype validation of {pc}: {ast.unparse(st.test)[:70]}",
                f"the validation admits unsigned integer charges, but the result is formed as `-{pc}` in the charges' own dtype: unsigned values wrap "
                "around (e.g. uint8 8 -> 248) and the integrals come out with the wrong sign and scale", where=f.where(st),
                expected=f"{pc}.dtype in [int, float] (signed)", found=ast.unparse(st.test)[:120])


def run(repo, R):
    from .momfam import compose_state_rules as _csr
    _csr(R, repo, ['gbasis/integrals/point_charge.py', 'gbasis/integrals/_one_elec_int.py', 'gbasis/integrals/nuclear_electron_attraction.py', 'gbasis/contractions.py', 'gbasis/spherical.py', 'gbasis/utils.py', 'gbasis/base.py', 'gbasis/base_one.py', 'gbasis/base_two_symm.py', 'gbasis/base_two_asymm.py', 'gbasis/base_four_symm.py'], "the property holds for every call, also after a shell's parameters were changed through its setters")
    R.rule("PITFALL", "no result buffer typed after an input, no real cast of a transformation, no unbuffered accumulation / first-occurrence scatter through np.unique")
    from ..pitfalls import report as _pitfalls
    _pitfalls(repo, R, ['gbasis.integrals.point_charge', 'gbasis.integrals._one_elec_int', 'gbasis.integrals.nuclear_electron_attraction'])
    R.rule("INPUTS", "the public wrapper uses its parameters as given: no path replaces one by a filtered/re-ordered/scaled/defaulted copy")
    R.rule("DISPATCH", "the wrapper assembles Cartesian, spherical, mixed and transformed results through the four assembly routes, same keywords on each")
    from ..flow import check_wrapper_inputs, check_wrapper_dispatch
    for _w in ['gbasis.integrals.point_charge.point_charge_integral']:
        _wf = repo.func(_w)
        R.note_function(_wf.qualname)
        check_wrapper_inputs(repo, _wf, R)
        check_wrapper_dispatch(repo, _wf, R, "DISPATCH")
    R.rule("V0", "start of the vertical recursion: (2 pi/p) F_m(p |P-C|^2) exp(-mu |A-B|^2) for every m")
    R.rule("Vv", "vertical Obara-Saika step on the shell being built, for x, y and z")
    R.rule("Vc", "primitives contracted once per shell with coefficients x (2a/pi)^(3/4)(4a)^(l/2), at Boys order 0")
    R.rule("Vh", "horizontal transfer (a, b+1_c) = (a+1_c, b) + (A-B)_c (a, b), for x, y and z")
    R.rule("SWAP", "both orientations (L_a >= L_b and the swapped branch) are the same computation with all roles exchanged, and both return contract K")
    R.rule("GATHER", "components selected with each shell's own x/y/z exponent columns on its own table axes; segment/charge axes kept whole")
    R.rule("CHARGE", "result = -q_k x integral x component normalisation, one factor per charge, no reduction over charges")
    R.rule("SIZE", "table sizes l_a + l_b + 1 (Boys orders, first shell) and l_b + 1 (second shell)")
    R.rule("K", "contract K: (M_1, L_1, M_2, L_2, charges)")
    R.rule("BOYS", "Boys function = 1F1(m+1/2; m+3/2; -x)/(2m+1)")
    R.rule("NUC", "nuclear attraction = sum over the charge axis of the same call, all arguments forwarded")
    R.rule("MPT", "every return passes through the recursion")
    R.rule("AXTYPE-K", "well-typed in the axis-provenance domain")
    fpc = repo.func(PC)
    must_pass_through(repo, R, fpc)
    if R.findings:
        return "a data-dependent shortcut bypasses the recursion; the remaining rules were not evaluated"
    total = 0
    for taken in (False, True):
        findings = []
        f, ex, info = analyse(repo, R, taken, findings)
        if info is not None:
            for s, name in info["stores"]:
                if not [fd for fd in findings if fd.store is s]:
                    R.ok(name, s.func.site, s.text + (" [swapped]" if taken else ""), detail="conforms")
                    total += 1
            if not [fd for fd in findings if fd.rule in ("K", "GATHER", "CHARGE", "SIZE", "SWAP")]:
                tag = "swapped" if taken else "direct"
                R.ok("K", f.site, f"[{tag}] returns (M_1, L_1, M_2, L_2, N)")
                R.ok("GATHER", f.site, f"[{tag}] own component columns on own axes")
                R.ok("CHARGE", f.site, f"[{tag}] -q x T x 1/sqrt(prod (2a-1)!!)")
                R.ok("SWAP", f.site, f"[{tag}] builds shell {info['X']} first")
                R.ok("SIZE", f.site, f"[{tag}] recursion tables reach l_a + l_b (first shell, Boys orders) and l_b (second shell)")
        report(R, f, findings)
    R.floor("Vv", total, 12, "one-electron recursion stores over both orientations")
    boys_rule(repo, R)
    charge_dtype_rule(repo, R, repo.func(PC))
    from .c09 import check_nuc_wrapper
    g = repo.func("gbasis.integrals.nuclear_electron_attraction.nuclear_electron_attraction_integral")
    R.note_function(g.qualname)
    n0 = len(R.findings)
    check_nuc_wrapper(repo, g, R, inputs_rule=True)
    if len(R.findings) == n0:
        R.ok("NUC", g.site, "np.sum(point_charge_integral(basis, nuclear_coords, nuclear_charges, ...), axis=2)")
    # the property is stated for Cartesian, spherical and mixed bases and with a transformation: the assembly of this operator's base
    # class (norm once per index, own Cartesian->spherical matrix, segment-major blocks, transformation on every index) is part of it
    from ..report import compose as _compose
    from . import c09 as _c09
    _bases = ('base_two_symm',)
    _compose(R, "C09", _c09.run, repo, keep=lambda fd: any(b_ in (fd.where or "") or b_ in fd.site for b_ in _bases) or "spherical.py" in (fd.where or ""),
             why="results for spherical / mixed / transformed bases are assembled by " + ", ".join(_bases))
    R.assumptions += ["Obara-Saika nuclear-attraction recurrences (Helgaker 9.10.26-27) and the horizontal recurrence as in DESIGN.md 2.2",
                      "the Boys function is uninterpreted apart from its arguments; scipy.special.hyp1f1 is 1F1", "assembly under C09"]
    return ("STENCIL + AXTYPE on the point-charge kernel chain for both orientations of the L_a >= L_b swap: the start value (Boys "
            "argument p|P-C|^2, order = the m index, prefactor), the six vertical stores and the three horizontal stores conform to the "
            "Obara-Saika / transfer recurrences for x, y and z with symbolic angular momenta; the primitive contraction between them is "
            "once per shell with that shell's coefficients and exponent normalisation at m = 0; the selection reads each shell's own "
            "exponent columns on its own table axes; the result is -q times that, times both shells' component normalisation, with the "
            "charge axis last and unreduced; both branches have type (M_1, L_1, M_2, L_2, N), i.e. every a/b pair is exchanged "
            "consistently and un-swapped at the end. The Boys wrapper is the stated 1F1 expression; the nuclear attraction sums that "
            "array over the charge axis. Not decided: accuracy, hyp1f1 for large arguments.")
