"""Small AST helpers shared by the rule modules."""
import ast

from .report import AnalysisError


def dotted(node):
    if isinstance(node, ast.Name):
        return node.id
    if isinstance(node, ast.Attribute):
        b = dotted(node.value)
        return None if b is None else b + "." + node.attr
    return None


def walk_no_nested(node):
    """ast.walk that does not descend into nested function/class definitions."""
    stack = [node]
    first = True
    while stack:
        n = stack.pop()
        if not first and isinstance(n, (ast.FunctionDef, ast.AsyncFunctionDef, ast.ClassDef, ast.Lambda)):
            continue
        first = False
        yield n
        stack.extend(ast.iter_child_nodes(n))


def calls_in(node, name=None, attr=None):
    """All Call nodes (outer first) whose callee is Name `name` / dotted name `name` / attribute `.attr`."""
    out = []
    for n in ast.walk(node):
        if isinstance(n, ast.Call):
            d = dotted(n.func)
            if name is not None and (d == name or (d and d.split(".")[-1] == name and "." in name and d.endswith(name))):
                out.append(n)
            elif attr is not None and isinstance(n.func, ast.Attribute) and n.func.attr == attr:
                out.append(n)
    out.sort(key=lambda c: (c.lineno, c.col_offset))
    return out


def target_names(t):
    if isinstance(t, ast.Name):
        return [t.id]
    if isinstance(t, (ast.Tuple, ast.List)):
        out = []
        for e in t.elts:
            out.extend(target_names(e))
        return out
    if isinstance(t, ast.Starred):
        return target_names(t.value)
    return []


class Defs:
    """Flow-insensitive definitions of local names inside one function: key -> [(kind, stmt, value, path)].
    kind: 'assign' (value is the rhs; for tuple targets `path` is the position), 'for' (value is the
    iterable), 'with', 'aug', 'param', 'comp', 'append' (x.append(v) / x.extend(v): value flows into x).
    Comprehension variables are scoped: their key is `name@line:col` of the comprehension, so that a
    reused `i` in two comprehensions does not connect unrelated values."""

    def __init__(self, fn):
        self.fn = fn
        self.defs = {}
        self.scope = {}  # id(Name node) -> key, for names bound by an enclosing comprehension
        a = fn.args
        for x in a.posonlyargs + a.args + a.kwonlyargs + ([a.vararg] if a.vararg else []) + ([a.kwarg] if a.kwarg else []):
            self.defs.setdefault(x.arg, []).append(("param", fn, None, ()))
        for n in walk_no_nested(fn):
            if isinstance(n, (ast.ListComp, ast.SetComp, ast.GeneratorExp, ast.DictComp)):
                tag = f"@{n.lineno}:{n.col_offset}"
                bound = set()
                for g in n.generators:
                    bound |= set(target_names(g.target))
                for sub in ast.walk(n):
                    if isinstance(sub, ast.Name) and sub.id in bound and id(sub) not in self.scope:
                        self.scope[id(sub)] = sub.id + tag
        for n in walk_no_nested(fn):
            if isinstance(n, ast.Assign):
                for t in n.targets:
                    if isinstance(t, ast.Subscript) and isinstance(t.value, ast.Name):
                        # X[...] = value : the value flows into X
                        self.defs.setdefault(self.key(t.value), []).append(("store", n, n.value, ()))
                    else:
                        self._bind(t, "assign", n, n.value)
            elif isinstance(n, ast.AnnAssign) and n.value is not None:
                self._bind(n.target, "assign", n, n.value)
            elif isinstance(n, ast.AugAssign):
                self._bind(n.target, "aug", n, n.value)
            elif isinstance(n, (ast.For, ast.AsyncFor)):
                self._bind(n.target, "for", n, n.iter)
            elif isinstance(n, (ast.With, ast.AsyncWith)):
                for item in n.items:
                    if item.optional_vars is not None:
                        self._bind(item.optional_vars, "with", n, item.context_expr)
            elif isinstance(n, (ast.ListComp, ast.SetComp, ast.GeneratorExp, ast.DictComp)):
                for g in n.generators:
                    self._bind(g.target, "comp", n, g.iter)
            elif isinstance(n, ast.Call) and isinstance(n.func, ast.Attribute) and n.func.attr in ("append", "extend", "add") \
                    and isinstance(n.func.value, ast.Name) and n.args:
                self.defs.setdefault(self.key(n.func.value), []).append(("append", n, n.args[0], ()))

    def key(self, name_node):
        return self.scope.get(id(name_node), name_node.id)

    def _bind(self, t, kind, stmt, value, path=()):
        if isinstance(t, ast.Name):
            self.defs.setdefault(self.key(t), []).append((kind, stmt, value, path))
        elif isinstance(t, (ast.Tuple, ast.List)):
            for i, e in enumerate(t.elts):
                self._bind(e, kind, stmt, value, path + (i,))
        elif isinstance(t, ast.Starred):
            self._bind(t.value, kind, stmt, value, path)

    def of(self, name):
        return self.defs.get(name, [])

    def single_assign(self, name):
        """The unique plain assignment `name = expr` (no other definition except in-place ones), or None."""
        ds = [d for d in self.of(name) if d[0] == "assign" and not d[3]]
        others = [d for d in self.of(name) if d[0] not in ("aug", "append", "store")]
        return ds[0][2] if len(ds) == 1 and len(others) == 1 else None

    def names_in(self, expr):
        return {self.key(n) for n in ast.walk(expr) if isinstance(n, ast.Name)}

    def slice_names(self, expr, stop=()):
        """Transitive closure of the local names `expr` depends on (backward slice, flow-insensitive)."""
        seen = set()
        work = list(self.names_in(expr))
        while work:
            nm = work.pop()
            if nm in seen:
                continue
            seen.add(nm)
            if nm in stop:
                continue
            for kind, stmt, value, _p in self.of(nm):
                if value is not None:
                    work.extend(self.names_in(value))
        return seen


SAFE_FUNCS = {"dict": dict, "enumerate": enumerate, "zip": zip, "range": range, "list": list, "tuple": tuple,
              "len": len, "str": str, "int": int, "sorted": sorted, "set": set, "reversed": reversed}


def const_eval(node, env=None):
    """Constant folding of literal expressions (what a compiler's constant propagation does).
    Raises ValueError when the expression is not a compile-time constant of the supported forms."""
    env = env or {}
    if isinstance(node, ast.Constant):
        return node.value
    if isinstance(node, ast.Name):
        if node.id in env:
            return env[node.id]
        raise ValueError(f"name {node.id} is not a constant")
    if isinstance(node, (ast.List, ast.Tuple, ast.Set)):
        vals = [const_eval(e, env) for e in node.elts]
        return list(vals) if isinstance(node, ast.List) else (tuple(vals) if isinstance(node, ast.Tuple) else set(vals))
    if isinstance(node, ast.Dict):
        out = {}
        for k, v in zip(node.keys, node.values):
            if k is None:
                out.update(const_eval(v, env))
            else:
                out[const_eval(k, env)] = const_eval(v, env)
        return out
    if isinstance(node, ast.UnaryOp) and isinstance(node.op, (ast.USub, ast.UAdd)):
        v = const_eval(node.operand, env)
        return -v if isinstance(node.op, ast.USub) else +v
    if isinstance(node, ast.BinOp):
        l, r = const_eval(node.left, env), const_eval(node.right, env)
        ops = {ast.Add: lambda a, b: a + b, ast.Sub: lambda a, b: a - b, ast.Mult: lambda a, b: a * b,
               ast.FloorDiv: lambda a, b: a // b, ast.Div: lambda a, b: a / b, ast.Mod: lambda a, b: a % b,
               ast.Pow: lambda a, b: a ** b}
        for k, fn in ops.items():
            if isinstance(node.op, k):
                if isinstance(node.op, ast.Pow) and (abs(r) > 64 if isinstance(r, (int, float)) else True):
                    raise ValueError("power too large")
                if isinstance(node.op, ast.Mult) and isinstance(l, (str, list, tuple)) and isinstance(r, int) and r > 10000:
                    raise ValueError("repeat too large")
                return fn(l, r)
        raise ValueError("operator")
    if isinstance(node, ast.Subscript):
        v = const_eval(node.value, env)
        s = node.slice
        if isinstance(s, ast.Slice):
            return v[slice(*(const_eval(x, env) if x is not None else None for x in (s.lower, s.upper, s.step)))]
        return v[const_eval(s, env)]
    if isinstance(node, ast.Call):
        d = dotted(node.func)
        if d in SAFE_FUNCS and not any(k.arg is None for k in node.keywords):
            args = [const_eval(a, env) for a in node.args]
            kw = {k.arg: const_eval(k.value, env) for k in node.keywords}
            r = SAFE_FUNCS[d](*args, **kw)
            return list(r) if d in ("enumerate", "zip", "range", "reversed") else r
        if isinstance(node.func, ast.Attribute) and node.func.attr in ("lower", "upper", "split", "strip", "join", "index", "count", "items", "keys", "values"):
            recv = const_eval(node.func.value, env)
            if isinstance(recv, (str, dict, list, tuple)):
                args = [const_eval(a, env) for a in node.args]
                r = getattr(recv, node.func.attr)(*args)
                return list(r) if node.func.attr in ("items", "keys", "values") else r
        raise ValueError(f"call {d}")
    if isinstance(node, (ast.ListComp, ast.DictComp, ast.SetComp, ast.GeneratorExp)):
        def rec(gens, env2):
            if not gens:
                if isinstance(node, ast.DictComp):
                    yield (const_eval(node.key, env2), const_eval(node.value, env2))
                else:
                    yield const_eval(node.elt, env2)
                return
            g = gens[0]
            for item in const_eval(g.iter, env2):
                e3 = dict(env2)
                _bind_const(g.target, item, e3)
                if all(const_eval(c, e3) for c in g.ifs):
                    yield from rec(gens[1:], e3)
        items = list(rec(node.generators, dict(env)))
        if len(items) > 100000:
            raise ValueError("too large")
        if isinstance(node, ast.DictComp):
            return dict(items)
        return set(items) if isinstance(node, ast.SetComp) else list(items)
    if isinstance(node, ast.Compare) and len(node.ops) == 1:
        l, r = const_eval(node.left, env), const_eval(node.comparators[0], env)
        op = node.ops[0]
        table = {ast.Eq: l == r, ast.NotEq: l != r}
        for k, v in table.items():
            if isinstance(op, k):
                return v
        if isinstance(op, ast.In):
            return l in r
        if isinstance(op, ast.NotIn):
            return l not in r
        if isinstance(op, ast.Lt):
            return l < r
        if isinstance(op, ast.LtE):
            return l <= r
        if isinstance(op, ast.Gt):
            return l > r
        if isinstance(op, ast.GtE):
            return l >= r
    if isinstance(node, ast.JoinedStr):
        raise ValueError("f-string")
    raise ValueError(type(node).__name__)


def _bind_const(target, value, env):
    if isinstance(target, ast.Name):
        env[target.id] = value
    elif isinstance(target, (ast.Tuple, ast.List)):
        vals = list(value)
        if len(vals) != len(target.elts):
            raise ValueError("unpack")
        for t, v in zip(target.elts, vals):
            _bind_const(t, v, env)
    else:
        raise ValueError("target")


def enclosing_stmt_chain(fn, node):
    """List of statements (outermost first) that contain `node`, inside function node fn."""
    chain = []

    def rec(stmts):
        for st in stmts:
            if any(n is node for n in ast.walk(st)):
                chain.append(st)
                for fld in ("body", "orelse", "finalbody"):
                    sub = getattr(st, fld, None)
                    if isinstance(sub, list) and sub and isinstance(sub[0], ast.stmt):
                        if rec(sub):
                            return True
                for h in getattr(st, "handlers", []):
                    if rec(h.body):
                        return True
                return True
        return False

    rec(fn.body)
    return chain


def normal_compare(node):
    """Comparison normal form: returns (lhs_text, op, rhs_text) with op in {'<','<=','>','>=','==','!='}
    after removing a leading `not` and orienting so that it reads as written; use flip() to compare."""
    neg = False
    while isinstance(node, ast.UnaryOp) and isinstance(node.op, ast.Not):
        neg = not neg
        node = node.operand
    if not (isinstance(node, ast.Compare) and len(node.ops) == 1):
        return None
    ops = {ast.Lt: "<", ast.LtE: "<=", ast.Gt: ">", ast.GtE: ">=", ast.Eq: "==", ast.NotEq: "!="}
    op = None
    for k, v in ops.items():
        if isinstance(node.ops[0], k):
            op = v
    if op is None:
        return None
    if neg:
        op = {"<": ">=", "<=": ">", ">": "<=", ">=": "<", "==": "!=", "!=": "=="}[op]
    return (node.left, op, node.comparators[0])


def flip(op):
    return {"<": ">", "<=": ">=", ">": "<", ">=": "<=", "==": "==", "!=": "!="}[op]
