"""Specification recurrences (DESIGN 2.2 table) in target-relative form and the conformance engine.

A store   T[t] = sum_k coef_k * T[t + o_k]   extracted by stencil.Extractor is compared with the specification recurrence for the
axis it increments: same support (set of offsets o_k) and, term by term, coefficients whose difference simplifies to 0.  A
specification term that the code omits must vanish on the whole domain of the store (first-step statements); an extra code
term is a violation; a store whose support is not comparable with the specification is a different recursion scheme
(ANALYSIS-ERROR, never a violation).
"""
import ast

import sympy as sp

from .stencil import (Store, Idx, store_outside_table, Extractor, SV, Lab, TabRef, ARange, Boys, c, linear_terms, offsets, resolve_aranges, target_index_symbols,
                      LabelMismatch)
from .report import AnalysisError

# canonical input symbols ---------------------------------------------------------------------------------------------
A, B, C, D = (sp.Function(n) for n in "ABCD")  # shell centres as functions of the component
Cm = sp.Function("Cm")  # moment origin
Cp = sp.Function("Cp")  # point-charge position
al, be, ga, de = sp.symbols("alpha beta gamma delta", positive=True)


class Finding:
    def __init__(self, rule, store, msg, expected=None, found=None, construct=None):
        self.rule, self.store, self.msg, self.expected, self.found = rule, store, msg, expected, found
        self.construct = construct or (store.text if store is not None else "")


def norm_rat(e):
    """cheap normal form for rational expressions in the symbols (falls back to simplify when radicals/functions get in the way)"""
    try:
        return sp.cancel(sp.together(e))
    except Exception:
        return sp.simplify(e)


def is_zero(e):
    if e == 0:
        return True
    try:
        if sp.expand(e) == 0:
            return True
    except Exception:
        pass
    try:
        # a rational expression vanishes iff the numerator over a common denominator does (no polynomial gcd needed)
        num = sp.fraction(sp.together(e))[0]
        if sp.expand(num) == 0:
            return True
        ex = sp.expand(num)
        pows_ok = all(x.exp.is_Integer and x.exp >= 0 for x in ex.atoms(sp.Pow))
        funcs_ok = all(isinstance(x, sp.core.function.AppliedUndef) for x in ex.atoms(sp.Function))
        if pows_ok and funcs_ok:
            return False  # a non-zero polynomial in symbols and uninterpreted applications: decided
    except Exception:
        pass
    return sp.simplify(e) == 0


_STENCIL_CACHE = {}


def stencil_of(ex, store):
    """-> (terms, const) with terms = list of dict(offset=tuple, coef=expr in target symbols, ref=info), or raises
    LabelMismatch / returns offsets containing markers."""
    key = id(store)
    if key in _STENCIL_CACHE and _STENCIL_CACHE[key][0] is store:
        return _STENCIL_CACHE[key][1]
    res = _stencil_of(ex, store)
    _STENCIL_CACHE[key] = (store, res)
    return res


def _stencil_of(ex, store):
    terms, const = linear_terms(ex, store)
    tsyms = target_index_symbols(store)
    subs = {}
    for k, ts in enumerate(tsyms):
        if len(ts) == 4:  # loop expression v + c0 as the target index: express the loop variable through the target index
            tsym, _lo, _is_const, expr = ts
            vs = [v for v, _l, _h in store.loops if expr.has(v)]
            if len(vs) != 1:
                raise AnalysisError(ex.rule, "target index depends on several loop variables", store.func.where(store.node))
            sol = sp.solve(sp.Eq(tsym, expr), vs[0])
            if len(sol) != 1:
                raise AnalysisError(ex.rule, "target index is not affine in the loop variable", store.func.where(store.node))
            subs[vs[0]] = sol[0]
    out = []
    for rid, coef in terms:
        ref = ex.refs[rid]
        if ref["table"] is not store.table:
            raise AnalysisError(ex.rule, "a recursion step mixes references to two tables", store.func.where(store.node))
        off = offsets(store, ref)
        cf = resolve_aranges(ex, store, coef)
        cf = norm_rat(cf.subs(subs))
        out.append(dict(offset=tuple(off), coef=cf, ref=ref, rid=rid))
    # two loads of the same entry are one term of the recurrence
    merged = {}
    order = []
    for t in out:
        key = tuple(str(o) for o in t["offset"])
        if key in merged and all(not isinstance(o, tuple) for o in t["offset"]):
            merged[key]["coef"] = norm_rat(merged[key]["coef"] + t["coef"])
        else:
            if key in merged:
                key = key + (len(order),)
            merged[key] = t
            order.append(key)
    out = [merged[k] for k in order]
    const = resolve_aranges(ex, store, const).subs(subs) if const != 0 else sp.Integer(0)
    return out, const, tsyms, subs


class RegionStore(Store):
    """A store together with the in-place increments that follow it (`T[i] = a; T[i, 1:] += b`), restricted to one region of the
    partition of its target the increments induce: on that region the recursion step is the sum of the parts that cover it."""
    region_text = ""

    @property
    def text(self):
        return ast.unparse(self.node.targets[0]) + self.region_text


def compose_increments(ex, stores):
    """`T[idx] = a` directly followed (same loop nest) by `T[sub] += b` stores whose targets are `idx` with the leading entry of some
    axes cut off: replaced by one synthetic store per region (head entry / rest, per cut axis) whose recurrence is `a` plus the
    increments that cover the region.  Stencil terms are offsets relative to the target index with coefficients in the target index
    symbols, so a part restricted to a sub-region keeps its terms; on a head entry the index symbol becomes that constant."""
    import copy
    import itertools
    out = []
    k = 0
    while k < len(stores):
        b = stores[k]
        incs = []
        j = k + 1
        while j < len(stores):
            s2 = stores[j]
            if s2.table is not b.table or s2.loops != b.loops or len(s2.index) != len(b.index):
                break
            try:
                terms2, const2, _ts2, _sb2 = stencil_of(ex, s2)
            except (LabelMismatch, AnalysisError):
                break
            selfref = [t for t in terms2 if all((not isinstance(o, tuple)) and o.is_number and o == 0 for o in t["offset"])]
            if len(selfref) != 1 or sp.simplify(selfref[0]["coef"] - 1) != 0:
                break
            cut = []
            ok = True
            for ax, (ib, i2) in enumerate(zip(b.index, s2.index)):
                win = ("slice", "full")
                if ib.kind in win and i2.kind in win and sp.simplify(i2.lo - ib.lo - 1) == 0 and sp.simplify(i2.hi - ib.hi) == 0:
                    cut.append(ax)
                elif (ib.kind == i2.kind or (ib.kind in win and i2.kind in win)) and sp.simplify(sp.sympify(i2.lo) - sp.sympify(ib.lo)) == 0 and sp.simplify(sp.sympify(i2.hi) - sp.sympify(ib.hi)) == 0 \
                        and (ib.value is None and i2.value is None or (ib.value is not None and i2.value is not None and sp.simplify(ib.value - i2.value) == 0)):
                    continue
                else:
                    ok = False
                    break
            if not ok or not cut:
                break
            incs.append((s2, [t for t in terms2 if t is not selfref[0]], const2, cut))
            j += 1
        if not incs:
            out.append(b)
            k += 1
            continue
        try:
            terms_b, const_b, _tsb, subs_b = stencil_of(ex, b)
        except (LabelMismatch, AnalysisError):
            out.extend(stores[k:j])
            k = j
            continue
        if any(all((not isinstance(o, tuple)) and o.is_number and o == 0 for o in t["offset"]) for t in terms_b):
            out.extend(stores[k:j])
            k = j
            continue
        axes = sorted({ax for _s, _t, _c, cut in incs for ax in cut})
        for choice in itertools.product(("head", "rest"), repeat=len(axes)):
            where = dict(zip(axes, choice))
            rs = RegionStore(b.func, b.node, b.table, list(b.index), b.rhs, b.loops)
            sub_const = {}
            for ax, wh in where.items():
                ib = b.index[ax]
                if wh == "head":
                    rs.index[ax] = Idx("const", value=sp.sympify(ib.lo), text=str(ib.lo))
                    sub_const[sp.Symbol(f"t{ax}", integer=True)] = sp.sympify(ib.lo)
                else:
                    rs.index[ax] = Idx(ib.kind if ib.kind != "full" else "slice", value=ib.value, lo=ib.lo + 1, hi=ib.hi, text=f"{ib.lo + 1}:")
            parts = [(terms_b, const_b)] + [(t2, c2) for _s2, t2, c2, cut in incs if all(where[ax] == "rest" for ax in cut)]
            merged, order = {}, []
            const = sp.Integer(0)
            for tl, cc in parts:
                const = const + (cc.subs(sub_const) if hasattr(cc, "subs") else cc)
                for t in tl:
                    key = tuple(str(o) for o in t["offset"])
                    cf = norm_rat(t["coef"].subs(sub_const))
                    if key in merged:
                        merged[key]["coef"] = norm_rat(merged[key]["coef"] + cf)
                    else:
                        merged[key] = dict(t, coef=cf)
                        order.append(key)
            rs.region_text = " (with the increments that follow) on " + ", ".join(f"axis {ax}: {'first entry' if wh == 'head' else 'the rest'}" for ax, wh in where.items())
            rs.parts = [b] + [s2 for s2, _t, _c, _cut in incs]
            _STENCIL_CACHE[id(rs)] = (rs, ([merged[k2] for k2 in order], const, target_index_symbols(rs), subs_b))
            out.append(rs)
        k = j
    return out


def tvalues(tsyms):
    """target index value per axis and domain lower bound"""
    vals, lows, consts = [], [], []
    for ts in tsyms:
        vals.append(ts[0])
        lows.append(ts[1])
        consts.append(ts[2])
    return vals, lows, consts


def vanishes_on_domain(coef, tsyms, store):
    """Does a specification coefficient vanish for every target index in the store's domain?"""
    cf = sp.simplify(coef)
    if cf == 0:
        return True
    # constant axes are already substituted (their value is a number); window/loop axes have a symbolic index >= lower bound
    return False


def compare(ex, store, spec_terms, findings, rule, what):
    """spec_terms: list of (offset tuple over the table axes, coefficient in the target-index values)."""
    terms, const, tsyms, subs = stencil_of(ex, store)
    moving = [t for t in terms if any((not isinstance(o, tuple)) and not o.is_number for o in t["offset"])]
    if moving:
        k = [i for i, o in enumerate(moving[0]["offset"]) if (not isinstance(o, tuple)) and not o.is_number][0]
        findings.append(Finding(rule, store, f"{what}: the reference `{ast.unparse(moving[0]['ref']['node'])[:70]}` does not move with the target index on axis {k} "
                                             f"(offset {moving[0]['offset'][k]} depends on the loop variable)",
                                expected="source index = target index + constant", found=str(moving[0]["offset"][k])))
        return False
    bad = [t for t in terms if any(isinstance(o, tuple) for o in t["offset"])]
    if bad:
        o = [x for x in bad[0]["offset"] if isinstance(x, tuple)][0]
        findings.append(Finding(rule, store, f"{what}: the slices `{o[1]}` (target) and `{o[2]}` (source) do not have the same length / are not a shift of each other",
                                expected="source window = target window shifted by a constant", found=f"{o[1]} <- {o[2]}"))
        return False
    if not is_zero(const):
        findings.append(Finding(rule, store, f"{what}: an inhomogeneous term {const} is added in a recursion step", found=str(const)))
        return False
    code = {}
    for t in terms:
        key = tuple(int(o) for o in t["offset"])
        code[key] = code.get(key, 0) + t["coef"]
    spec = {}
    for off, cf in spec_terms:
        spec[tuple(off)] = spec.get(tuple(off), 0) + cf
    ok = True
    for off, cf in spec.items():
        if off in code:
            if not is_zero(code[off] - cf):
                findings.append(Finding(rule, store, f"{what}: coefficient of the term at offset {off} differs from the recurrence",
                                        expected=str(sp.simplify(cf)), found=str(code[off])))
                ok = False
        else:
            if not is_zero(cf):
                findings.append(Finding(rule, store, f"{what}: the recurrence term at offset {off} with coefficient {sp.simplify(cf)} is missing "
                                                     f"(it does not vanish on the index range this statement covers)",
                                        expected=str(sp.simplify(cf)), found="term absent"))
                ok = False
    for off, cf in code.items():
        if off not in spec:
            findings.append(Finding(rule, store, f"{what}: extra term at offset {off} with coefficient {cf} that the recurrence does not contain",
                                    expected="no such term", found=str(cf)))
            ok = False
    return ok


def inc_axis(terms, naxes):
    """The table axes on which every source lies strictly below the target (a source pinned to a constant index under a
    moving target counts as below: its defect is reported by `compare`)."""
    cands = []
    for k in range(naxes):
        offs = [t["offset"][k] for t in terms]
        if offs and all((not isinstance(o, tuple)) and ((o.is_number and o <= -1) or (not o.is_number and (o + 1).is_nonpositive is not False and
                                                                                     sp.simplify(o).is_negative is not False)) for o in offs):
            if any(o.is_number for o in offs):
                cands.append(k)
    return cands


# ====================================================================================================== OS1D (moment kernel)
def os1d_quantities():
    p = al + be
    P = (al * A(c) + be * B(c)) / p
    return p, P


def check_moment_kernel(repo, f, roles, findings, rule="S", ex=None, only=None):
    """Sa/Sb/Se + S0 on `_compute_multipole_moment_integrals_intermediate`.  roles: param name -> SV (or an extractor that
    already ran).  only: restrict the reported steps to these names (C01: S0, Sa, Sb; C07: Se)."""
    if ex is None:
        ex = Extractor(f, roles, rule="STENCIL")
        ex.run()
    if len(ex.all_tables) != 1:
        raise AnalysisError("STENCIL", f"expected one recursion table in {f.name}, found {len(ex.all_tables)}", f.where())
    tab = ex.all_tables[0]
    p, P = os1d_quantities()
    # centres as bound at the call: the first coordinate parameter is the moment origin, then shell a, then shell b
    cpars = [q for q in f.params if isinstance(ex.env.get(q), SV) and ex.env[q].labels is not None and
             [l.base for l in ex.env[q].labels if not l.is_one()] == ["xyz"]]
    centres = {"a": A(c), "b": B(c), "e": Cm(c)}
    info_centres = {q: ex.env[q].e for q in cpars}
    others = [v for v in info_centres.values() if v not in (A(c), B(c))]
    if len(others) == 1:
        centres["e"] = others[0]  # the moment origin as bound by the caller (the zero vector for the overlap)
    lead = {k: sp.simplify(P - v) for k, v in centres.items()}
    axis_role = {}
    info = dict(stores=[], table=tab, ex=ex)
    n_axes = len(tab.labels)
    rec_stores = []
    info["dead"] = []
    for s in compose_increments(ex, list(ex.stores)):
        if s.table is tab and store_outside_table(s, tab):
            # the caller asked for a table that does not reach this entry (e.g. order 0 for the overlap): the store writes into an
            # empty slice / its loop is empty, so nothing this caller computes depends on it
            info["dead"].append(s)
            continue
        try:
            terms, const, tsyms, subs = stencil_of(ex, s)
        except LabelMismatch as lm:
            findings.append(Finding(rule + "-ALIGN", s, lm.msg))
            continue
        if not terms:
            # base case
            vals, lows, consts = tvalues(tsyms)
            want = sp.sqrt(sp.pi / p) * sp.exp(-al * be / p * (A(c) - B(c)) ** 2)
            okb = sp.simplify(const - want) == 0
            zero_idx = all(v == 0 for v, cst in zip(vals[:3], consts[:3]) if cst) and all(consts[:3])
            if not okb or not zero_idx:
                findings.append(Finding("S0", s, "the start of the recursion is not sqrt(pi/p) exp(-mu (A-B)^2) at index (0,0,0)",
                                        expected=str(want), found=str(const)))
            info["stores"].append((s, "S0", None))
            continue
        ks = inc_axis(terms, n_axes)
        ks = [k for k in ks if k < 3]
        if len(ks) != 1:
            raise AnalysisError("STENCIL", f"cannot tell which index `{s.text}` increments (candidates {ks}): not an Obara-Saika step", f.where(s.node))
        r = ks[0]
        # leading coefficient -> centre of this axis
        leads = [t for t in terms if t["offset"][r] == -1 and all(o == 0 for k2, o in enumerate(t["offset"]) if k2 != r)]
        if len(leads) != 1:
            raise AnalysisError("STENCIL", f"`{s.text}` has no single leading term T[t - e_r]", f.where(s.node))
        lc = leads[0]["coef"]
        role = [k for k, v in lead.items() if sp.simplify(lc - v) == 0]
        if not role:
            findings.append(Finding("S-LEAD", s, f"the leading coefficient {lc} is none of P-A, P-B, P-C (P the Gaussian product centre)",
                                    expected=" | ".join(str(v) for v in lead.values()), found=str(lc)))
            continue
        role = role[0]
        if r in axis_role and axis_role[r] != role:
            findings.append(Finding("S-LEAD", s, f"table axis {r} is incremented with the centre of `{axis_role[r]}` elsewhere but with the centre "
                                                 f"of `{role}` here", expected=str(lead[axis_role[r]]), found=str(lc)))
            continue
        axis_role[r] = role
        rec_stores.append((s, r))
    info["axis_role"] = axis_role
    # full comparison once the roles are known
    rec_axes = sorted(axis_role)
    for s, r in rec_stores:
        terms, const, tsyms, subs = stencil_of(ex, s)
        vals, lows, consts = tvalues(tsyms)
        spec = []
        e_r = [0] * n_axes
        e_r[r] = -1
        spec.append((tuple(e_r), lead[axis_role[r]]))
        for s2 in range(3):  # every recursion index couples: i, j and the moment order
            off = list(e_r)
            off[s2] -= 1
            n_s = vals[s2] if s2 != r else vals[s2] - 1
            spec.append((tuple(off), n_s / (2 * p)))
        name = {"a": "Sa", "b": "Sb", "e": "Se"}[axis_role[r]]
        if only is None or name in only:
            compare(ex, s, spec, findings, name, f"{name} step")
        info["stores"].append((s, name, r))
    info["returns"] = ex.returns
    return info


# ====================================================================================================== D (derivative kernel)
def check_diff_kernel(repo, f, roles, findings, moment_func, moment_axis_role):
    """D^{k}_{j,i} = 2 alpha_a D^{k-1}_{j,i+1} - i D^{k-1}_{j,i-1} on a table padded by the order; D^0 = M^0."""
    calls = []

    def moment_hook(ex, e):
        args = [ex.expr(a) for a in e.args]
        calls.append((e, args))
        # result: the moment table (order, b, a, xyz, Kb, Ka) - sizes from the arguments
        mo, am, bm = args[1], args[3], args[6]
        sizes = [mo.e + 1, bm.e + 1, am.e + 1, sp.Integer(3), None, None]
        labels = [Lab(("mom", 0)), Lab(("mom", 1)), Lab(("mom", 2)), Lab("xyz"), Lab(("mom", 4)), Lab(("mom", 5))]
        v = SV(sp.Function("MOMENT")(sp.Integer(len(calls))), labels)
        v.moment_sizes = sizes
        return v

    env = dict(roles)
    env[moment_func.name] = moment_hook
    ex = Extractor(f, env, rule="STENCIL")
    # subscripting the hook result `[0, :, ...]` must keep the value: handled by the generic subscript (labels 'mom')
    ex.run()
    if len(ex.all_tables) != 1:
        raise AnalysisError("STENCIL", f"expected one recursion table in {f.name}", f.where())
    tab = ex.all_tables[0]
    info = dict(stores=[], table=tab, ex=ex, moment_calls=calls)
    n_axes = len(tab.labels)
    for s in ex.stores:
        try:
            terms, const, tsyms, subs = stencil_of(ex, s)
        except LabelMismatch as lm:
            findings.append(Finding("D-ALIGN", s, lm.msg))
            continue
        vals, lows, consts = tvalues(tsyms)
        if not terms:
            # D^0 = padded overlap table
            okb = const.has(sp.Function("MOMENT")) and consts[0] and vals[0] == 0
            if not okb:
                findings.append(Finding("D0", s, "order 0 of the derivative table is not the (padded) overlap table", found=str(const)))
            info["stores"].append((s, "D0", None))
            continue
        ks = [k for k in inc_axis(terms, n_axes) if k < 3]
        if ks != [0]:
            raise AnalysisError("STENCIL", f"`{s.text}` does not raise the derivative order (axis 0): not the D recurrence", f.where(s.node))
        spec = []
        up = [0] * n_axes
        up[0], up[2] = -1, +1
        dn = [0] * n_axes
        dn[0], dn[2] = -1, -1
        spec.append((tuple(up), 2 * al))
        spec.append((tuple(dn), -vals[2]))
        compare(ex, s, spec, findings, "D", "derivative step")
        info["stores"].append((s, "D", 0))
    info["returns"] = ex.returns
    return info


# ====================================================================================================== translation / cancellation
def shift_all(expr, t):
    """Translate every centre (shell centres, moment origin, point charges) by t(c)."""
    reps = {}
    for fn in (A, B, C, D, Cm, Cp):
        for app in expr.atoms(fn):
            reps[app] = app + t(*app.args)
    return expr.xreplace(reps)


def translation_invariant(expr):
    t = sp.Function("tau")
    d = sp.simplify(sp.expand(shift_all(expr, t) - expr))
    if d == 0:
        return True
    return sp.simplify(sp.together(d)) == 0


def superlinear_cancellation(expr):
    """Numerical-stability lint: after shifting all centres by tau, does some SUM inside `expr` cancel terms that are quadratic
    (or higher) in tau?  Differences of coordinates cancel linear terms (harmless); squares of absolute positions that only
    cancel against each other lose all accuracy far from the origin.  Returns the offending sub-expression or None."""
    tau = sp.Function("tau")
    memo = {}

    def deg(e):
        if e in memo:
            return memo[e]
        memo[e] = _deg(e)
        return memo[e]

    def _deg(e):
        if not any(e.has(fn) for fn in (A, B, C, D, Cm, Cp)):
            return 0
        num, den = sp.fraction(sp.together(shift_all(e, tau)))
        ee = sp.expand(num)
        taus = sorted(ee.atoms(sp.core.function.AppliedUndef) | den.atoms(sp.core.function.AppliedUndef), key=str)
        taus = [x for x in taus if x.func == tau]
        if not taus:
            return 0
        if any(den.has(x) for x in taus):
            return 99
        try:
            return sp.Poly(ee, *taus).total_degree()
        except sp.PolynomialError:
            # tau inside exp/sqrt/...: treat as unbounded degree
            return 99

    def walk(e):
        if not any(e.has(fn) for fn in (A, B, C, D, Cm, Cp)):
            return None
        if isinstance(e, sp.Add):
            ds = [deg(a) for a in e.args]
            if max(ds) >= 2 and deg(e) < max(ds):
                return e
        for a in e.args:
            r = walk(a)
            if r is not None:
                return r
        return None

    return walk(expr)


# ====================================================================================================== one-electron (V0, Vv, Vh)
def shell_syms(s):
    cen = {1: A, 2: B, 3: C, 4: D}[s]
    ex_ = {1: al, 2: be, 3: ga, 4: de}[s]
    return cen, ex_


def check_one_elec(ex, findings):
    """ex: extractor that ran `_compute_one_elec_integrals`.  Returns info (first-shell index X in {1, 2}, tables, ...)."""
    f = ex.func
    if len(ex.all_tables) != 2:
        raise AnalysisError("STENCIL", f"expected a vertical and a horizontal recursion table in {f.name}, found {len(ex.all_tables)}", f.where())
    vert, horiz = ex.all_tables
    p = al + be
    mu = al * be / p
    Pc = lambda k: (al * A(k) + be * B(k)) / p
    info = dict(vert=vert, horiz=horiz, stores=[], X=None)
    X = None
    nv = len(vert.labels)
    for s in compose_increments(ex, list(ex.stores)):
        try:
            terms, const, tsyms, subs = stencil_of(ex, s)
        except LabelMismatch as lm:
            findings.append(Finding("V-ALIGN", s, lm.msg))
            continue
        vals, lows, consts = tvalues(tsyms)
        if s.table is vert:
            if not terms:
                # V0 at a = (0,0,0) for every m
                RPC2 = sum((Pc(k) - Cp(k)) ** 2 for k in range(3))
                RAB2 = sum((A(k) - B(k)) ** 2 for k in range(3))
                want = (2 * sp.pi / p) * Boys(vals[0], p * RPC2) * sp.exp(-mu * RAB2)
                okc = all(consts[k] and vals[k] == 0 for k in (1, 2, 3)) and not consts[0]
                ok = okc and sp.simplify(const - want) == 0
                if not ok:
                    # distinguish Boys argument / order from the prefactor
                    findings.append(Finding("V0", s, "the start of the vertical recursion is not (2 pi/p) F_m(p |P-C|^2) exp(-mu |A-B|^2) for every order m "
                                                     "(F_m the Boys function, C the point charge)", expected=str(want), found=str(const)[:300]))
                info["stores"].append((s, "V0"))
                continue
            ks = [k for k in inc_axis(terms, nv) if k in (1, 2, 3)]
            if len(ks) != 1:
                raise AnalysisError("STENCIL", f"cannot tell which index `{s.text}` increments: not an Obara-Saika vertical step", f.where(s.node))
            r = ks[0]
            cc = r - 1
            lead = [t for t in terms if t["offset"][r] == -1 and t["offset"][0] == 0]
            if len(lead) != 1:
                raise AnalysisError("STENCIL", f"`{s.text}` has no single leading term", f.where(s.node))
            lc = lead[0]["coef"]
            cand = [k for k, cen in ((1, A), (2, B)) if sp.simplify(lc - (Pc(cc) - cen(cc))) == 0]
            if not cand:
                findings.append(Finding("Vv", s, f"the leading coefficient {lc} of the step along component {cc} is not (P - centre of the shell being built)_{cc}",
                                        expected=f"P({cc}) - A({cc})  or  P({cc}) - B({cc})", found=str(lc)))
                continue
            if X is not None and cand[0] != X:
                findings.append(Finding("Vv", s, f"this step builds up shell {cand[0]} while the other vertical steps build up shell {X}", found=str(lc)))
                continue
            X = cand[0]
            e_r = [0] * nv
            e_r[r] = -1
            e_rm = list(e_r)
            e_rm[0] = 1
            e_2 = [0] * nv
            e_2[r] = -2
            e_2m = list(e_2)
            e_2m[0] = 1
            cenX = A if X == 1 else B
            spec = [(tuple(e_r), Pc(cc) - cenX(cc)), (tuple(e_rm), -(Pc(cc) - Cp(cc))),
                    (tuple(e_2), (vals[r] - 1) / (2 * p)), (tuple(e_2m), -(vals[r] - 1) / (2 * p))]
            compare(ex, s, spec, findings, "Vv", f"vertical step along component {cc}")
            info["stores"].append((s, "Vv"))
        elif s.table is horiz:
            nh = len(horiz.labels)
            if not terms:
                info["init"] = s
                info["stores"].append((s, "Vc"))
                continue
            ks = [k for k in inc_axis(terms, nh) if k in (0, 1, 2)]
            if len(ks) != 1:
                raise AnalysisError("STENCIL", f"cannot tell which index `{s.text}` increments: not a horizontal transfer step", f.where(s.node))
            r = ks[0]
            up = [0] * nh
            up[r], up[r + 3] = -1, +1
            same = [0] * nh
            same[r] = -1
            if X is None:
                raise AnalysisError("STENCIL", "horizontal step before any vertical step", f.where(s.node))
            cenX, cenY = (A, B) if X == 1 else (B, A)
            compare(ex, s, [(tuple(up), sp.Integer(1)), (tuple(same), cenX(r) - cenY(r))], findings, "Vh", f"horizontal transfer along component {r}")
            info["stores"].append((s, "Vh"))
    info["X"] = X
    if X is None:
        return info
    # contraction between the two tables: T_h[0,0,0] = sum_K norm coef T_v[m=0]
    init = info.get("init")
    if init is None:
        findings.append(Finding("Vc", None, "the horizontal table is never initialised from the contracted vertical table", construct="horizontal table init"))
        return info
    Y = 2 if X == 1 else 1
    lX, lY = sp.Symbol(f"l{X}", integer=True, nonnegative=True), sp.Symbol(f"l{Y}", integer=True, nonnegative=True)
    eX, eY = shell_syms(X)[1], shell_syms(Y)[1]
    NX = (2 * eX / sp.pi) ** sp.Rational(3, 4) * (4 * eX) ** (lX / 2)
    NY = (2 * eY / sp.pi) ** sp.Rational(3, 4) * (4 * eY) ** (lY / 2)
    rhs = init.rhs.e
    layers = []
    cur = rhs
    from .stencil import Contract
    while isinstance(cur, Contract):
        inner, marker = cur.args
        args_ = list(sp.Mul.make_args(inner))
        subc = [a for a in args_ if isinstance(a, Contract)]
        rest = sp.Mul(*[a for a in args_ if not isinstance(a, Contract)])
        layers.append((str(marker), rest))
        cur = subc[0] if subc else None
        if cur is None:
            break
    ok = len(layers) == 2
    msg = ""
    if ok:
        (m_out, f_out), (m_in, f_in) = layers
        refs = list(f_in.atoms(TabRef))
        ok = len(refs) == 1
        if ok:
            ref = ex.refs[int(refs[0].args[0])]
            idx = ref["index"]
            okref = ref["table"] is vert and idx[0].kind == "const" and idx[0].value == 0 and all(i.kind == "full" for i in idx[1:])
            if not okref:
                ok = False
                msg = "the contracted quantity is not the whole vertical table at Boys order m = 0"
            fin = sp.simplify(f_in / refs[0])
            fout = f_out
            want_in = {f"over_dim_K_{X}": NX * sp.Symbol(f"coef{X}"), f"over_dim_K_{Y}": NY * sp.Symbol(f"coef{Y}")}
            for marker, fac in ((m_in, fin), (m_out, fout)):
                if marker not in want_in:
                    ok = False
                    msg = f"contraction over {marker}, expected the primitive axes of the two shells"
                elif sp.simplify(fac / want_in[marker] - 1) != 0:
                    ok = False
                    msg = (f"the factor contracted over {marker} is {fac}; expected that shell's coefficients times its exponent-dependent "
                           f"normalisation {want_in[marker]}")
            if m_in == m_out:
                ok = False
                msg = "the same primitive axis is contracted twice"
    if not ok:
        findings.append(Finding("Vc", init, "between the vertical and the horizontal recursion the primitives of each shell must be contracted once with that shell's "
                                            "coefficients and (2a/pi)^(3/4) (4a)^(l/2): " + msg, found=str(rhs)[:200]))
    return info
