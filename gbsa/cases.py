"""CASES: decide small scalar-handling code (setters, validators, negative-value checks) by a finite case analysis.

The fragment accepted here touches its scalar inputs only through type tests (`isinstance`, `is None`), truth tests, comparisons
with constants, `int()`/`float()`/`abs()`/negation and stores.  Its behaviour is then determined by which *class* a value falls
into (None / zero / positive / negative integer / non-integral number / string ...), so interpreting the fragment - with this
module's own evaluator, never by importing or running gbasis - on one representative per class decides it for all inputs.
Anything outside the fragment raises Unmodelled (the caller turns it into an ANALYSIS-ERROR)."""
import ast
import numbers


class Unmodelled(Exception):
    pass


class Raised(Exception):
    def __init__(self, exc_name, node):
        self.exc_name, self.node = exc_name, node


class _Return(Exception):
    def __init__(self, value):
        self.value = value


TYPES = {
    "int": int, "float": float, "str": str, "bool": bool, "list": list, "tuple": tuple, "Integral": numbers.Integral,
    "numbers.Integral": numbers.Integral, "Real": numbers.Real, "numbers.Real": numbers.Real, "Number": numbers.Number,
    "numbers.Number": numbers.Number, "np.integer": numbers.Integral, "np.floating": float, "type(None)": type(None),
}


class Fake:
    """An input described only by the attributes a validator looks at (kind 'ndarray' / 'other'; ndim, size, shape, dtype ...).
    Reading an attribute the object does not have raises AttributeError, like the real thing."""

    def __init__(self, kind, **attrs):
        self.kind = kind
        self.attrs = attrs

    def __repr__(self):
        return f"<{self.kind} {self.attrs}>"


class Obj:
    """`self`: attribute store"""

    def __init__(self):
        self.attrs = {}


def ev(e, env):
    if isinstance(e, ast.Constant):
        return e.value
    if isinstance(e, ast.Name):
        if e.id in env:
            return env[e.id]
        if e.id in ("None", "True", "False"):
            return {"None": None, "True": True, "False": False}[e.id]
        if e.id in ("int", "float", "complex", "bool", "str"):
            return "dtype:" + e.id  # dtypes compare by name with the stand-in arrays' dtype attribute
        raise Unmodelled(f"name {e.id}")
    if isinstance(e, ast.JoinedStr):
        return "<message>"
    if isinstance(e, ast.Attribute):
        base = ev(e.value, env)
        if isinstance(base, Fake):
            if e.attr in base.attrs:
                return base.attrs[e.attr]
            raise Raised("AttributeError", e)
        if isinstance(base, Obj):
            if e.attr in base.attrs:
                return base.attrs[e.attr]
            raise Unmodelled(f"attribute {e.attr} read before it is stored")
        raise Unmodelled(ast.unparse(e))
    if isinstance(e, ast.UnaryOp):
        v = ev(e.operand, env)
        if isinstance(e.op, ast.Not):
            return not _truth(v)
        if isinstance(e.op, ast.USub) and isinstance(v, (int, float)) and not isinstance(v, bool):
            return -v
        raise Unmodelled(ast.unparse(e))
    if isinstance(e, ast.BoolOp):
        if isinstance(e.op, ast.And):
            v = True
            for x in e.values:
                v = ev(x, env)
                if not _truth(v):
                    return v
            return v
        v = False
        for x in e.values:
            v = ev(x, env)
            if _truth(v):
                return v
        return v
    if isinstance(e, ast.IfExp):
        return ev(e.body, env) if _truth(ev(e.test, env)) else ev(e.orelse, env)
    if isinstance(e, ast.Compare):
        left = ev(e.left, env)
        for op, c in zip(e.ops, e.comparators):
            right = ev(c, env)
            if isinstance(op, ast.Is):
                r = left is right
            elif isinstance(op, ast.IsNot):
                r = left is not right
            elif isinstance(op, (ast.Eq, ast.NotEq)):
                r = (left == right) if isinstance(op, ast.Eq) else (left != right)
            elif isinstance(op, (ast.In, ast.NotIn)) and isinstance(right, (list, tuple, str, set)):
                r = (left in right) if isinstance(op, ast.In) else (left not in right)
            else:
                num = lambda z: isinstance(z, (int, float)) and not isinstance(z, bool)
                if not (num(left) and num(right)):
                    raise Raised("TypeError", e) if (left is None or right is None or isinstance(left, str) != isinstance(right, str)) else Unmodelled(ast.unparse(e))
                r = {ast.Lt: left < right, ast.LtE: left <= right, ast.Gt: left > right, ast.GtE: left >= right}[type(op)]
            if not r:
                return False
            left = right
        return True
    if isinstance(e, (ast.Tuple, ast.List)):
        return [ev(x, env) for x in e.elts] if isinstance(e, ast.List) else tuple(ev(x, env) for x in e.elts)
    if isinstance(e, ast.Subscript):
        base = ev(e.value, env)
        idx = ev(e.slice, env)
        if isinstance(base, (tuple, list)) and isinstance(idx, int):
            if not -len(base) <= idx < len(base):
                raise Raised("IndexError", e)
            return base[idx]
        raise Unmodelled(ast.unparse(e)[:60])
    if isinstance(e, ast.Call):
        d = ast.unparse(e.func)
        if d == "isinstance" and len(e.args) == 2:
            v = ev(e.args[0], env)
            t = e.args[1]
            names = [ast.unparse(x) for x in t.elts] if isinstance(t, ast.Tuple) else [ast.unparse(t)]
            res = False
            for n in names:
                if n in ("np.ndarray", "numpy.ndarray", "ndarray"):
                    res = res or (isinstance(v, Fake) and v.kind == "ndarray")
                    continue
                if isinstance(v, Fake):
                    continue  # a stand-in object is none of the python scalar types
                if n not in TYPES:
                    raise Unmodelled(f"isinstance against {n}")
                ty = TYPES[n]
                # python: bool is an int; numpy integers are Integral but not int - representatives are plain python values
                res = res or isinstance(v, ty)
            return res
        if d in ("int", "float") and len(e.args) == 1 and not e.keywords:
            v = ev(e.args[0], env)
            if v is None or isinstance(v, str):
                raise Raised("TypeError", e)
            return int(v) if d == "int" else float(v)
        if d in ("abs",) and len(e.args) == 1:
            v = ev(e.args[0], env)
            if isinstance(v, (int, float)):
                return abs(v)
        if d == "type" and len(e.args) == 1:
            return "<type>"
        if d in ("hasattr",) and len(e.args) == 2:
            o = ev(e.args[0], env)
            nm = ev(e.args[1], env)
            if not isinstance(nm, str):
                raise Raised("TypeError", e)  # hasattr(): attribute name must be string
            if isinstance(o, (Obj, Fake)):
                return nm in o.attrs
        if d in ("TypeError", "ValueError"):
            return d
        raise Unmodelled(ast.unparse(e)[:60])
    raise Unmodelled(ast.unparse(e)[:60])


def _truth(v):
    return bool(v)


def run(stmts, env):
    """Execute statements; returns normally, or raises Raised / _Return."""
    for st in stmts:
        if isinstance(st, ast.Expr):
            if isinstance(st.value, ast.Constant):
                continue
            ev(st.value, env)
        elif isinstance(st, ast.Assign):
            v = ev(st.value, env)
            for t in st.targets:
                if isinstance(t, ast.Name):
                    env[t.id] = v
                elif isinstance(t, ast.Attribute):
                    o = ev(t.value, env)
                    if not isinstance(o, Obj):
                        raise Unmodelled(ast.unparse(t))
                    o.attrs[t.attr] = v
                else:
                    raise Unmodelled(ast.unparse(t))
        elif isinstance(st, ast.If):
            run(st.body if _truth(ev(st.test, env)) else st.orelse, env)
        elif isinstance(st, ast.Raise):
            name = "Exception"
            if st.exc is not None:
                f = st.exc.func if isinstance(st.exc, ast.Call) else st.exc
                name = ast.unparse(f)
            raise Raised(name, st)
        elif isinstance(st, ast.Return):
            raise _Return(ev(st.value, env) if st.value is not None else None)
        elif isinstance(st, ast.Pass):
            continue
        else:
            raise Unmodelled(type(st).__name__)


def call_method(fn_node, self_obj, args):
    """Interpret a method body with `self` = self_obj and positional args.  -> ('ok', return value) | ('raise', exception name)"""
    params = [a.arg for a in fn_node.args.args]
    env = {params[0]: self_obj}
    for p, v in zip(params[1:], args):
        env[p] = v
    try:
        run(fn_node.body, env)
    except _Return as r:
        return "ok", r.value
    except Raised as r:
        return "raise", r.exc_name
    return "ok", None
