"""Abstract interpreter that runs gbasis functions on AXTYPE values (concrete python control flow,
abstract arrays).  Anything outside the modelled subset is an ANALYSIS-ERROR, never a violation."""
import ast
import itertools

from .astutil import dotted
from .axtype import (Arr, Grid, SubGrid, IdxList, Shell, Size, RestShape, RestOnes, AxTypeError, Raised, ONE, RESTONE, dim,
                     size_key, show_axes, show_axis, swapaxes, transpose, moveaxis, tensordot, concat_array, concat_list,
                     reshape, broadcast, explicit_axes)
from .model import Func, ClassInfo, Module
from .report import AnalysisError


class Obj:
    """Instance of a gbasis class: attribute dict + class (for properties/methods)."""

    def __init__(self, cls, attrs=None):
        self.cls = cls
        self.attrs = attrs or {}

    def __repr__(self):
        return f"<{self.cls.name} object>"


class BoundMethod:
    def __init__(self, func, self_obj):
        self.func = func
        self.self_obj = self_obj


class ClassRef:
    def __init__(self, cls):
        self.cls = cls


class ModRef:
    def __init__(self, name):
        self.name = name


class Opaque:
    def __init__(self, what):
        self.what = what

    def __repr__(self):
        return f"<{self.what}>"


class ReturnSignal(Exception):
    def __init__(self, value):
        self.value = value


class OpenNdim:
    """x.ndim of an array whose trailing axes are opaque: `explicit` axes are known, more follow"""

    def __init__(self, explicit):
        self.explicit = explicit


class LocalFunc:
    """a function defined inside the function being interpreted"""

    def __init__(self, node, env):
        self.node, self.env = node, env


class OpenRange:
    """range(x.ndim) for an array with opaque trailing axes: 0 .. explicit-1, then one item standing for every trailing axis number"""

    def __init__(self, explicit):
        self.explicit = explicit


class RestIndex:
    """an axis number beyond all explicit axes (compares unequal to / greater than every concrete axis number)"""


class RestAxes:
    """axis numbers `head` followed by every opaque trailing axis, in place (tuple(range(k, x.ndim)))"""

    def __init__(self, head):
        self.head = tuple(head)

    def __radd__(self, other):
        if isinstance(other, (tuple, list)):
            return RestAxes(tuple(other) + self.head)
        return NotImplemented


class Interp:
    def __init__(self, repo, hooks=None, rule="AXTYPE"):
        self.repo = repo
        self.hooks = hooks or {}
        self.rule = rule
        self.stack = []
        self.rest_counter = 0
        self.events = []  # notable facts recorded by hooks (call sites, factors)
        self.depth = 0

    # ------------------------------------------------------------------ errors
    def where(self, node):
        f = self.stack[-1] if self.stack else None
        return f.where(node) if f is not None else None

    def unknown(self, what, node):
        raise AnalysisError(self.rule, f"construct not modelled: {what}", self.where(node))

    # ------------------------------------------------------------------ calling
    def call_function(self, func, args, kwargs, node=None):
        """Interpret gbasis function `func` (a model.Func) on abstract arguments."""
        hook = self.hooks.get(("func", func.qualname))
        if hook is not None:
            return hook(self, func, args, kwargs, node)
        if func.abstract and ("abstract", func.name) in self.hooks:
            return self.hooks[("abstract", func.name)](self, func, args, kwargs, node)
        self.depth += 1
        if self.depth > 40:
            raise AnalysisError(self.rule, "call depth exceeded")
        env = {}
        a = func.node.args
        names = [x.arg for x in a.posonlyargs + a.args]
        pos_defaults = dict(zip(names[len(names) - len(a.defaults):], a.defaults))
        args = list(args)
        for nm in names:
            if args:
                env[nm] = args.pop(0)
            elif nm in kwargs:
                env[nm] = kwargs.pop(nm)
            elif nm in pos_defaults:
                env[nm] = self.const_default(pos_defaults[nm])
            else:
                raise AxTypeError(f"call of {func.qualname} misses argument `{nm}`", node)
        if a.vararg:
            env[a.vararg.arg] = tuple(args)
        elif args:
            raise AxTypeError(f"too many positional arguments in call of {func.qualname}", node)
        for k, d in zip(a.kwonlyargs, a.kw_defaults):
            if k.arg in kwargs:
                env[k.arg] = kwargs.pop(k.arg)
            elif d is not None:
                env[k.arg] = self.const_default(d)
            else:
                raise AxTypeError(f"call of {func.qualname} misses keyword `{k.arg}`", node)
        if a.kwarg:
            env[a.kwarg.arg] = dict(kwargs)
        elif kwargs:
            raise AxTypeError(f"unexpected keyword argument(s) {sorted(kwargs)} in call of {func.qualname}", node,
                              expected=names, found=sorted(kwargs))
        self.stack.append(func)
        try:
            self.exec_block(func.node.body, env)
            result = None
        except ReturnSignal as r:
            result = r.value
        except AxTypeError as e:
            if getattr(e, "where", None) is None and e.node is not None and hasattr(e.node, "lineno"):
                e.where = func.where(e.node)
            raise
        finally:
            self.stack.pop()
            self.depth -= 1
        post = self.hooks.get(("post", func.qualname))
        if post is not None:
            result = post(result)
        return result

    def const_default(self, node):
        if isinstance(node, ast.Constant):
            return node.value
        return self.eval(node, {})

    # ------------------------------------------------------------------ statements
    def exec_block(self, stmts, env):
        for st in stmts:
            self.exec_stmt(st, env)

    def exec_stmt(self, st, env):
        if isinstance(st, ast.Expr):
            if isinstance(st.value, ast.Constant):
                return
            self.eval(st.value, env)
            return
        if isinstance(st, ast.Assign):
            v = self.eval(st.value, env)
            for t in st.targets:
                self.assign(t, v, env, st)
            return
        if isinstance(st, ast.AugAssign):
            cur = self.eval(st.target, env)
            v = self.eval(st.value, env)
            self.assign(st.target, self.binop(st.op, cur, v, st, inplace=True), env, st)
            return
        if isinstance(st, ast.Return):
            raise ReturnSignal(self.eval(st.value, env) if st.value is not None else None)
        if isinstance(st, ast.If):
            t = self.truth(self.eval(st.test, env), st.test)
            self.exec_block(st.body if t else st.orelse, env)
            return
        if isinstance(st, ast.For):
            it = self.iterate(self.eval(st.iter, env), st.iter)
            for item in it:
                self.assign(st.target, item, env, st)
                self.exec_block(st.body, env)
            self.exec_block(st.orelse, env)
            return
        if isinstance(st, ast.Raise):
            raise Raised(st)
        if isinstance(st, ast.Pass):
            return
        if isinstance(st, (ast.Import, ast.ImportFrom)):
            return
        if isinstance(st, ast.With):
            self.exec_block(st.body, env)
            return
        if isinstance(st, ast.FunctionDef) and not st.decorator_list:
            env[st.name] = LocalFunc(st, env)  # a local helper: interpreted in place, reading the enclosing locals
            return
        self.unknown(f"statement {type(st).__name__}", st)

    def assign(self, t, v, env, st):
        if isinstance(t, ast.Name):
            env[t.id] = v
            return
        if isinstance(t, (ast.Tuple, ast.List)):
            vals = self.iterate(v, t)
            if any(isinstance(e, ast.Starred) for e in t.elts):
                self.unknown("starred assignment target", st)
            if len(vals) != len(t.elts):
                raise AxTypeError(f"cannot unpack {len(vals)} values into {len(t.elts)} targets", st)
            for tt, vv in zip(t.elts, vals):
                self.assign(tt, vv, env, st)
            return
        if isinstance(t, ast.Subscript):
            base = self.eval(t.value, env)
            idx = self.eval_index(t.slice, env)
            self.setitem(base, idx, v, st)
            return
        if isinstance(t, ast.Attribute):
            base = self.eval(t.value, env)
            if isinstance(base, Obj):
                base.attrs[t.attr] = v
                return
        self.unknown("assignment target", st)

    def setitem(self, base, idx, v, st):
        if isinstance(base, Grid):
            if isinstance(idx, IdxList):
                vals = self.iterate(v, st)
                if len(vals) != len(idx.idx):
                    raise AxTypeError(f"{len(vals)} blocks assigned to {len(idx.idx)} grid positions", st)
                for ij, b in zip(idx.idx, vals):
                    base.set(ij, b)
                return
            if isinstance(idx, tuple) and all(isinstance(i, int) for i in idx) and len(idx) == len(base.shape):
                base.set(idx, v)
                return
            self.unknown(f"grid store with index {idx!r}", st)
        if isinstance(base, list) and isinstance(idx, int):
            base[idx] = v
            return
        if isinstance(base, dict):
            base[idx] = v
            return
        hook = self.hooks.get("setitem")
        if hook is not None:
            return hook(self, base, idx, v, st)
        self.unknown(f"item store into {type(base).__name__}", st)

    # ------------------------------------------------------------------ helpers
    def truth(self, v, node):
        if isinstance(v, (bool, int, str, list, tuple, dict)) or v is None:
            return bool(v)
        self.unknown(f"truth value of {v!r}", node)

    def iterate(self, v, node):
        if isinstance(v, (list, tuple)):
            return list(v)
        if isinstance(v, (range, zip, enumerate, map, itertools.combinations_with_replacement, itertools.product)):
            return list(v)
        if isinstance(v, OpenRange):
            return list(range(v.explicit)) + [RestIndex()]
        if isinstance(v, dict):
            return list(v)
        if isinstance(v, str):
            return list(v)
        if isinstance(v, (Grid, SubGrid)):
            return v.rows()
        if isinstance(v, IdxList):
            # tuple of index arrays: (rows, cols)
            return [tuple(x) for x in zip(*v.idx)] if v.idx else []
        hook = self.hooks.get("iterate")
        if hook is not None:
            r = hook(self, v, node)
            if r is not None:
                return r
        self.unknown(f"iteration over {v!r}", node)

    def eval_index(self, sl, env):
        if isinstance(sl, ast.Slice):
            return slice(*(self.eval(x, env) if x is not None else None for x in (sl.lower, sl.upper, sl.step)))
        if isinstance(sl, ast.Tuple):
            return tuple(self.eval_index(x, env) for x in sl.elts)
        return self.eval(sl, env)

    # ------------------------------------------------------------------ expressions
    def eval(self, e, env):
        m = getattr(self, "eval_" + type(e).__name__, None)
        if m is None:
            self.unknown(f"expression {type(e).__name__}", e)
        return m(e, env)

    def eval_Constant(self, e, env):
        return e.value

    def eval_Name(self, e, env):
        if e.id in env:
            return env[e.id]
        f = self.stack[-1] if self.stack else None
        if f is not None:
            r = self.repo.resolve_name(f.module, e.id, f)
            if isinstance(r, Func):
                return r
            if isinstance(r, ClassInfo):
                return ClassRef(r)
            if isinstance(r, Module):
                return ModRef(r.name)
            if isinstance(r, tuple) and r[0] == "external":
                return ModRef(r[1])
            if isinstance(r, tuple) and r[0] == "global":
                return self.eval(r[1].globals[r[2]], {})
            if f.module.globals.get(e.id) is not None:
                return self.eval(f.module.globals[e.id], {})
        builtins = {"len": len, "range": range, "enumerate": enumerate, "zip": zip, "list": list, "tuple": tuple,
                    "all": all, "any": any, "sum": sum, "min": min, "max": max, "abs": abs, "int": int, "float": float,
                    "str": str, "bool": bool, "sorted": sorted, "reversed": reversed, "set": set, "dict": dict,
                    "isinstance": "isinstance", "super": "super", "print": lambda *a, **k: None,
                    "True": True, "False": False, "None": None, "object": Opaque("object")}
        if e.id in builtins:
            return builtins[e.id]
        if e.id in ("TypeError", "ValueError", "AssertionError", "NotImplementedError"):
            return Opaque(e.id)
        if f is not None and any(isinstance(n, ast.Name) and n.id == e.id and isinstance(n.ctx, ast.Store)
                                 for n in ast.walk(f.node)):
            raise AxTypeError(f"local variable `{e.id}` is used before it is assigned on this path (UnboundLocalError for a valid input)", e)
        self.unknown(f"name `{e.id}`", e)

    def eval_Tuple(self, e, env):
        out = []
        for x in e.elts:
            if isinstance(x, ast.Starred):
                out.extend(self.iterate(self.eval(x.value, env), x))
            else:
                out.append(self.eval(x, env))
        return tuple(out)

    def eval_List(self, e, env):
        return list(self.eval_Tuple(e, env))

    def eval_Set(self, e, env):
        try:
            return set(self.eval_Tuple(e, env))
        except TypeError:
            self.unknown("set display of values that are not hashable here", e)

    def eval_Dict(self, e, env):
        out = {}
        for k, v in zip(e.keys, e.values):
            if k is None:
                out.update(self.eval(v, env))
            else:
                out[self.eval(k, env)] = self.eval(v, env)
        return out

    def eval_JoinedStr(self, e, env):
        return "<f-string>"

    def eval_IfExp(self, e, env):
        return self.eval(e.body, env) if self.truth(self.eval(e.test, env), e.test) else self.eval(e.orelse, env)

    def eval_BoolOp(self, e, env):
        if isinstance(e.op, ast.And):
            v = True
            for x in e.values:
                v = self.eval(x, env)
                if not self.truth(v, x):
                    return v
            return v
        v = False
        for x in e.values:
            v = self.eval(x, env)
            if self.truth(v, x):
                return v
        return v

    def eval_UnaryOp(self, e, env):
        v = self.eval(e.operand, env)
        if isinstance(e.op, ast.Not):
            return not self.truth(v, e)
        if isinstance(e.op, ast.USub):
            if isinstance(v, (int, float, complex)):
                return -v
            if isinstance(v, Arr):
                return v.with_(history=v.history + (("neg",),))
        if isinstance(e.op, ast.UAdd):
            return v
        hook = self.hooks.get("unaryop")
        if hook is not None:
            return hook(self, e, v)
        self.unknown("unary operator", e)

    def eval_Compare(self, e, env):
        left = self.eval(e.left, env)
        result = True
        for op, c in zip(e.ops, e.comparators):
            right = self.eval(c, env)
            r = self.compare(op, left, right, e)
            if not r:
                return False
            left = right
        return result

    def compare(self, op, l, r, node):
        conc = (int, float, str, bool, tuple, list, type(None), set, frozenset)
        if isinstance(op, (ast.Is, ast.IsNot)):
            same = (l is r) or (l is None and r is None)
            if (l is None) != (r is None):
                same = False
            return same if isinstance(op, ast.Is) else not same
        if isinstance(op, (ast.In, ast.NotIn)):
            if isinstance(r, (list, tuple, dict, str, set)) and isinstance(l, conc):
                res = l in r
                return res if isinstance(op, ast.In) else not res
            self.unknown("membership test on abstract values", node)
        if (isinstance(l, RestIndex) and isinstance(r, int)) or (isinstance(r, RestIndex) and isinstance(l, int)):
            big_left = isinstance(l, RestIndex)
            res = {ast.Eq: False, ast.NotEq: True, ast.Gt: big_left, ast.GtE: big_left, ast.Lt: not big_left, ast.LtE: not big_left}.get(type(op))
            if res is not None:
                return res
        if isinstance(l, conc) and isinstance(r, conc):
            table = {ast.Eq: lambda a, b: a == b, ast.NotEq: lambda a, b: a != b, ast.Lt: lambda a, b: a < b,
                     ast.LtE: lambda a, b: a <= b, ast.Gt: lambda a, b: a > b, ast.GtE: lambda a, b: a >= b}
            for k, fn in table.items():
                if isinstance(op, k):
                    return fn(l, r)
        hook = self.hooks.get("compare")
        if hook is not None:
            res = hook(self, op, l, r, node)
            if res is not NotImplemented:
                return res
        self.unknown(f"comparison of {l!r} and {r!r}", node)

    def eval_BinOp(self, e, env):
        return self.binop(e.op, self.eval(e.left, env), self.eval(e.right, env), e)

    def binop(self, op, l, r, node, inplace=False):
        num = (int, float, complex)
        if isinstance(l, num) and isinstance(r, num) and not isinstance(l, bool):
            fn = {ast.Add: lambda a, b: a + b, ast.Sub: lambda a, b: a - b, ast.Mult: lambda a, b: a * b,
                  ast.Div: lambda a, b: a / b, ast.FloorDiv: lambda a, b: a // b, ast.Mod: lambda a, b: a % b,
                  ast.Pow: lambda a, b: a ** b}.get(type(op))
            if fn:
                return fn(l, r)
        if isinstance(op, ast.Mult) and isinstance(l, (tuple, list)) and isinstance(r, int):
            return l * r
        if isinstance(op, ast.Mult) and isinstance(r, (tuple, list)) and isinstance(l, int):
            return r * l
        if isinstance(op, ast.Add) and isinstance(l, (tuple, list)) and type(l) is type(r):
            return l + r
        if isinstance(op, ast.Add) and isinstance(l, (tuple, list)) and isinstance(r, RestAxes):
            return RestAxes(tuple(l) + r.head)
        if isinstance(op, ast.Mult) and (isinstance(l, Size) or isinstance(r, Size)):
            if isinstance(l, Size) and isinstance(r, Size):
                return l * r
        if isinstance(l, Arr) or isinstance(r, Arr):
            return self.elementwise(op, l, r, node, inplace)
        hook = self.hooks.get("binop")
        if hook is not None:
            return hook(self, op, l, r, node)
        self.unknown(f"operator {type(op).__name__} on {l!r}, {r!r}", node)

    def elementwise(self, op, l, r, node, inplace=False):
        opn = type(op).__name__
        if not isinstance(r, Arr):
            if isinstance(r, (int, float, complex)):
                dt = "complex" if isinstance(r, complex) else l.dtype
                return l.with_(history=l.history + (("scalar", opn, r),), dtype=dt)
            self.unknown(f"array {opn} {r!r}", node)
        if not isinstance(l, Arr):
            if isinstance(l, (int, float, complex)):
                dt = "complex" if isinstance(l, complex) else r.dtype
                return r.with_(history=r.history + (("rscalar", opn, l),), dtype=dt)
            self.unknown(f"{l!r} {opn} array", node)
        axes = broadcast(l, r, node, what=f"`{ast.unparse(node)[:70]}`")
        if inplace and [size_key(x) for x in axes] != [size_key(x) for x in l.axes]:
            raise AxTypeError(f"in-place `{ast.unparse(node)[:60]}` would change the shape of its target", node)
        main, other = (l, r)
        if l.content is None or (l.content[0] in ("attr", "ext", "transform") and r.content is not None and r.content[0] == "kernel"):
            main, other = r, l
        hist = list(main.history)
        if other.content is not None and other.content[0] == "attr":
            # which slot of the main array did the factor land on?
            slot = None
            oa, ma = list(other.axes), list(main.axes)
            if oa and oa[-1][0] in ("rest", "restone"):
                oa.pop()
            if ma and ma[-1][0] in ("rest", "restone"):
                ma.pop()
            n = max(len(oa), len(ma))
            oa = [ONE] * (n - len(oa)) + oa
            ma = [ONE] * (n - len(ma)) + ma
            for x, y in zip(oa, ma):
                if x != ONE and y[0] == "dim" and len(y[1]) == 3:
                    slot = y[1][2]
                    break
                if x != ONE and y[0] == "flat" and y[1] and y[1][0][0] == "dim" and len(y[1][0][1]) == 3:
                    slot = y[1][0][1][2]
                    break
            hist.append(("mul" if opn == "Mult" else opn, other.content[2], other.content[1], slot) + tuple(other.history))
        elif other.content is not None:
            hist.append((opn, other.content))
        dt = "complex" if "complex" in (l.dtype, r.dtype) else main.dtype
        return Arr(axes, main.content, hist, dt, main.conj)

    def eval_Attribute(self, e, env):
        base = self.eval(e.value, env)
        return self.getattr(base, e.attr, e)

    def getattr(self, base, attr, node):
        if isinstance(base, Obj):
            if attr in base.attrs:
                return base.attrs[attr]
            r = base.cls.lookup(attr)
            if isinstance(r, ast.AST):
                r = self.repo.resolve_alias(base.cls.module, r)
            if isinstance(r, Func):
                if r.kind == "property":
                    return self.call_function(r, [base], {}, node)
                if r.kind == "staticmethod":
                    return r
                if r.kind == "classmethod":
                    return BoundMethod(r, ClassRef(base.cls))
                return BoundMethod(r, base)
            self.unknown(f"attribute {attr} of {base!r}", node)
        if isinstance(base, ClassRef):
            r = base.cls.lookup(attr)
            if isinstance(r, ast.AST):
                r = self.repo.resolve_alias(base.cls.module, r)
            if isinstance(r, Func):
                if r.kind == "classmethod":
                    return BoundMethod(r, base)
                return r
            self.unknown(f"class attribute {attr}", node)
        if isinstance(base, Shell):
            hook = self.hooks.get("shell_attr")
            if hook is None:
                self.unknown("shell attribute access without a shell model", node)
            return hook(self, base, attr, node)
        if isinstance(base, Arr):
            if attr == "shape":
                out = []
                for ax in base.axes:
                    if ax[0] == "rest":
                        out.append(RestShape(ax[1]))
                    elif ax[0] == "restone":
                        out.append(RestOnes())
                    else:
                        out.append(Size([ax]))
                return tuple(out)
            if attr == "T":
                return transpose(base, None, node)
            if attr == "size":
                return Size([a for a in base.axes])
            if attr == "ndim":
                if base.ndim_known:
                    return len(base.axes)
                return OpenNdim(explicit_axes(base))  # explicit axes + the opaque trailing ones
            if attr == "dtype":
                return Opaque("dtype:" + base.dtype)
            return ("arr-method", base, attr)
        if isinstance(base, Grid):
            if attr == "T":
                return base.T
            if attr == "shape":
                return base.shape
        if isinstance(base, ModRef):
            return ModRef(base.name + "." + attr)
        if isinstance(base, (list, dict, str, tuple, set, frozenset)):
            return ("py-method", base, attr)
        hook = self.hooks.get("getattr")
        if hook is not None:
            return hook(self, base, attr, node)
        self.unknown(f"attribute .{attr} of {base!r}", node)

    def eval_Subscript(self, e, env):
        base = self.eval(e.value, env)
        idx = self.eval_index(e.slice, env)
        if isinstance(base, (tuple, list, str)):
            if isinstance(idx, (int, slice)):
                try:
                    return base[idx]
                except IndexError:
                    raise AxTypeError(f"index {idx} out of range in `{ast.unparse(e)}`", e)
            self.unknown(f"index {idx!r} on a python sequence", e)
        if isinstance(base, dict):
            return base[idx]
        if isinstance(base, Grid):
            if isinstance(idx, IdxList):
                return [base.get(ij) for ij in idx.idx]
            if isinstance(idx, tuple) and all(isinstance(i, int) for i in idx) and len(idx) == len(base.shape):
                return base.get(idx)
            if isinstance(idx, int):
                return base.rows()[idx]
            self.unknown(f"grid index {idx!r}", e)
        if isinstance(base, SubGrid) and isinstance(idx, int):
            return base.rows()[idx]
        hook = self.hooks.get("getitem")
        if hook is not None:
            return hook(self, base, idx, e)
        self.unknown(f"subscript of {base!r}", e)

    def eval_ListComp(self, e, env):
        return self.comprehension(e, env)

    def eval_GeneratorExp(self, e, env):
        return self.comprehension(e, env)

    def comprehension(self, e, env):
        out = []

        def rec(gens, env2):
            if not gens:
                out.append(self.eval(e.elt, env2))
                return
            g = gens[0]
            items = self.iterate(self.eval(g.iter, env2), g.iter)
            for item in items:
                e3 = dict(env2)
                self.assign(g.target, item, e3, e)
                if all(self.truth(self.eval(c, e3), c) for c in g.ifs):
                    n0 = len(out)
                    rec(gens[1:], e3)
                    # `[1 for _ in shape[k:]]` over the opaque trailing shape: ones against the trailing axes
                    if isinstance(item, RestShape) and len(gens) == 1 and len(out) == n0 + 1 and out[-1] == 1 \
                            and isinstance(out[-1], int):
                        out[-1] = RestOnes()
                    if isinstance(item, RestIndex) and len(gens) == 1 and len(out) == n0 + 1:
                        # `[f(i) for i in range(x.ndim)]`: the entry for every trailing axis must be the broadcasting 1
                        if isinstance(out[-1], int) and out[-1] == 1:
                            out[-1] = RestOnes()
                        else:
                            self.unknown("a per-axis list over range(x.ndim) whose entry for the trailing axes is not 1", e)

        rec(e.generators, dict(env))
        return out

    def eval_Starred(self, e, env):
        self.unknown("starred expression outside a call/display", e)

    def eval_Lambda(self, e, env):
        return Opaque("lambda")

    # ------------------------------------------------------------------ calls
    def eval_Call(self, e, env):
        fn = self.eval(e.func, env)
        args = []
        for a in e.args:
            if isinstance(a, ast.Starred):
                args.extend(self.iterate(self.eval(a.value, env), a))
            else:
                args.append(self.eval(a, env))
        kwargs = {}
        for k in e.keywords:
            if k.arg is None:
                v = self.eval(k.value, env)
                if not isinstance(v, dict):
                    self.unknown("** of a non-dict", e)
                kwargs.update(v)
            else:
                kwargs[k.arg] = self.eval(k.value, env)
        return self.call_value(fn, args, kwargs, e, env)

    def call_value(self, fn, args, kwargs, e, env):
        if isinstance(fn, Func):
            return self.call_function(fn, args, kwargs, e)
        if isinstance(fn, BoundMethod):
            return self.call_function(fn.func, [fn.self_obj] + args, kwargs, e)
        if isinstance(fn, ClassRef):
            hook = self.hooks.get(("class", fn.cls.name))
            if hook is not None:
                return hook(self, fn.cls, args, kwargs, e)
            obj = Obj(fn.cls)
            init = fn.cls.lookup("__init__")
            if isinstance(init, Func):
                self.call_function(init, [obj] + args, kwargs, e)
            return obj
        if fn == "isinstance":
            return self.isinstance(args[0], e.args[1], e)
        if fn == "super":
            f = self.stack[-1]
            return ("super", f.cls, env.get("self"))
        if isinstance(fn, tuple) and fn and fn[0] == "super":
            self.unknown("call of super object", e)
        if isinstance(fn, ModRef):
            return self.call_external(fn.name, args, kwargs, e)
        if isinstance(fn, tuple) and fn and fn[0] == "arr-method":
            return self.arr_method(fn[1], fn[2], args, kwargs, e)
        if isinstance(fn, tuple) and fn and fn[0] == "py-method":
            return self.py_method(fn[1], fn[2], args, kwargs, e)
        if isinstance(fn, LocalFunc):
            a = fn.node.args
            if a.vararg or a.kwarg or a.kwonlyargs or a.posonlyargs:
                self.unknown("local helper with */** parameters", e)
            names = [x.arg for x in a.args]
            defaults = dict(zip(names[len(names) - len(a.defaults):], a.defaults))
            env2 = dict(fn.env)  # closure over the enclosing locals (read-only here)
            rest = list(args)
            for nm in names:
                if rest:
                    env2[nm] = rest.pop(0)
                elif nm in kwargs:
                    env2[nm] = kwargs.pop(nm)
                elif nm in defaults:
                    env2[nm] = self.const_default(defaults[nm])
                else:
                    raise AxTypeError(f"call of local helper {fn.node.name} misses argument `{nm}`", e)
            if rest or kwargs:
                raise AxTypeError(f"unexpected arguments in call of local helper {fn.node.name}", e)
            try:
                self.exec_block(fn.node.body, env2)
            except ReturnSignal as r:
                return r.value
            return None
        if callable(fn):
            if fn in (all, any):
                return fn(self.truth(x, e) for x in self.iterate(args[0], e))
            if fn is len:
                x = args[0]
                if isinstance(x, (list, tuple, dict, str)):
                    return len(x)
                if isinstance(x, Arr):
                    return Size([x.axes[0]])
                if isinstance(x, Grid):
                    return x.shape[0]
                self.unknown(f"len({x!r})", e)
            if fn in (list, tuple) and args and isinstance(args[0], RestAxes):
                return args[0]
            if fn in (list, tuple):
                return fn(self.iterate(args[0], e)) if args else fn()
            if fn in (enumerate, zip, reversed, sorted):
                seqs = [self.iterate(a, e) for a in args]
                return list(fn(*seqs, **kwargs))
            if fn is range:
                if all(isinstance(a, int) for a in args):
                    return range(*args)
                if len(args) == 1 and isinstance(args[0], OpenNdim):
                    return OpenRange(args[0].explicit)
                if len(args) == 2 and isinstance(args[0], int) and isinstance(args[1], OpenNdim) and 0 <= args[0] <= args[1].explicit:
                    # range(k, x.ndim) for an array with opaque trailing axes: the explicit axes k.. and then all trailing ones
                    return RestAxes(tuple(range(args[0], args[1].explicit)))
                hook = self.hooks.get("symbolic_range")
                if hook is not None:
                    return hook(self, args, e)
                self.unknown("range over a symbolic bound", e)
            if fn is sum:
                seq = self.iterate(args[0], e)
                hook = self.hooks.get("sum")
                if hook is not None:
                    return hook(self, seq, e)
                return sum(seq)
            if fn in (int, float, str, bool, abs, min, max, set, dict):
                try:
                    return fn(*args, **kwargs)
                except TypeError:
                    self.unknown(f"{fn.__name__} on abstract values", e)
            return fn(*args, **kwargs)
        self.unknown(f"call of {fn!r}", e)

    def isinstance(self, v, tnode, node):
        names = [ast.unparse(x) for x in (tnode.elts if isinstance(tnode, ast.Tuple) else [tnode])]
        for n in names:
            n = n.split(".")[-1]
            if n in ("list",) and isinstance(v, list):
                return True
            if n == "tuple" and isinstance(v, tuple):
                return True
            if n == "str" and isinstance(v, str):
                return True
            if n == "bool" and isinstance(v, bool):
                return True
            if n == "int" and isinstance(v, int) and not isinstance(v, bool):
                return True
            if n == "float" and isinstance(v, float):
                return True
            if n == "ndarray" and isinstance(v, Arr):
                return True
            if n == "GeneralizedContractionShell" and isinstance(v, Shell):
                return True
        known = {"list", "tuple", "str", "bool", "int", "float", "ndarray", "GeneralizedContractionShell", "Integral"}
        if not all(n.split(".")[-1] in known for n in names):
            self.unknown(f"isinstance against {names}", node)
        return False

    def py_method(self, base, attr, args, kwargs, e):
        if isinstance(base, list) and attr == "append":
            base.append(args[0])
            return None
        if isinstance(base, list) and attr == "extend":
            base.extend(self.iterate(args[0], e))
            return None
        if isinstance(base, dict) and attr in ("get", "items", "keys", "values", "setdefault"):
            r = getattr(base, attr)(*args)
            return list(r) if attr in ("items", "keys", "values") else r
        if isinstance(base, (list, tuple)) and attr in ("index", "count"):
            return getattr(base, attr)(*args)
        if isinstance(base, str) and attr in ("format", "lower", "upper", "replace", "count", "split", "startswith"):
            try:
                return getattr(base, attr)(*args, **kwargs)
            except Exception:
                return "<str>"
        if isinstance(base, (set, frozenset)) and attr in ("union", "intersection", "difference", "issubset", "issuperset", "isdisjoint") and not kwargs:
            try:
                return getattr(base, attr)(*[set(self.iterate(a, e)) if not isinstance(a, (set, frozenset)) else a for a in args])
            except TypeError:
                self.unknown(f"set method .{attr}() on values that are not hashable here", e)
        self.unknown(f"method .{attr}() of {type(base).__name__}", e)

    # ------------------------------------------------------------------ numpy
    def call_external(self, name, args, kwargs, e):
        if name.startswith("np."):
            name = "numpy." + name[3:]
        hook = self.hooks.get(("ext", name))
        if hook is not None:
            return hook(self, args, kwargs, e)
        short = name.split(".")[-1]
        if name.startswith("numpy."):
            return self.numpy_call(short, name, args, kwargs, e)
        if name in ("itertools.combinations_with_replacement", "it.combinations_with_replacement"):
            return list(itertools.combinations_with_replacement(self.iterate(args[0], e), args[1]))
        if name in ("itertools.product",):
            return list(itertools.product(*[self.iterate(a, e) for a in args], **kwargs))
        hook = self.hooks.get("external")
        if hook is not None:
            return hook(self, name, args, kwargs, e)
        self.unknown(f"external call {name}", e)

    def numpy_call(self, short, name, args, kwargs, e):
        a0 = args[0] if args else None
        if short in ("asarray", "ascontiguousarray", "asanyarray", "array", "copy", "require", "asfortranarray") and isinstance(a0, Arr):
            # value-preserving adapters (a dtype argument is the PITFALL rule's business, not a change of axes)
            return a0
        if short == "swapaxes":
            return swapaxes(self.need_arr(a0, e), args[1], args[2], e)
        if short == "transpose":
            perm = args[1] if len(args) > 1 else kwargs.get("axes")
            if isinstance(perm, RestAxes):
                arr_ = self.need_arr(a0, e)
                if arr_.ndim_known or sorted(perm.head) != list(range(explicit_axes(arr_))):
                    raise AxTypeError(f"transpose permutation {perm.head} + trailing axes does not cover the {explicit_axes(arr_)} leading axes of "
                                      f"{show_axes(arr_.axes)}", e)
                perm = perm.head
            return transpose(self.need_arr(a0, e), perm, e)
        if short == "moveaxis":
            return moveaxis(self.need_arr(a0, e), args[1], args[2], e)
        if short == "tensordot":
            axes = args[2] if len(args) > 2 else kwargs.get("axes")
            return tensordot(self.need_arr(a0, e), self.need_arr(args[1], e), axes, e)
        if short == "einsum" and len(args) == 3 and isinstance(a0, str) and "->" in a0 and isinstance(args[1], Arr) and isinstance(args[2], Arr) \
                and not [k for k in kwargs if k != "optimize"]:
            # two operands, one contracted letter: tensordot followed by a transpose into the output order
            spec = a0.replace(" ", "")
            ins, out_ = spec.split("->")
            sa, sb = ins.split(",")
            A, B = args[1], args[2]

            def letters(sub, arr):
                """subscript string -> list of per-axis tags ('a', ..., or ('...', k) for the axes under the ellipsis)"""
                n = explicit_axes(arr)
                if "..." in sub:
                    head, tail = sub.split("...")
                    nell = n - len(head) - len(tail)
                    if nell < 0:
                        raise AxTypeError(f"einsum subscripts `{sub}` for an array with axes {show_axes(arr.axes)}", e)
                    if not arr.ndim_known and tail:
                        self.unknown("einsum with letters after an ellipsis over opaque trailing axes", e)
                    return list(head) + [("...", k) for k in range(nell)] + list(tail)
                if len(sub) != n or not arr.ndim_known:
                    raise AxTypeError(f"einsum subscripts `{sub}` for an array with axes {show_axes(arr.axes)}", e)
                return list(sub)
            la, lb = letters(sa, A), letters(sb, B)
            summed = [x for x in la if isinstance(x, str) and x in lb and x not in out_]
            shared_kept = [x for x in la if isinstance(x, str) and x in lb and x in out_]
            if len(summed) != 1 or shared_kept or len(set(x for x in la if isinstance(x, str))) != len([x for x in la if isinstance(x, str)]):
                self.unknown(f"einsum '{spec}' is not a single-axis contraction of two operands", e)
            res = tensordot(A, B, (la.index(summed[0]), lb.index(summed[0])), e)
            tags = [x for x in la if x != summed[0]] + [x for x in lb if x != summed[0]]
            # output order
            want = []
            if "..." in out_:
                head, tail = out_.split("...")
                want = list(head) + [t for t in tags if isinstance(t, tuple)] + list(tail)
            else:
                want = list(out_)
            if sorted(map(str, want)) != sorted(map(str, tags)):
                self.unknown(f"einsum '{spec}': output subscripts do not match the free axes", e)
            perm = [tags.index(t) for t in want]
            if not res.ndim_known and perm[len(perm) - 0:] != []:
                pass
            return transpose(res, perm, e) if perm != list(range(len(perm))) else res
        if short == "concatenate":
            axis = args[1] if len(args) > 1 else kwargs.get("axis", 0)
            if isinstance(a0, Arr):
                return concat_array(a0, axis, e)
            return concat_list(self.iterate(a0, e), axis, e)
        if short in ("conjugate", "conj"):
            a = self.need_arr(a0, e)
            if kwargs.get("out") is a:
                a.conj = not a.conj  # in place: every holder of this array sees the conjugated values
                return a
            if kwargs.get("out") is not None:
                self.unknown("np.conjugate(out=another array)", e)
            return a.with_(conj=not a.conj)
        if short == "zeros" and kwargs.get("dtype") is not None and getattr(kwargs["dtype"], "what", None) == "object":
            shape = a0 if isinstance(a0, tuple) else (a0,)
            if not all(isinstance(x, int) for x in shape):
                self.unknown("object grid with symbolic shape", e)
            return Grid(shape)
        if short in ("triu_indices", "tril_indices"):
            n = a0
            if not isinstance(n, int) or len(args) > 1 or kwargs:
                self.unknown(f"{short} with these arguments", e)
            if short == "triu_indices":
                return IdxList([(i, j) for i in range(n) for j in range(i, n)])
            return IdxList([(i, j) for i in range(n) for j in range(0, i + 1)])
        if short == "reshape":
            a = self.need_arr(a0, e)
            tg = args[1] if isinstance(args[1], (tuple, list)) else args[1:]
            return reshape(a, list(tg), e)
        hook = self.hooks.get("numpy")
        if hook is not None:
            r = hook(self, short, name, args, kwargs, e)
            if r is not NotImplemented:
                return r
        self.unknown(f"numpy function {name}", e)

    def need_arr(self, v, e):
        if not isinstance(v, Arr):
            raise AxTypeError(f"expected an array, found {v!r} in `{ast.unparse(e)[:60]}`", e)
        return v

    def arr_method(self, a, attr, args, kwargs, e):
        if attr == "reshape":
            tg = args[0] if len(args) == 1 and isinstance(args[0], (tuple, list)) else args
            return reshape(a, list(tg), e)
        if attr == "swapaxes":
            return swapaxes(a, args[0], args[1], e)
        if attr == "transpose":
            perm = args[0] if len(args) == 1 and isinstance(args[0], (tuple, list)) else (args or None)
            return transpose(a, perm, e)
        if attr in ("conj", "conjugate"):
            return a.with_(conj=not a.conj)
        if attr == "copy":
            return a
        hook = self.hooks.get("arr_method")
        if hook is not None:
            r = hook(self, a, attr, args, kwargs, e)
            if r is not NotImplemented:
                return r
        self.unknown(f"array method .{attr}()", e)

    def eval_Slice(self, e, env):
        return self.eval_index(e, env)
