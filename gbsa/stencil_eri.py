"""Two-electron kernel: E0, Ev, Et, Eh (on d and on b), primitive contraction, the four component selections."""
import ast

import sympy as sp

from .stencil import Contract, Gather, TabRef, TabSym, ARange, Boys, LabelMismatch, c
from .stencil_spec import (A, B, C, D, al, be, ga, de, Finding, stencil_of, compare, inc_axis, tvalues)
from .report import AnalysisError

zeta, eta = al + be, ga + de
rho = zeta * eta / (zeta + eta)
P = lambda k: (al * A(k) + be * B(k)) / zeta
Q = lambda k: (ga * C(k) + de * D(k)) / eta
CEN = {1: A, 2: B, 3: C, 4: D}
EXP = {1: al, 2: be, 3: ga, 4: de}


def tab_axis_of(lab):
    b = lab.base
    if isinstance(b, tuple) and b[0] == "tab":
        return (b[1], b[2])
    return None


class Roles:
    """axis roles: (table id, axis) -> ('m',) | ('rec', shell, comp) | ('L', shell) | ('M', shell) | ('K', shell)"""

    def __init__(self):
        self.r = {}

    def set(self, tab, k, role, findings, store):
        key = (tab.id, k)
        if key in self.r and self.r[key] != role:
            findings.append(Finding("E-ROLE", store, f"axis {k} of {tab.name} is used as {self.r[key]} elsewhere and as {role} here"))
            return
        self.r[key] = role

    def get(self, tab, k):
        return self.r.get((tab.id, k))

    def of_label(self, lab):
        b = lab.base
        if isinstance(b, tuple) and b[0] == "tab":
            return self.r.get((b[1], b[2]))
        if isinstance(b, tuple) and b[0] == "dim":
            return (b[1], b[2]) if len(b) > 2 else (b[1],)
        return None


def inherit_roles(ex, store, roles, findings):
    """Initialisation store T[fixed.., free..] = rhs: the free target axes take the roles of the rhs axes (aligned from the right)."""
    free = [k for k, ix in enumerate(store.index) if ix.kind not in ("const", "var", "unit")]
    labs = store.rhs.labels
    if labs is None:
        raise AnalysisError("STENCIL", f"initialisation `{store.text}` from a value of unknown rank", store.func.where(store.node))
    if len(labs) != len(free):
        # leading broadcast axes
        labs = labs[len(labs) - len(free):] if len(labs) > len(free) else [None] * (len(free) - len(labs)) + list(labs)
    for k, lab in zip(free, labs):
        if lab is None:
            continue
        role = roles.of_label(lab)
        if role is not None:
            roles.set(store.table, k, role, findings, store)


def check_two_elec(ex, findings):
    f = ex.func
    names = [t.name for t in ex.all_tables]
    if len(ex.all_tables) != 6:
        raise AnalysisError("STENCIL", f"expected six recursion tables in {f.name} (vertical, electron transfer, two x two horizontal), found {names}", f.where())
    vert, etr, hd, hd2, hb, hb2 = ex.all_tables
    roles = Roles()
    info = dict(stores=[], tables=ex.all_tables, roles=roles)
    for s in ex.stores:
        try:
            terms, const, tsyms, subs = stencil_of(ex, s)
        except LabelMismatch as lm:
            findings.append(Finding("E-ALIGN", s, lm.msg))
            continue
        vals, lows, consts = tvalues(tsyms)
        tab = s.table
        n = len(tab.labels)
        if not terms:
            if tab is vert:
                RPQ2 = sum((P(k) - Q(k)) ** 2 for k in range(3))
                RAB2 = sum((A(k) - B(k)) ** 2 for k in range(3))
                RCD2 = sum((C(k) - D(k)) ** 2 for k in range(3))
                want = (2 * sp.pi ** sp.Rational(5, 2)) / (zeta * eta * sp.sqrt(zeta + eta)) * Boys(vals[0], rho * RPQ2) * \
                    sp.exp(-al * be / zeta * RAB2) * sp.exp(-ga * de / eta * RCD2)
                okc = all(consts[k] and vals[k] == 0 for k in (1, 2, 3)) and not consts[0]
                if not (okc and sp.simplify(const / want - 1) == 0):
                    findings.append(Finding("E0", s, "the start of the vertical recursion is not 2 pi^(5/2)/(zeta eta sqrt(zeta+eta)) F_m(rho |P-Q|^2) "
                                                     "exp(-mu_ab |A-B|^2) exp(-mu_cd |C-D|^2) for every m", expected=str(want)[:200], found=str(const)[:300]))
                roles.set(vert, 0, ("m",), findings, s)
                info["stores"].append((s, "E0"))
            else:
                inherit_roles(ex, s, roles, findings)
                info["stores"].append((s, "INIT"))
            continue
        ks = inc_axis(terms, n)
        if tab is vert:
            ks = [k for k in ks if k in (1, 2, 3)]
            if len(ks) != 1:
                raise AnalysisError("STENCIL", f"`{s.text}`: not a vertical step", f.where(s.node))
            r = ks[0]
            cc = r - 1
            e1 = [0] * n
            e1[r] = -1
            e1m = list(e1)
            e1m[0] = 1
            e2 = [0] * n
            e2[r] = -2
            e2m = list(e2)
            e2m[0] = 1
            spec = [(tuple(e1), P(cc) - A(cc)), (tuple(e1m), -(rho / zeta) * (P(cc) - Q(cc))),
                    (tuple(e2), (vals[r] - 1) / (2 * zeta)), (tuple(e2m), -(rho / zeta) * (vals[r] - 1) / (2 * zeta))]
            compare(ex, s, spec, findings, "Ev", f"vertical step along component {cc}")
            roles.set(vert, r, ("rec", 1, cc), findings, s)
            info["stores"].append((s, "Ev"))
        elif tab is etr:
            ks = [k for k in ks if k in (0, 1, 2)]
            if len(ks) != 1:
                raise AnalysisError("STENCIL", f"`{s.text}`: not an electron-transfer step", f.where(s.node))
            r = ks[0]
            a_ax = r + 3
            e1 = [0] * n
            e1[r] = -1
            ea = list(e1)
            ea[a_ax] = -1
            e2 = [0] * n
            e2[r] = -2
            eu = list(e1)
            eu[a_ax] = +1
            spec = [(tuple(e1), (Q(r) - C(r)) + (zeta / eta) * (P(r) - A(r))), (tuple(ea), vals[a_ax] / (2 * eta)),
                    (tuple(e2), (vals[r] - 1) / (2 * eta)), (tuple(eu), -(zeta / eta))]
            compare(ex, s, spec, findings, "Et", f"electron-transfer step along component {r}")
            roles.set(etr, r, ("rec", 3, r), findings, s)
            got = roles.get(etr, a_ax)
            if got is not None and got != ("rec", 1, r):
                findings.append(Finding("Et", s, f"the electron transfer along component {r} exchanges quanta with axis {a_ax}, which holds {got}",
                                        expected=str(("rec", 1, r)), found=str(got)))
            info["stores"].append((s, "Et"))
        else:
            # horizontal transfers
            spec_by_tab = {hd.id: (4, 3, (0, 1), 2), hd2.id: (4, 3, (2,), 1), hb.id: (2, 1, (0, 1), 2), hb2.id: (2, 1, (2,), 1)}
            inc_shell, donor_shell, comps, donor_off = spec_by_tab[tab.id]
            nrec = len(comps)
            ks = [k for k in ks if k < nrec]
            if len(ks) != 1:
                raise AnalysisError("STENCIL", f"`{s.text}`: not a horizontal transfer step", f.where(s.node))
            r = ks[0]
            comp = comps[r]
            donor = r + donor_off
            up = [0] * n
            up[r], up[donor] = -1, +1
            same = [0] * n
            same[r] = -1
            cenX, cenY = CEN[donor_shell], CEN[inc_shell]
            compare(ex, s, [(tuple(up), sp.Integer(1)), (tuple(same), cenX(comp) - cenY(comp))], findings, "Eh",
                    f"horizontal transfer to shell {inc_shell} along component {comp}")
            roles.set(tab, r, ("rec", inc_shell, comp), findings, s)
            got = roles.get(tab, donor)
            if got is not None and got != ("rec", donor_shell, comp):
                findings.append(Finding("Eh", s, f"the transfer to shell {inc_shell} along component {comp} takes quanta from axis {donor}, which holds {got}",
                                        expected=str(("rec", donor_shell, comp)), found=str(got)))
            info["stores"].append((s, "Eh"))
    return info


def check_gathers(ex, roles, findings, f):
    """Every advanced index on a recursion axis of shell s / component k is Comp_s(k); on a component-list axis it is the identity."""
    n = 0
    for gid, g in sorted(ex.shared["gathers"].items()):
        if g["func"] is not f:
            continue
        base = g["base"]
        labs = base.labels
        entries = g["entries"]
        for k, (en, lab) in enumerate(zip(entries, labs)):
            if en[0] != "adv":
                continue
            n += 1
            idx = g["idx_exprs"][k]
            role = roles.of_label(lab)
            text = ast.unparse(g["node"])[:60]
            if role is None:
                raise AnalysisError("GATHER", f"axis {k} ({lab}) of `{text}` has no known role", f.where(g["node"]))
            if role[0] == "rec":
                want = sp.Function(f"Comp{role[1]}")(role[2])
                if sp.simplify(idx - want) != 0:
                    findings.append(Finding("GATHER", None, f"axis {k} of the selected table counts the {'xyz'[role[2]]} quanta of shell {role[1]} but is "
                                                            f"indexed with {idx}", expected=str(want), found=str(idx), construct=f"{text} axis {k}"))
            elif role[0] == "L":
                from .stencil import Iota
                ok = isinstance(idx, Iota)
                if not ok:
                    findings.append(Finding("GATHER", None, f"axis {k} runs over the components of shell {role[1]} and must be paired one-to-one (identity "
                                                            f"index) with the selected quanta; it is indexed with {idx}", construct=f"{text} axis {k}"))
            else:
                findings.append(Finding("GATHER", None, f"axis {k} with role {role} is selected by an index array", construct=f"{text} axis {k}"))
    return n
