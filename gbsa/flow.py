"""FLOW: path conditions, dispatch exhaustiveness, keyword forwarding (DESIGN 2.6)."""
import ast

from .astutil import dotted, walk_no_nested
from .report import AnalysisError


def terminates(stmts):
    """Does the block always leave the enclosing function / loop iteration?"""
    if not stmts:
        return False
    last = stmts[-1]
    if isinstance(last, (ast.Return, ast.Raise, ast.Continue, ast.Break)):
        return True
    if isinstance(last, ast.If):
        return terminates(last.body) and terminates(last.orelse)
    return False


RAISE_GUARDS = set()


def path_conditions(fn):
    """Map id(stmt) -> tuple of (test_node, polarity) that hold when the statement executes
    (if/elif/else nesting plus early exits)."""
    out = {}

    def rec(stmts, conds):
        conds = tuple(conds)
        for st in stmts:
            out[id(st)] = conds
            if isinstance(st, ast.If):
                rec(st.body, conds + ((st.test, True),))
                rec(st.orelse, conds + ((st.test, False),))
                if terminates(st.body) and not terminates(st.orelse):
                    if isinstance(st.body[-1], ast.Raise) and not st.orelse:
                        RAISE_GUARDS.add(id(st.test))  # validation guard: not part of any dispatch
                    conds = conds + ((st.test, False),)
                elif st.orelse and terminates(st.orelse) and not terminates(st.body):
                    conds = conds + ((st.test, True),)
            elif isinstance(st, (ast.For, ast.While, ast.With)):
                rec(st.body, conds)
                rec(getattr(st, "orelse", []), conds)
            elif isinstance(st, ast.Try):
                rec(st.body, conds)
                for h in st.handlers:
                    rec(h.body, conds)
                rec(st.orelse, conds)
                rec(st.finalbody, conds)

    rec(fn.body, ())
    return out


def stmt_of(fn, node):
    """Innermost statement of fn that contains node."""
    best = None
    for st in walk_no_nested(fn):
        if isinstance(st, ast.stmt) and st is not fn and any(n is node for n in ast.walk(st)):
            if best is None or (st.lineno >= best.lineno and (st.end_lineno or 0) <= (best.end_lineno or 10**9)):
                best = st
    return best


def cond_text(conds):
    return " and ".join((("" if pol else "not ") + "(" + ast.unparse(t) + ")") for t, pol in conds) or "True"


# -------------------------------------------------------------------------------- coordinate-type predicates
def classify_coord_pred(test, var_names=None):
    """Recognise the predicates used to dispatch on coordinate types.
    Returns one of 'transform', 'no-transform', 'all-cartesian', 'all-spherical', 'is-sequence', None."""
    t = test
    if isinstance(t, ast.Compare) and len(t.ops) == 1 and isinstance(t.comparators[0], ast.Constant) and t.comparators[0].value is None:
        if isinstance(t.ops[0], ast.IsNot):
            return "transform"
        if isinstance(t.ops[0], ast.Is):
            return "no-transform"
    if isinstance(t, ast.BoolOp) and isinstance(t.op, ast.Or):
        kinds = [classify_coord_pred(v) for v in t.values]
        # all(...) or coord_type == "cartesian": the list of types never equals a string, so `== "x"` is False and `!= "x"` is True
        main = kinds[0]
        if main in ("all-cartesian", "all-spherical"):
            for v in t.values[1:]:
                if not (isinstance(v, ast.Compare) and len(v.ops) == 1 and isinstance(v.ops[0], (ast.Eq, ast.NotEq)) and isinstance(v.left, ast.Name)
                        and isinstance(v.comparators[0], ast.Constant) and v.comparators[0].value in ("cartesian", "spherical")):
                    return None
                if isinstance(v.ops[0], ast.NotEq):
                    return "always"
            return main
        return None
    if isinstance(t, ast.BoolOp) and isinstance(t.op, ast.And):
        kinds = {classify_coord_pred(v) for v in t.values}
        if len(kinds) == 1 and list(kinds)[0] in ("all-cartesian", "all-spherical"):
            return list(kinds)[0]
        return None
    if isinstance(t, ast.Call) and dotted(t.func) == "all" and len(t.args) == 1 and isinstance(t.args[0], ast.GeneratorExp):
        g = t.args[0]
        if len(g.generators) == 1 and not g.generators[0].ifs and isinstance(g.elt, ast.Compare) and len(g.elt.ops) == 1 \
                and isinstance(g.elt.ops[0], (ast.Eq, ast.NotEq)) and isinstance(g.generators[0].target, ast.Name):
            v = g.generators[0].target.id
            l, r = g.elt.left, g.elt.comparators[0]
            if isinstance(r, ast.Name) and isinstance(l, ast.Constant):
                l, r = r, l
            if isinstance(l, ast.Name) and l.id == v and isinstance(r, ast.Constant) and r.value in ("cartesian", "spherical"):
                if isinstance(g.elt.ops[0], ast.Eq):
                    return "all-" + r.value
                # a shell's coord_type is one of the two (validated by the shell class): "none is X" means "all are the other one"
                return "all-" + ("cartesian" if r.value == "spherical" else "spherical")
        return None
    if isinstance(t, ast.Call) and dotted(t.func) == "isinstance" and len(t.args) == 2 and ast.unparse(t.args[1]) in ("(list, tuple)", "(tuple, list)"):
        return "is-sequence"
    return None


def effective_branch(conds):
    """From a path condition decide which assembly the branch is for:
    'lincomb' | 'cartesian' | 'spherical' | 'mix' | None (unrecognised)."""
    conds = [(t, pol) for t, pol in conds if not (id(t) in RAISE_GUARDS and not pol)]
    pos = [classify_coord_pred(t) for t, pol in conds if pol]
    neg = [classify_coord_pred(t) for t, pol in conds if not pol]
    if None in pos or None in neg:
        return None
    if "transform" in pos:
        return "lincomb"
    if "all-cartesian" in pos:
        return "cartesian" if "all-spherical" not in pos else None
    if "all-spherical" in pos:
        return "spherical" if "all-cartesian" in neg else "spherical-unordered"
    if "all-cartesian" in neg and "all-spherical" in neg:
        return "mix"
    return None


def kwargs_of_call(fn, call, defs=None):
    """Keyword arguments of a call as {name: expr text}; `**name` is expanded when `name` is bound to a
    dict literal in fn, otherwise reported as {'**': name}."""
    out = {}
    for k in call.keywords:
        if k.arg is not None:
            out[k.arg] = ast.unparse(k.value)
        else:
            nm = ast.unparse(k.value)
            lit = None
            if isinstance(k.value, ast.Name):
                assigns = [n for n in walk_no_nested(fn) if isinstance(n, ast.Assign) and len(n.targets) == 1
                           and isinstance(n.targets[0], ast.Name) and n.targets[0].id == k.value.id]
                if len(assigns) == 1 and isinstance(assigns[0].value, ast.Dict):
                    lit = assigns[0].value
            if lit is not None and all(isinstance(kk, ast.Constant) for kk in lit.keys):
                for kk, vv in zip(lit.keys, lit.values):
                    out[kk.value] = ast.unparse(vv)
            else:
                out["**"] = nm
    return out


# -------------------------------------------------------------------------------- public wrapper dispatch
ASSEMBLY = ("lincomb", "cartesian", "spherical", "mix")


def coord_type_list_ok(fn, name, basis_param):
    """`name` is bound once to the list of `.coord_type` of the shells of `basis_param`, in order."""
    assigns = [n for n in walk_no_nested(fn) if isinstance(n, ast.Assign) and len(n.targets) == 1
               and isinstance(n.targets[0], ast.Name) and n.targets[0].id == name]
    if len(assigns) != 1:
        return False, "not a single assignment"
    v = assigns[0].value
    # strip identity comprehension [ct for ct in X]
    while isinstance(v, ast.ListComp) and len(v.generators) == 1 and not v.generators[0].ifs and \
            isinstance(v.elt, ast.Name) and isinstance(v.generators[0].target, ast.Name) and v.elt.id == v.generators[0].target.id:
        v = v.generators[0].iter
    if isinstance(v, ast.ListComp) and len(v.generators) == 1 and not v.generators[0].ifs:
        g = v.generators[0]
        if isinstance(g.target, ast.Name) and isinstance(g.iter, ast.Name) and g.iter.id == basis_param and \
                isinstance(v.elt, ast.Attribute) and v.elt.attr == "coord_type" and isinstance(v.elt.value, ast.Name) \
                and v.elt.value.id == g.target.id:
            return True, ast.unparse(assigns[0].value)
    return False, ast.unparse(assigns[0].value)


def branch_state(conds):
    """(transform_state, type_state) implied by a path condition:
    transform_state in {'yes', 'no', 'unknown'}; type_state in {'cartesian', 'spherical', 'mix', 'any'} or None if a
    predicate is not recognised."""
    conds = [(t, pol) for t, pol in conds if not (id(t) in RAISE_GUARDS and not pol)]
    kinds = [(classify_coord_pred(t), pol) for t, pol in conds]
    if any(k is None for k, _ in kinds):
        return None, None
    tr = "unknown"
    for k, pol in kinds:
        if k == "transform":
            tr = "yes" if pol else "no"
        elif k == "no-transform":
            tr = "no" if pol else "yes"
    pos = {k for k, pol in kinds if pol} - {"always"}
    neg = {k for k, pol in kinds if not pol}
    if "always" in neg:
        return tr, "never"
    if "all-cartesian" in pos and "all-spherical" in pos:
        ty = None
    elif "all-cartesian" in pos:
        ty = "cartesian"
    elif "all-spherical" in pos:
        # an all-spherical test that is not preceded by the all-cartesian test is still right for non-empty bases
        ty = "spherical"
    elif "all-cartesian" in neg and "all-spherical" in neg:
        ty = "mix"
    elif not ({"all-cartesian", "all-spherical"} & (pos | neg)):
        ty = "any"
    else:
        ty = "partial"
    return tr, ty


def check_wrapper_dispatch(repo, f, R, rule="DISPATCH", must_forward=(), depth=0, ignore_kw=()):
    """The dispatch of a public wrapper: with a transformation -> construct_array_lincomb (whatever the coordinate types);
    without one: all cartesian -> cartesian; all spherical -> spherical; else mix; all sibling calls forward identical
    keywords, each the wrapper's own parameter."""
    fn = f.node
    pc = path_conditions(fn)
    sites = []
    recv_names = {}
    for node in walk_no_nested(fn):
        if isinstance(node, ast.Assign) and len(node.targets) == 1 and isinstance(node.targets[0], ast.Name) and isinstance(node.value, ast.Call):
            recv_names.setdefault(node.targets[0].id, []).append(node.value)
    for node in walk_no_nested(fn):
        if isinstance(node, ast.Call) and isinstance(node.func, ast.Attribute) and node.func.attr.startswith("construct_array_"):
            recv = node.func.value
            if isinstance(recv, ast.Name) and len(recv_names.get(recv.id, [])) == 1:
                recv = recv_names[recv.id][0]
            if isinstance(recv, ast.Call):
                sites.append((node, recv))
    sites.sort(key=lambda c: c[0].lineno)
    if not sites and depth < 1:
        # the dispatch may live in a private helper of the same module that receives the wrapper's parameters under their own names
        helpers = []
        for node in walk_no_nested(fn):
            if isinstance(node, ast.Call) and isinstance(node.func, ast.Name) and node.func.id.startswith("_"):
                g = repo.resolve_name(f.module, node.func.id, f)
                if hasattr(g, "node") and g.module is f.module and any(
                        isinstance(n2, ast.Call) and isinstance(n2.func, ast.Attribute) and n2.func.attr.startswith("construct_array_") for n2 in ast.walk(g.node)):
                    helpers.append((node, g))
        if len(helpers) == 1:
            call, g = helpers[0]
            bound = dict(zip(g.params, [ast.unparse(a) for a in call.args]))
            bound.update({k.arg: ast.unparse(k.value) for k in call.keywords if k.arg})
            same = all(bound.get(p_) == p_ for p_ in g.params)
            R.check(same, rule, f.site, f"{g.name}(" + ", ".join(f"{k}={v}" for k, v in bound.items()) + ")",
                    f"the dispatch helper {g.name} must receive the wrapper's own parameters", where=f.where(call),
                    expected={p_: p_ for p_ in g.params}, found=bound)
            return check_wrapper_dispatch(repo, g, R, rule, must_forward, depth=depth + 1, ignore_kw=ignore_kw)
    if len(sites) < 4:
        raise AnalysisError(rule, f"expected at least the 4 assembly calls in {f.qualname}, found {len(sites)}", f.where())
    classes = {ast.unparse(r.func) for _c, r in sites}
    if len(classes) != 1:
        R.fail(rule, f.site, "assembly class", f"the dispatch branches of {f.name} use different classes: {sorted(classes)}", where=f.where())
        return len(sites)
    cls = repo.resolve_name(f.module, classes.pop(), f)
    kernel = cls.lookup("construct_array_contraction") if cls is not None and hasattr(cls, "lookup") else None
    if isinstance(kernel, ast.AST):
        kernel = repo.resolve_alias(cls.module, kernel)
    if kernel is None:
        raise AnalysisError(rule, f"kernel of the class used by {f.qualname} not found", f.where())
    ka = kernel.node.args
    kparams = [x.arg for x in ka.posonlyargs + ka.args + ka.kwonlyargs]
    kparams = [p for p in kparams if p not in ("self", "cls")]
    nshell = {"BaseOneIndex": 1, "BaseTwoIndexSymmetric": 2, "BaseTwoIndexAsymmetric": 2, "BaseFourIndexSymmetric": 4}
    n_sh = None
    for c in cls.mro():
        if c.name in nshell:
            n_sh = nshell[c.name]
    if n_sh is None:
        raise AnalysisError(rule, f"assembly base class of {cls.name} not recognised", f.where())
    kw_params = kparams[n_sh:]
    n_def = len(ka.defaults)
    required = set(kw_params[: len(kw_params) - n_def]) if n_def else set(kw_params)
    basis_param = f.params[0]
    kwsets = []
    reach = {"lincomb": set(), "cartesian": 0, "spherical": 0, "mix": 0}
    for call, ctor in sites:
        meth = call.func.attr[len("construct_array_"):]
        st = stmt_of(fn, call)
        conds = pc.get(id(st), ())
        tr, ty = branch_state(conds)
        text = f"{ast.unparse(call.func)}(...) under [{cond_text(conds)[:110]}]"
        if ty is None:
            raise AnalysisError(rule, f"dispatch predicate not recognised: {cond_text(conds)[:120]}", f.where(call))
        if meth == "lincomb":
            R.check(tr == "yes", rule, f.site, text, "construct_array_lincomb is called on a path where no transformation is known to be given",
                    where=f.where(call), expected="under `transform is not None`", found=cond_text(conds)[:100])
            reach["lincomb"].add(ty)
        elif meth in ("cartesian", "spherical", "mix"):
            R.check(tr == "no", rule, f.site, text,
                    f"this branch assembles with construct_array_{meth} although a transformation may have been given: the transformation is "
                    f"silently ignored for {'mixed' if meth == 'mix' else 'all-' + meth} bases",
                    where=f.where(call), expected="reached only when `transform is None`", found=cond_text(conds)[:100])
            R.check(ty == meth, rule, f.site, text + " :: coordinate types",
                    "this branch is taken for " + {"any": "every basis", "never": "no basis at all (its condition can never hold)",
                                                    "partial": "bases that are neither tested to be all Cartesian nor all spherical"}.get(ty, f"a {ty} basis")
                    + f" but assembles with construct_array_{meth}",
                    where=f.where(call), expected=f"construct_array_{ty}", found=f"construct_array_{meth}")
            reach[meth] += 1
        else:
            raise AnalysisError(rule, f"unknown assembly method construct_array_{meth}", f.where(call))
        R.check([ast.unparse(a) for a in ctor.args] == [basis_param] and not ctor.keywords, rule, f.site,
                f"{ast.unparse(ctor)} for branch {meth}", "the assembly object must be built on the given basis",
                where=f.where(call), expected=f"{cls.name}({basis_param})", found=ast.unparse(ctor))
        pos = [ast.unparse(a) for a in call.args]
        ct_node = None
        if meth == "lincomb":
            okp = len(pos) == 2 and pos[0] == "transform"
            ct_node = call.args[1] if len(pos) == 2 else None
        elif meth == "mix":
            okp = len(pos) == 1
            ct_node = call.args[0] if pos else None
        else:
            okp = not pos
        R.check(okp, rule, f.site, f"positional arguments of {ast.unparse(call.func)} line-order {sites.index((call, ctor))}", "unexpected positional arguments",
                where=f.where(call), expected={"lincomb": "(transform, coord_type)", "mix": "(coord_type)"}.get(meth, "()"), found=pos)
        if ct_node is not None:
            if isinstance(ct_node, ast.Name):
                ok, how = coord_type_list_ok(fn, ct_node.id, basis_param)
            else:
                # a literal type list is acceptable when the path condition already established that uniform type
                try:
                    lit = ast.literal_eval(ct_node)
                except Exception:
                    lit = None
                ok = isinstance(lit, (list, tuple)) and len(lit) >= 1 and all(x == ty for x in lit) and ty in ("cartesian", "spherical")
                how = ast.unparse(ct_node)
            R.check(ok, rule, f.site, f"coordinate types `{ast.unparse(ct_node)}` in branch {meth}",
                    "the coordinate types handed to the assembly must be the shells' own coord_type, in basis order",
                    where=f.where(call), expected=f"[shell.coord_type for shell in {basis_param}]", found=how)
        # ignore_kw: keywords whose forwarding is the subject of another property (e.g. the screening tolerance for the exactness of
        # the overlap: dropping it makes the result unscreened, i.e. exact)
        kwsets.append((meth, call, {k_: v_ for k_, v_ in kwargs_of_call(fn, call).items() if k_ not in ignore_kw}))
    lin_ok = "any" in reach["lincomb"] or {"cartesian", "spherical", "mix"} <= reach["lincomb"]
    R.check(lin_ok, rule, f.site, "transformation honoured for every coordinate-type pattern",
            f"with a transformation given, construct_array_lincomb is only reached for {sorted(reach['lincomb'])} bases",
            where=f.where(), expected="lincomb reachable for cartesian, spherical and mixed bases", found=sorted(reach["lincomb"]))
    R.check(all(reach[m] >= 1 for m in ("cartesian", "spherical", "mix")), rule, f.site, "one branch per assembly",
            "each of cartesian/spherical/mix must be reachable", where=f.where(), found={k: v for k, v in reach.items() if k != "lincomb"})
    ref = kwsets[0][2]
    for meth, call, kws in kwsets:
        R.check(kws == ref, rule, f.site, f"keywords of {ast.unparse(call.func)} (site {kwsets.index((meth, call, kws))})",
                f"branch {meth} forwards {kws} but branch {kwsets[0][0]} forwards {ref}: results would depend on the coordinate-type branch",
                where=f.where(call), expected=ref, found=kws)
    wrapper_params = set(f.params)
    for p in kw_params:
        if p in ignore_kw:
            continue
        if p in required or p in wrapper_params:
            for meth, call, kws in kwsets:
                R.check(kws.get(p) == p, rule, f.site, f"{p}= at {ast.unparse(call.func)} (site {kwsets.index((meth, call, kws))})",
                        f"kernel parameter `{p}` is not forwarded from the wrapper's parameter in branch {meth} "
                        f"({'missing: the default is used silently' if p not in kws else 'receives ' + str(kws.get(p))})",
                        where=f.where(call), expected=f"{p}={p}", found=kws.get(p))
    for meth, call, kws in kwsets:
        extra = set(kws) - set(kw_params)
        R.check(not extra, rule, f.site, f"unknown keywords at {ast.unparse(call.func)} (site {kwsets.index((meth, call, kws))})",
                f"keywords {sorted(extra)} are not kernel parameters", where=f.where(call), expected=sorted(kw_params), found=sorted(kws))
    return len(sites)


def check_wrapper_inputs(repo, f, R, rule="INPUTS", ignore=()):
    """A public wrapper hands its own parameters to the assembly: no path replaces one of them by another value (a filtered,
    re-ordered, scaled or defaulted copy).  Value-preserving rebinding (np.asarray, x if c else x) is accepted."""
    from .formula import rebound_inputs, classify_rebinding, strip_restrict
    names = set(f.params)
    rebound, syms = rebound_inputs(f, names, rule=rule)
    for name, val, st in rebound:
        if name in ignore:
            continue  # this parameter is the subject of another property
        core, conds = strip_restrict(val) if hasattr(val, "atoms") else (val, [])
        kind = "different" if conds else classify_rebinding(core, syms[name])
        if kind == "unknown":
            raise AnalysisError(rule, f"`{ast.unparse(st)[:80]}` rebinds the input `{name}` to a value that is not modelled", f.where(st))
        R.check(kind == "same", rule, f.site, "input " + ast.unparse(st)[:70],
                f"`{name}` is replaced on some path of {f.name} before it is used: the result would be that of other inputs",
                where=f.where(st), expected=f"{name} used as given", found=str(val)[:80])
    R.ok(rule, f.site, f"{f.name}: parameters {sorted(names)} are used as given ({len(rebound)} value-preserving rebinding(s))")



def check_documented_defaults(f, R, rule="DEFAULT"):
    """The numpydoc entry of a parameter states its default ("Default value is 1.", "Default is no transformation."): the signature
    must agree - a caller that relies on the documented default otherwise gets the result for another value."""
    import re
    doc = ast.get_docstring(f.node) or ""
    a = f.node.args
    pos = a.posonlyargs + a.args
    defaults = dict(zip([x.arg for x in pos][len(pos) - len(a.defaults):], a.defaults))
    defaults.update({x.arg: d for x, d in zip(a.kwonlyargs, a.kw_defaults) if d is not None})
    n = 0
    for pname, d in defaults.items():
        if pname.startswith("transform"):
            isnone = isinstance(d, ast.Constant) and d.value is None
            n += 1
            R.check(isnone, rule, f.site, f"default of `{pname}`", f"`{pname}` of {f.name} defaults to `{ast.unparse(d)}`: without an explicit transformation the result "
                    "must be in the atomic-orbital basis (no transformation)", where=f.where(), expected="None", found=ast.unparse(d))
    lines = doc.split("\n")
    cur = None
    for ln in lines:
        m = re.match(r"^(\w+) : ", ln)
        if m:
            cur = m.group(1)
            continue
        if cur is None or cur not in defaults:
            continue
        stated = None
        m2 = re.search(r"Default value is ([^\s,]+?)[.,]?(\s|$)", ln.strip())
        if m2:
            txt = m2.group(1).rstrip(".")
            if re.match(r"^-?\d+\.$", m2.group(1)):
                txt = m2.group(1)
            try:
                stated = ("lit", ast.literal_eval(txt))
            except Exception:
                try:
                    stated = ("lit", ast.literal_eval(txt.rstrip(".")))
                except Exception:
                    stated = None
        elif re.search(r"Default is no transformation", ln):
            stated = ("lit", None)
        elif re.search(r"Default is Physicists' notation", ln):
            stated = ("lit", "physicist")
        elif re.search(r"Default is Chemists' notation", ln):
            stated = ("lit", "chemist")
        if stated is None:
            continue
        try:
            actual = ast.literal_eval(defaults[cur])
        except Exception:
            continue
        n += 1
        same = (actual == stated[1]) and (type(actual) is type(stated[1]) or isinstance(actual, (int, float)) and isinstance(stated[1], (int, float))
                                          and not isinstance(actual, bool) and not isinstance(stated[1], bool))
        R.check(same, rule, f.site, f"default of `{cur}`", f"the documentation of {f.name} states the default {stated[1]!r} for `{cur}`, the signature "
                f"says {actual!r}: calls that rely on the documented default compute something else", where=f.where(), expected=repr(stated[1]), found=repr(actual))
        cur = None
    return n



def check_default_is(f, R, rule, param, want, why):
    """The signature default of `param` in f is the literal `want`."""
    a = f.node.args
    pos = a.posonlyargs + a.args
    defaults = dict(zip([x.arg for x in pos][len(pos) - len(a.defaults):], a.defaults))
    defaults.update({x.arg: d for x, d in zip(a.kwonlyargs, a.kw_defaults) if d is not None})
    if param not in [x.arg for x in pos + a.kwonlyargs]:
        return
    d = defaults.get(param)
    try:
        got = ast.literal_eval(d) if d is not None else "<required>"
    except Exception:
        got = ast.unparse(d)
    R.check(d is not None and got == want and type(got) is type(want), rule, f.site, f"default of `{param}` in {f.name}",
            f"`{param}` defaults to {got!r} in {f.name}: {why}", where=f.where(), expected=f"{param}={want!r}", found=repr(got))
