"""FLOW: path conditions, dispatch exhaustiveness, keyword forwarding (DESIGN 2.6)."""
import ast

from .astutil import dotted, walk_no_nested
from .report import AnalysisError


def terminates(stmts):
    """Does the block always leave the enclosing function / loop iteration?"""
    if not stmts:
        return False
    last = stmts[-1]
    if isinstance(last, (ast.Return, ast.Raise, ast.Continue, ast.Break)):
        return True
    if isinstance(last, ast.If):
        return terminates(last.body) and terminates(last.orelse)
    return False


RAISE_GUARDS = set()


def path_conditions(fn):
    """Map id(stmt) -> tuple of (test_node, polarity) that hold when the statement executes
    (if/elif/else nesting plus early exits)."""
    out = {}

    def rec(stmts, conds):
        conds = tuple(conds)
        for st in stmts:
            out[id(st)] = conds
            if isinstance(st, ast.If):
                rec(st.body, conds + ((st.test, True),))
                rec(st.orelse, conds + ((st.test, False),))
                if terminates(st.body) and not terminates(st.orelse):
                    if isinstance(st.body[-1], ast.Raise) and not st.orelse:
                        RAISE_GUARDS.add(id(st.test))  # validation guard: not part of any dispatch
                    conds = conds + ((st.test, False),)
                elif st.orelse and terminates(st.orelse) and not terminates(st.body):
                    conds = conds + ((st.test, True),)
            elif isinstance(st, (ast.For, ast.While, ast.With)):
                rec(st.body, conds)
                rec(getattr(st, "orelse", []), conds)
            elif isinstance(st, ast.Try):
                rec(st.body, conds)
                for h in st.handlers:
                    rec(h.body, conds)
                rec(st.orelse, conds)
                rec(st.finalbody, conds)

    rec(fn.body, ())
    return out


def stmt_of(fn, node):
    """Innermost statement of fn that contains node."""
    best = None
    for st in walk_no_nested(fn):
        if isinstance(st, ast.stmt) and st is not fn and any(n is node for n in ast.walk(st)):
            if best is None or (st.lineno >= best.lineno and (st.end_lineno or 0) <= (best.end_lineno or 10**9)):
                best = st
    return best


def cond_text(conds):
    return " and ".join((("" if pol else "not ") + "(" + ast.unparse(t) + ")") for t, pol in conds) or "True"


# -------------------------------------------------------------------------------- coordinate-type predicates
def classify_coord_pred(test, var_names=None):
    """Recognise the predicates used to dispatch on coordinate types.
    Returns one of 'transform', 'no-transform', 'all-cartesian', 'all-spherical', 'is-sequence', None."""
    t = test
    if isinstance(t, ast.Compare) and len(t.ops) == 1 and isinstance(t.comparators[0], ast.Constant) and t.comparators[0].value is None:
        if isinstance(t.ops[0], ast.IsNot):
            return "transform"
        if isinstance(t.ops[0], ast.Is):
            return "no-transform"
    if isinstance(t, ast.BoolOp) and isinstance(t.op, ast.Or):
        kinds = [classify_coord_pred(v) for v in t.values]
        # all(...) or coord_type == "cartesian"
        main = kinds[0]
        if main in ("all-cartesian", "all-spherical"):
            want = main.split("-")[1]
            for v in t.values[1:]:
                if not (isinstance(v, ast.Compare) and len(v.ops) == 1 and isinstance(v.ops[0], ast.Eq)
                        and isinstance(v.comparators[0], ast.Constant) and v.comparators[0].value == want):
                    return None
            return main
        return None
    if isinstance(t, ast.BoolOp) and isinstance(t.op, ast.And):
        kinds = {classify_coord_pred(v) for v in t.values}
        if len(kinds) == 1 and list(kinds)[0] in ("all-cartesian", "all-spherical"):
            return list(kinds)[0]
        return None
    if isinstance(t, ast.Call) and dotted(t.func) == "all" and len(t.args) == 1 and isinstance(t.args[0], ast.GeneratorExp):
        g = t.args[0]
        if len(g.generators) == 1 and not g.generators[0].ifs and isinstance(g.elt, ast.Compare) and len(g.elt.ops) == 1 \
                and isinstance(g.elt.ops[0], ast.Eq) and isinstance(g.generators[0].target, ast.Name):
            v = g.generators[0].target.id
            l, r = g.elt.left, g.elt.comparators[0]
            if isinstance(r, ast.Name) and isinstance(l, ast.Constant):
                l, r = r, l
            if isinstance(l, ast.Name) and l.id == v and isinstance(r, ast.Constant) and r.value in ("cartesian", "spherical"):
                return "all-" + r.value
        return None
    if isinstance(t, ast.Call) and dotted(t.func) == "isinstance" and len(t.args) == 2 and ast.unparse(t.args[1]) in ("(list, tuple)", "(tuple, list)"):
        return "is-sequence"
    return None


def effective_branch(conds):
    """From a path condition decide which assembly the branch is for:
    'lincomb' | 'cartesian' | 'spherical' | 'mix' | None (unrecognised)."""
    conds = [(t, pol) for t, pol in conds if not (id(t) in RAISE_GUARDS and not pol)]
    pos = [classify_coord_pred(t) for t, pol in conds if pol]
    neg = [classify_coord_pred(t) for t, pol in conds if not pol]
    if None in pos or None in neg:
        return None
    if "transform" in pos:
        return "lincomb"
    if "all-cartesian" in pos:
        return "cartesian" if "all-spherical" not in pos else None
    if "all-spherical" in pos:
        return "spherical" if "all-cartesian" in neg else "spherical-unordered"
    if "all-cartesian" in neg and "all-spherical" in neg:
        return "mix"
    return None


def kwargs_of_call(fn, call, defs=None):
    """Keyword arguments of a call as {name: expr text}; `**name` is expanded when `name` is bound to a
    dict literal in fn, otherwise reported as {'**': name}."""
    out = {}
    for k in call.keywords:
        if k.arg is not None:
            out[k.arg] = ast.unparse(k.value)
        else:
            nm = ast.unparse(k.value)
            lit = None
            if isinstance(k.value, ast.Name):
                assigns = [n for n in walk_no_nested(fn) if isinstance(n, ast.Assign) and len(n.targets) == 1
                           and isinstance(n.targets[0], ast.Name) and n.targets[0].id == k.value.id]
                if len(assigns) == 1 and isinstance(assigns[0].value, ast.Dict):
                    lit = assigns[0].value
            if lit is not None and all(isinstance(kk, ast.Constant) for kk in lit.keys):
                for kk, vv in zip(lit.keys, lit.values):
                    out[kk.value] = ast.unparse(vv)
            else:
                out["**"] = nm
    return out


# -------------------------------------------------------------------------------- public wrapper dispatch
ASSEMBLY = ("lincomb", "cartesian", "spherical", "mix")


def coord_type_list_ok(fn, name, basis_param):
    """`name` is bound once to the list of `.coord_type` of the shells of `basis_param`, in order."""
    assigns = [n for n in walk_no_nested(fn) if isinstance(n, ast.Assign) and len(n.targets) == 1
               and isinstance(n.targets[0], ast.Name) and n.targets[0].id == name]
    if len(assigns) != 1:
        return False, "not a single assignment"
    v = assigns[0].value
    # strip identity comprehension [ct for ct in X]
    while isinstance(v, ast.ListComp) and len(v.generators) == 1 and not v.generators[0].ifs and \
            isinstance(v.elt, ast.Name) and isinstance(v.generators[0].target, ast.Name) and v.elt.id == v.generators[0].target.id:
        v = v.generators[0].iter
    if isinstance(v, ast.ListComp) and len(v.generators) == 1 and not v.generators[0].ifs:
        g = v.generators[0]
        if isinstance(g.target, ast.Name) and isinstance(g.iter, ast.Name) and g.iter.id == basis_param and \
                isinstance(v.elt, ast.Attribute) and v.elt.attr == "coord_type" and isinstance(v.elt.value, ast.Name) \
                and v.elt.value.id == g.target.id:
            return True, ast.unparse(assigns[0].value)
    return False, ast.unparse(assigns[0].value)


def check_wrapper_dispatch(repo, f, R, rule="DISPATCH", must_forward=()):
    """The four-way dispatch of a public wrapper: transform -> lincomb; all cartesian -> cartesian; all spherical ->
    spherical; else mix; the four sibling calls forward identical keywords, each the wrapper's own parameter."""
    fn = f.node
    pc = path_conditions(fn)
    sites = []
    for node in walk_no_nested(fn):
        if isinstance(node, ast.Call) and isinstance(node.func, ast.Attribute) and node.func.attr.startswith("construct_array_") \
                and isinstance(node.func.value, ast.Call):
            sites.append(node)
    sites.sort(key=lambda c: c.lineno)
    if len(sites) != 4:
        raise AnalysisError(rule, f"expected the 4 assembly calls in {f.qualname}, found {len(sites)}", f.where())
    classes = {ast.unparse(c.func.value.func) for c in sites}
    if len(classes) != 1:
        R.fail(rule, f.site, "assembly class", f"the dispatch branches of {f.name} use different classes: {sorted(classes)}", where=f.where())
        return 4
    cls = repo.resolve_name(f.module, classes.pop(), f)
    kernel = cls.lookup("construct_array_contraction") if cls is not None and hasattr(cls, "lookup") else None
    if isinstance(kernel, ast.AST):
        kernel = repo.resolve_alias(cls.module, kernel)
    if kernel is None:
        raise AnalysisError(rule, f"kernel of the class used by {f.qualname} not found", f.where())
    ka = kernel.node.args
    kparams = [x.arg for x in ka.posonlyargs + ka.args + ka.kwonlyargs]
    kparams = [p for p in kparams if p not in ("self", "cls")]
    nshell = {"BaseOneIndex": 1, "BaseTwoIndexSymmetric": 2, "BaseTwoIndexAsymmetric": 2, "BaseFourIndexSymmetric": 4}
    n_sh = None
    for c in cls.mro():
        if c.name in nshell:
            n_sh = nshell[c.name]
    if n_sh is None:
        raise AnalysisError(rule, f"assembly base class of {cls.name} not recognised", f.where())
    kw_params = kparams[n_sh:]
    n_def = len(ka.defaults)
    required = set(kw_params[: len(kw_params) - n_def]) if n_def else set(kw_params)
    basis_param = f.params[0]
    seen = {}
    kwsets = {}
    for call in sites:
        meth = call.func.attr[len("construct_array_"):]
        st = stmt_of(fn, call)
        conds = pc.get(id(st), ())
        eff = effective_branch(conds)
        text = f"{ast.unparse(call.func)}(...) under [{cond_text(conds)[:110]}]"
        if eff is None:
            raise AnalysisError(rule, f"dispatch predicate not recognised: {cond_text(conds)[:120]}", f.where(call))
        R.check(eff == meth, rule, f.site, text,
                f"this branch is taken for a {'transformed' if eff == 'lincomb' else eff} basis but assembles with construct_array_{meth}",
                where=f.where(call), expected=f"construct_array_{eff}", found=f"construct_array_{meth}")
        seen[meth] = seen.get(meth, 0) + 1
        # class constructed on the wrapper's basis
        ctor = call.func.value
        R.check([ast.unparse(a) for a in ctor.args] == [basis_param] and not ctor.keywords, rule, f.site,
                f"{ast.unparse(ctor)} in branch {meth}", "the assembly object must be built on the given basis",
                where=f.where(call), expected=f"{cls.name}({basis_param})", found=ast.unparse(ctor))
        pos = [ast.unparse(a) for a in call.args]
        if meth == "lincomb":
            okp = len(pos) == 2 and pos[0] == "transform"
            ct_name = pos[1] if len(pos) == 2 else None
        elif meth == "mix":
            okp = len(pos) == 1
            ct_name = pos[0] if pos else None
        else:
            okp = not pos
            ct_name = None
        R.check(okp, rule, f.site, f"positional arguments of branch {meth}", "unexpected positional arguments",
                where=f.where(call), expected={"lincomb": "(transform, coord_type)", "mix": "(coord_type)"}.get(meth, "()"), found=pos)
        if ct_name is not None:
            ok, how = coord_type_list_ok(fn, ct_name, basis_param)
            R.check(ok, rule, f.site, f"{ct_name} in branch {meth}",
                    "the coordinate types handed to the assembly must be the shells' own coord_type, in basis order",
                    where=f.where(call), expected=f"[shell.coord_type for shell in {basis_param}]", found=how)
        kwsets[meth] = kwargs_of_call(fn, call)
    R.check(all(seen.get(m, 0) == 1 for m in ASSEMBLY), rule, f.site, "one call per assembly",
            "each of lincomb/cartesian/spherical/mix must be reachable exactly once", where=f.where(), expected={m: 1 for m in ASSEMBLY}, found=seen)
    ref = kwsets.get("cartesian", {})
    for meth, kws in kwsets.items():
        R.check(kws == ref, rule, f.site, f"keywords of branch {meth}",
                f"branch {meth} forwards {kws} but branch cartesian forwards {ref}: results would depend on the coordinate-type branch",
                where=f.where(), expected=ref, found=kws)
    wrapper_params = set(f.params)
    for p in kw_params:
        if p in required or p in wrapper_params:
            for meth, kws in kwsets.items():
                R.check(kws.get(p) == p, rule, f.site, f"{p}= in branch {meth}",
                        f"kernel parameter `{p}` is not forwarded from the wrapper's parameter in branch {meth} "
                        f"({'missing: the default is used silently' if p not in kws else 'receives ' + str(kws.get(p))})",
                        where=f.where(), expected=f"{p}={p}", found=kws.get(p))
    for meth, kws in kwsets.items():
        extra = set(kws) - set(kw_params)
        R.check(not extra, rule, f.site, f"unknown keywords in branch {meth}", f"keywords {sorted(extra)} are not kernel parameters",
                where=f.where(), expected=sorted(kw_params), found=sorted(kws))
    return 4
