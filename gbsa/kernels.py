"""Kernel-level analysis on top of stencil.Extractor: public-kernel runs, contract K, contraction/normalisation
normal form (LIN), gather rule, stencil conformance drivers shared by C01-C04, C07, C08, C12, C13, C16."""
import ast

import sympy as sp

from .stencil import (Extractor, SV, Lab, ShellSym, Contract, Gather, TabRef, ARange, OrderTab, Boys, c, LabelMismatch)
from .stencil_spec import (A, B, C, D, Cm, Cp, al, be, ga, de, Finding, check_moment_kernel, check_diff_kernel, stencil_of, compare,
                           inc_axis, tvalues)
from .report import AnalysisError

MOMENT_INT = "gbasis.integrals._moment_int._compute_multipole_moment_integrals_intermediate"
DIFF_INT = "gbasis.integrals._diff_operator_int._compute_differential_operator_integrals_intermediate"


def shell_env(f, extra=None):
    """Bind the shell parameters of a public kernel (contractions_one/two, cont_one..four, contractions) to ShellSyms."""
    env = {}
    params = [p for p in f.params if p not in ("self", "cls")]
    pos = 0
    for p in params:
        if p.startswith("cont"):
            pos += 1
            env[p] = ShellSym(pos)
    env.update(extra or {})
    return env


def run_public(repo, f, extra=None, if_handler=None, choices=None):
    env = shell_env(f, extra)
    if if_handler is not None:
        env["__if__"] = if_handler
    ex = Extractor(f, env, rule="AXTYPE-K", repo=repo)
    if choices is not None:
        ex.shared["choices"] = dict(choices)
    ex.run()
    return ex


def run_public_forks(repo, f, extra_factory=None, if_handler_factory=None, limit=8):
    """Run the kernel once per outcome of every scalar data-dependent branch that no handler decides (none on the unmodified
    tree: one run).  -> list of (choices, extractor or the LabelMismatch raised on that path)"""
    import itertools
    from .stencil import NeedFork, LabelMismatch
    out = []
    stack = [{}]
    seen = set()
    while stack and len(out) < limit:
        ch = stack.pop()
        key = tuple(sorted(ch.items()))
        if key in seen:
            continue
        seen.add(key)
        try:
            ex = run_public(repo, f, extra_factory() if extra_factory else None, if_handler_factory() if if_handler_factory else None, choices=ch)
        except NeedFork as nf:
            for v in (True, False):
                c2 = dict(ch)
                c2[nf.key] = v
                stack.append(c2)
            continue
        except LabelMismatch as lm:
            out.append((ch, lm))
            continue
        out.append((ch, ex))
    return out


def peel_contracts(e):
    """Contract(x, m1) nested -> ([(marker, factor-outside-inner)], core).  Returns list from outermost to innermost."""
    layers = []
    cur = e
    while True:
        cur = sp.expand(cur) if False else cur
        cons = [a for a in sp.Mul.make_args(cur) if isinstance(a, Contract)]
        if isinstance(cur, Contract):
            inner, marker = cur.args
            layers.append((marker, sp.Integer(1)))
            cur = inner
            continue
        if len(cons) == 1 and cur.is_Mul:
            rest = sp.Mul(*[a for a in cur.args if a is not cons[0]])
            inner, marker = cons[0].args
            layers.append((marker, rest))
            cur = inner
            continue
        break
    return layers, cur


def contraction_normal_form(ret, nshell, findings, f, rule="LIN"):
    """The returned value must be  Contract_s( coef_s * NPC_s * ... ) over the primitive axis of each shell exactly once, with
    each coefficient matrix and primitive norm appearing exactly once (degree 1) - multilinearity in the coefficients.
    Returns the core expression (the product over components of gathered table entries)."""
    e = ret.e
    # layers: each Contract multiplies its inner by outer factors *inside* the next Contract: structure
    # Contract(f2 * Contract(f1 * core, m1), m2)
    factors = []
    cur = e
    while isinstance(cur, Contract):
        inner, marker = cur.args
        args = list(sp.Mul.make_args(inner))
        sub = [a for a in args if isinstance(a, Contract)]
        rest = sp.Mul(*[a for a in args if not isinstance(a, Contract)])
        if len(sub) > 1:
            findings.append(Finding(rule, None, "more than one nested contraction in a product", construct=str(e)[:100]))
            return None
        if sub:
            factors.append((marker, rest))
            cur = sub[0]
        else:
            factors.append((marker, None))
            cur = inner
            break
    if len(factors) != nshell:
        findings.append(Finding(rule, None, f"the kernel contracts the primitives of {len(factors)} shell(s); expected one contraction per shell ({nshell})",
                                expected=nshell, found=len(factors), construct="primitive contractions"))
        return None
    # innermost: cur = f1 * core
    core = cur
    seen = {}
    all_scal = sp.Integer(1)
    for k, (marker, rest) in enumerate(factors):
        if rest is not None:
            all_scal = all_scal * rest
    # split innermost product into shell factors and the rest
    inner_args = list(sp.Mul.make_args(core))
    shell_syms = [a for a in inner_args if a.is_Symbol and (str(a).startswith("coef") or str(a).startswith("NPC"))]
    core = sp.Mul(*[a for a in inner_args if a not in shell_syms])
    all_scal = all_scal * sp.Mul(*shell_syms)
    want = sp.Integer(1)
    for s in range(1, nshell + 1):
        want = want * sp.Symbol(f"coef{s}") * sp.Symbol(f"NPC{s}")
    extra = sp.simplify(all_scal / want)
    if extra != 1:
        findings.append(Finding(rule, None, "the primitive contraction is not (coefficient matrix x primitive norm) of every shell exactly once: "
                                            f"found factor {all_scal}", expected=str(want), found=str(all_scal), construct="primitive factors"))
    return core, factors


def check_contract_markers(ex, factors, findings, rule="LIN"):
    """Each contraction must be over a primitive axis, one per shell, and carry that shell's coefficient."""
    sizes = []
    for marker, rest in factors:
        name = str(marker)
        sizes.append(name)
    return sizes


def product_over_components(core):
    """core must be a product of one factor per Cartesian component (c = 0, 1, 2); returns [f0, f1, f2] or None."""
    args = list(sp.Mul.make_args(core))
    if len(args) != 3:
        return None
    return args


def check_gather_1d(ex, core, axis_role, order_expr_ok, findings, f, rule="GATHER"):
    """Separable kernels: core = prod_c Gather(g; e_idx(c), comp_b(c), comp_a(c), c).  axis_role: table axis -> 'e'|'b'|'a'."""
    fac = product_over_components(core)
    if fac is None or not all(isinstance(x, Gather) for x in fac):
        findings.append(Finding(rule, None, f"the result is not the product over x, y, z of one selected table entry each: {core}",
                                construct="component product"))
        return None
    gid = {int(x.args[0]) for x in fac}
    if len(gid) != 1:
        findings.append(Finding(rule, None, "the x, y, z factors are selected from different tables", construct="component product"))
        return None
    g = ex.shared["gathers"][gid.pop()]
    comps_seen = set()
    role_shell = {"a": 1, "b": 2}
    for x in fac:
        args = x.args[1:]
        # component index: the entry on the table's xyz axis
        tab = g["table"]
        labels = tab.labels if tab is not None else None
        if labels is None:
            raise AnalysisError(rule, "gather from something that is not a recursion table", f.where(g["node"]))
        xyz_axes = [k for k, l in enumerate(labels) if l.base == "xyz"]
        if len(xyz_axes) != 1:
            raise AnalysisError(rule, "table without a single component axis", f.where(g["node"]))
        comp = args[xyz_axes[0]]
        if not comp.is_number:
            findings.append(Finding(rule, None, f"the Cartesian-component axis of the table is indexed by {comp}, not by the component itself",
                                    construct=ast.unparse(g["node"])[:80]))
            return None
        comps_seen.add(int(comp))
        for k, role in axis_role.items():
            idx = args[k]
            if role in role_shell:
                want = sp.Function(f"Comp{role_shell[role]}")(comp)
                if sp.simplify(idx - want) != 0:
                    findings.append(Finding(rule, None,
                                            f"table axis {k} holds the recursion index of shell {role_shell[role]} (its recursion uses that shell's "
                                            f"centre) but is selected with {idx} for component {comp}",
                                            expected=str(want), found=str(idx), construct=ast.unparse(g["node"])[:80]))
            else:
                ok, why = order_expr_ok(idx, comp)
                if not ok:
                    findings.append(Finding(rule, None, f"order axis {k} is selected with {idx} for component {comp}: {why}",
                                            construct=ast.unparse(g["node"])[:80]))
    if comps_seen != {0, 1, 2}:
        findings.append(Finding(rule, None, f"components covered by the product: {sorted(comps_seen)}", construct="component product"))
    return g


def expect_labels(ret, want, findings, what, f, rule="K"):
    got = [l.base for l in (ret.labels or [])]
    ok = ret.labels is not None and len(got) == len(want) and all(g == w for g, w in zip(got, want))
    if not ok:
        findings.append(Finding(rule, None, f"{what}: the kernel returns axes {ret.labels}, contract K requires {want}",
                                expected=str(want), found=str(ret.labels), construct="returned axes"))
    return ok


def K_labels(nshell, trailing=()):
    out = []
    for s in range(1, nshell + 1):
        out += [("dim", "M", s), ("dim", "L", s)]
    return out + list(trailing)


def gather_table(ex, gid):
    """The recursion table a gather reads (directly, through a transposed view, or through a sliced reference)."""
    g = ex.shared["gathers"][gid]
    if g["table"] is not None:
        return g["table"], None
    base = g["base"]
    rid = getattr(base, "table_ref", None)
    if rid is not None:
        ref = ex.shared["refs"][rid]
        return ref["table"], ref
    return None, None


def split_terms(e):
    """-> list of (numeric coefficient, term) of an expanded sum"""
    out = []
    for t in sp.Add.make_args(sp.expand(e)):
        cf, rest = t.as_coeff_Mul()
        out.append((cf, rest))
    return out


def check_sliced_return(ex, ref, findings, f, what):
    """A table returned through `T[:, :, :n]`: the cut must keep every index the selection can reach (checked by the caller)."""
    return ref
